/-
  Lemmas/CanonLen.lean — the canonical form is never longer than the input (used by C04).

  Method: the weight `wt ts = Σ (1 + |t|)` of a subtag list.  `wt (splitSep bs) = |bs| + 1`,
  every parser loop only ever moves weight from the unconsumed subtags into the value (case maps
  preserve length; `true` values, duplicate variants/attributes, overwritten keys and empty
  subtags lose weight), and `|join ts| + 1 = wt ts`.
-/
import UnicLocale.Model.Locale
import UnicLocale.Lemmas.Ascii
import UnicLocale.Lemmas.Order
import UnicLocale.Props.C15
import UnicLocale.Lemmas.LiLoop

namespace UL.CanonLen
open Props.C15

/-! ### weights -/

/-- total length of the subtags, each counted with one separator -/
def wt (ts : List Bytes) : Nat := (dashAll ts).length

@[simp] theorem wt_nil : wt [] = 0 := rfl

theorem wt_cons (t : Bytes) (ts : List Bytes) : wt (t :: ts) = 1 + t.length + wt ts := by
  simp only [wt, dashAll, List.length_cons, List.length_append]
  omega

theorem wt_append (a b : List Bytes) : wt (a ++ b) = wt a + wt b := by
  induction a with
  | nil => simp
  | cons t a ih =>
    rw [List.cons_append, wt_cons, wt_cons, ih]
    omega

theorem wt_singleton (t : Bytes) : wt [t] = 1 + t.length := by
  rw [wt_cons, wt_nil, Nat.add_zero]

theorem wt_perm {a b : List Bytes} (h : a.Perm b) : wt a = wt b := by
  induction h with
  | nil => rfl
  | cons x _ ih => rw [wt_cons, wt_cons, ih]
  | swap x y l => simp only [wt_cons]; omega
  | trans _ _ ih1 ih2 => rw [ih1, ih2]

theorem wt_sublist {a b : List Bytes} (h : a.Sublist b) : wt a ≤ wt b := by
  induction h with
  | slnil => exact Nat.le_refl _
  | cons x _ ih => rw [wt_cons]; omega
  | cons_cons x _ ih => rw [wt_cons, wt_cons]; omega

theorem wt_dedup_sort (l : List Bytes) : wt (dedupAdj (sortBytes l)) ≤ wt l := by
  have h1 := wt_sublist (dedupAdj_sublist (sortBytes l))
  have h2 := wt_perm (perm_sortBytes l)
  omega

theorem join_length {ts : List Bytes} (h : ts ≠ []) : (join ts).length + 1 = wt ts := by
  cases ts with
  | nil => exact absurd rfl h
  | cons t ts =>
    rw [wt_cons]
    simp only [join, List.length_append, wt]
    omega

theorem wt_splitSep (bs : Bytes) : wt (splitSep bs) = bs.length + 1 := by
  induction bs with
  | nil => rfl
  | cons b t ih =>
    unfold splitSep
    split
    · rw [wt_cons, ih]; simp only [List.length_nil, List.length_cons]; omega
    · split
      · rename_i h r heq
        rw [heq, wt_cons] at ih
        rw [wt_cons]
        simp only [List.length_cons] at *
        omega
      · rename_i heq
        rw [heq] at ih
        simp only [wt_nil] at ih
        omega

/-! ### the subtag constructors preserve length -/

theorem Script.length_of_ok {t s : Bytes} (h : Script.fromBytes t = .ok s) : s.length = t.length := by
  obtain ⟨_, rfl⟩ := script_ok_inv h
  exact length_title t

theorem Region.length_of_ok {t s : Bytes} (h : Region.fromBytes t = .ok s) : s.length = t.length := by
  obtain ⟨_, rfl⟩ := region_ok_inv h
  exact length_upper t

theorem Variant.length_of_ok {t s : Bytes} (h : Variant.fromBytes t = .ok s) : s.length = t.length := by
  obtain ⟨_, rfl⟩ := variant_ok_inv h
  exact length_lower t

theorem Language.length_of_ok {t : Bytes} {l : Language} (h : Language.fromBytes t = .ok l) :
    (Language.asStr l).length = t.length := by
  rw [language_stored_text t l h]
  exact length_lower t

theorem parseKey_length {t k : Bytes} (h : parseKey t = .ok k) : k.length = t.length := by
  unfold parseKey at h
  split at h
  · cases h
  · split at h
    · split at h
      · cases h
      · split at h
        · cases h
        · cases h; exact length_lower _
    · cases h

theorem parseTKey_length {t k : Bytes} (h : parseTKey t = .ok k) : k.length = t.length := by
  unfold parseTKey at h
  split at h
  · cases h
  · split at h
    · split at h
      · cases h
      · split at h
        · cases h
        · cases h; exact length_lower _
    · cases h

theorem parseAttribute_length {t k : Bytes} (h : parseAttribute t = .ok k) : k.length = t.length := by
  unfold parseAttribute at h
  split at h
  · cases h
  · split at h
    · cases h
    · cases h; exact length_lower _

theorem parsePrivate_length {t k : Bytes} (h : parsePrivate t = .ok k) : k.length = t.length := by
  unfold parsePrivate at h
  split at h
  · cases h
  · split at h
    · cases h
    · cases h; exact length_lower _

theorem parseType_length {t k : Bytes} (h : parseType t = .ok (some k)) : k.length = t.length := by
  unfold parseType at h
  split at h
  · cases h
  · split at h
    · cases h
    · simp only at h
      split at h
      · cases h
      · cases h; exact length_lower _

theorem parseTValue_length {t k : Bytes} (h : parseTValue t = .ok (some k)) : k.length = t.length := by
  unfold parseTValue at h
  split at h
  · cases h
  · split at h
    · cases h
    · simp only at h
      split at h
      · cases h
      · cases h; exact length_lower _

/-! ### the language-identifier parser -/

theorem LangId.loop_wt (ts : List Bytes) : ∀ (pos : Nat) (s r : Option Bytes) (vs : List Bytes)
    (s' r' : Option Bytes) (vs' rest : List Bytes),
    LangId.loop pos ts s r vs = .ok (s', r', vs', rest) →
    wt s'.toList + wt r'.toList + wt vs' + wt rest ≤ wt s.toList + wt r.toList + wt vs + wt ts := by
  induction ts with
  | nil =>
    intro pos s r vs s' r' vs' rest h
    rw [LangId.loop] at h
    cases h
    exact Nat.le_refl _
  | cons t ts ih =>
    intro pos s r vs s' r' vs' rest h
    rw [LangId.loop] at h
    have brk : ∀ {s' r' vs' rest}, (Res.ok (s, r, vs, t :: ts) : Res _) = .ok (s', r', vs', rest) →
        wt s'.toList + wt r'.toList + wt vs' + wt rest ≤
          wt s.toList + wt r.toList + wt vs + wt (t :: ts) := by
      intro _ _ _ _ h; cases h; exact Nat.le_refl _
    have hv : ∀ p {v}, Variant.fromBytes t = .ok v → LangId.loop p ts s r (vs ++ [v]) = .ok (s', r', vs', rest) →
        wt s'.toList + wt r'.toList + wt vs' + wt rest ≤
          wt s.toList + wt r.toList + wt vs + wt (t :: ts) := by
      intro p v hv h
      have := ih _ _ _ _ _ _ _ _ h
      have := Variant.length_of_ok hv
      simp only [wt_append, wt_cons, wt_nil] at *
      omega
    have hr : ∀ {v}, Region.fromBytes t = .ok v → LangId.loop 3 ts s (some v) vs = .ok (s', r', vs', rest) →
        wt s'.toList + wt r'.toList + wt vs' + wt rest ≤
          wt s.toList + wt r.toList + wt vs + wt (t :: ts) := by
      intro v hv h
      have := ih _ _ _ _ _ _ _ _ h
      have := Region.length_of_ok hv
      simp only [Option.toList_some, wt_cons, wt_nil] at *
      omega
    have hs : ∀ {v}, Script.fromBytes t = .ok v → LangId.loop 2 ts (some v) r vs = .ok (s', r', vs', rest) →
        wt s'.toList + wt r'.toList + wt vs' + wt rest ≤
          wt s.toList + wt r.toList + wt vs + wt (t :: ts) := by
      intro v hv h
      have := ih _ _ _ _ _ _ _ _ h
      have := Script.length_of_ok hv
      simp only [Option.toList_some, wt_cons, wt_nil] at *
      omega
    split at h
    · cases h1 : Script.fromBytes t with
      | ok sc => rw [h1] at h; exact hs h1 h
      | panic => rw [h1] at h; cases h
      | err e =>
        rw [h1] at h
        cases h2 : Region.fromBytes t with
        | ok rg => rw [h2] at h; exact hr h2 h
        | panic => rw [h2] at h; cases h
        | err e =>
          rw [h2] at h
          cases h3 : Variant.fromBytes t with
          | ok v => rw [h3] at h; exact hv _ h3 h
          | panic => rw [h3] at h; cases h
          | err e => rw [h3] at h; exact brk h
    · split at h
      · cases h2 : Region.fromBytes t with
        | ok rg => rw [h2] at h; exact hr h2 h
        | panic => rw [h2] at h; cases h
        | err e =>
          rw [h2] at h
          cases h3 : Variant.fromBytes t with
          | ok v => rw [h3] at h; exact hv _ h3 h
          | panic => rw [h3] at h; cases h
          | err e => rw [h3] at h; exact brk h
      · cases h3 : Variant.fromBytes t with
        | ok v => rw [h3] at h; exact hv _ h3 h
        | panic => rw [h3] at h; cases h
        | err e => rw [h3] at h; exact brk h

theorem LangId.finishVariants_wt (vs : List Bytes) : wt ((LangId.finishVariants vs).getD []) ≤ wt vs := by
  unfold LangId.finishVariants
  split
  · exact Nat.zero_le _
  · exact wt_dedup_sort vs

theorem LangId.tokens_ne_nil (x : LangId) : LangId.tokens x ≠ [] := by
  simp [LangId.tokens]

theorem LangId.tokens_wt (x : LangId) :
    wt (LangId.tokens x) =
      1 + (Language.asStr x.language).length + wt x.script.toList + wt x.region.toList + wt (x.variants.getD []) := by
  simp only [LangId.tokens, wt_append, wt_cons, wt_nil]
  omega

theorem LangId.parseIter_wt {ts rest : List Bytes} {a : Bool} {x : LangId} (hne : ts ≠ [])
    (h : LangId.parseIter ts a = .ok (x, rest)) : wt (LangId.tokens x) + wt rest ≤ wt ts := by
  cases ts with
  | nil => exact absurd rfl hne
  | cons t r =>
    unfold LangId.parseIter at h
    simp only at h
    cases hl : Language.fromBytes t with
    | err e => rw [hl] at h; cases h
    | panic => rw [hl] at h; cases h
    | ok l =>
      rw [hl] at h
      simp only [Res.map] at h
      cases hloop : LangId.loop 1 r none none [] with
      | err e => rw [hloop] at h; cases h
      | panic => rw [hloop] at h; cases h
      | ok q =>
        obtain ⟨s, rg, vs, rest'⟩ := q
        rw [hloop] at h
        simp only at h
        split at h
        · cases h
        · cases h
          have h1 := LangId.loop_wt _ _ _ _ _ _ _ _ _ hloop
          have h2 := LangId.finishVariants_wt vs
          have h3 := Language.length_of_ok hl
          rw [LangId.tokens_wt, wt_cons]
          simp only [Option.toList_none, wt_nil] at h1 ⊢
          omega

/-- `LanguageIdentifier`: the canonical form is never longer than the input. -/
theorem LangId.display_length_le (bs : Bytes) (x : LangId) :
    LangId.fromBytes bs = .ok x → (LangId.display x).length ≤ bs.length := by
  intro h
  unfold LangId.fromBytes at h
  cases hp : LangId.parseIter (splitSep bs) false with
  | err e => rw [hp] at h; cases h
  | panic => rw [hp] at h; cases h
  | ok q =>
    obtain ⟨y, rest⟩ := q
    rw [hp] at h
    simp only [Res.map] at h
    have hxy : y = x := by injection h
    subst hxy
    have h1 := LangId.parseIter_wt (splitSep_ne_nil bs) hp
    have h2 := join_length (LangId.tokens_ne_nil y)
    rw [wt_splitSep] at h1
    unfold LangId.display
    omega

/-! ### association lists -/

theorem AMap.insert_wt (k : Bytes) (v : List Bytes) (m : AMap) :
    wt (AMap.tokens (AMap.insert k v m)) ≤ wt (k :: v) + wt (AMap.tokens m) := by
  induction m with
  | nil => simp only [AMap.insert, AMap.tokens, wt_cons, wt_append, wt_nil]; omega
  | cons p m ih =>
    obtain ⟨k', v'⟩ := p
    unfold AMap.insert
    split
    · simp only [AMap.tokens, wt_cons, wt_append]; omega
    · split
      · simp only [AMap.tokens, wt_cons, wt_append]; omega
      · simp only [AMap.tokens, wt_cons, wt_append] at ih ⊢; omega

/-! ### the unicode extension -/

/-- weight of what a unicode extension list writes after its `-u` -/
def UExt.body (u : UExt) : Nat := wt u.attributes + wt (AMap.tokens u.keywords)

theorem UExt.flush_wt (u : UExt) (ck : Option Bytes) (ct : List Bytes) :
    UExt.body (UExt.flush u ck ct) ≤ UExt.body u + wt ck.toList + wt ct := by
  cases ck with
  | none => simp only [UExt.flush]; omega
  | some k =>
    have := AMap.insert_wt k ct u.keywords
    simp only [UExt.flush, UExt.body, Option.toList_some, wt_cons, wt_nil] at this ⊢
    omega

theorem UExt.finish_wt (u : UExt) (ck : Option Bytes) (ct : List Bytes) :
    UExt.body (UExt.finish u ck ct) ≤ UExt.body u + wt ck.toList + wt ct := by
  have h1 := UExt.flush_wt u ck ct
  have h2 := wt_dedup_sort (UExt.flush u ck ct).attributes
  simp only [UExt.finish, UExt.body] at h1 h2 ⊢
  omega

theorem UExt.loop_wt (ts : List Bytes) : ∀ (u : UExt) (ck : Option Bytes) (ct : List Bytes)
    (u' : UExt) (rest : List Bytes), UExt.loop ts u ck ct = .ok (u', rest) →
    UExt.body u' + wt rest ≤ wt ts + UExt.body u + wt ck.toList + wt ct := by
  induction ts with
  | nil =>
    intro u ck ct u' rest h
    rw [UExt.loop] at h
    cases h
    have := UExt.finish_wt u ck ct
    simp only [wt_nil]
    omega
  | cons t ts ih =>
    intro u ck ct u' rest h
    rw [UExt.loop] at h
    split at h
    · cases hk : parseKey t with
      | err e => rw [hk] at h; cases h
      | panic => rw [hk] at h; cases h
      | ok k =>
        rw [hk] at h
        simp only at h
        have h1 := ih _ _ _ _ _ h
        have h2 := UExt.flush_wt u ck ct
        have h3 := parseKey_length hk
        cases ck with
        | none =>
          simp only [UExt.flush, Option.isSome_none, Bool.false_eq_true, if_false, Option.toList_some,
            Option.toList_none, wt_cons, wt_nil] at h1 h2 ⊢
          omega
        | some k0 =>
          simp only [Option.isSome_some, if_true, Option.toList_some, wt_cons, wt_nil] at h1 h2 ⊢
          omega
    · split at h
      · cases hk : parseType t with
        | err e => rw [hk] at h; cases h
        | panic => rw [hk] at h; cases h
        | ok o =>
          rw [hk] at h
          cases o with
          | none =>
            simp only at h
            have h1 := ih _ _ _ _ _ h
            rw [wt_cons]
            omega
          | some ty =>
            simp only at h
            have h1 := ih _ _ _ _ _ h
            have h3 := parseType_length hk
            simp only [wt_append, wt_cons, wt_nil] at h1 ⊢
            omega
      · split at h
        · cases hk : parseAttribute t with
          | err e => rw [hk] at h; cases h
          | panic => rw [hk] at h; cases h
          | ok a =>
            rw [hk] at h
            simp only at h
            have h1 := ih _ _ _ _ _ h
            have h3 := parseAttribute_length hk
            simp only [UExt.body, wt_append, wt_cons, wt_nil] at h1 ⊢
            omega
        · cases h
          have := UExt.finish_wt u ck ct
          omega

theorem UExt.parseIter_wt {ts rest : List Bytes} {u : UExt} (h : UExt.parseIter ts = .ok (u, rest)) :
    UExt.body u + wt rest ≤ wt ts := by
  have := UExt.loop_wt ts _ _ _ _ _ h
  simp only [UExt.body, Option.toList_none, wt_nil, AMap.tokens] at this ⊢
  omega

theorem UExt.tokens_wt (u : UExt) : wt (UExt.tokens u) ≤ 2 + UExt.body u := by
  unfold UExt.tokens
  split
  · exact Nat.zero_le _
  · simp only [UExt.body, wt_cons, wt_append, List.length_cons, List.length_nil]
    omega

/-! ### the transform extension -/

/-- the subtags a transform extension list writes after its `-t` -/
def TExt.bodyTokens (x : TExt) : List Bytes :=
  (match x.tlang with | some l => LangId.tokens l | none => []) ++ AMap.tokens x.tfields

def TExt.body (x : TExt) : Nat := wt (TExt.bodyTokens x)

theorem TExt.body_eq (x : TExt) :
    TExt.body x = wt (match x.tlang with | some l => LangId.tokens l | none => []) + wt (AMap.tokens x.tfields) := by
  unfold TExt.body TExt.bodyTokens
  rw [wt_append]

theorem TExt.flush_wt (x : TExt) (ck : Option Bytes) (cv : List Bytes) :
    TExt.body (TExt.flush x ck cv) ≤ TExt.body x + wt ck.toList + wt cv := by
  cases ck with
  | none => simp only [TExt.flush]; omega
  | some k =>
    have := AMap.insert_wt k cv x.tfields
    simp only [TExt.flush, TExt.body_eq, Option.toList_some, wt_cons, wt_nil] at this ⊢
    omega

theorem TExt.fieldLoop_wt (ts : List Bytes) : ∀ (x : TExt) (ck : Option Bytes) (cv : List Bytes)
    (x' : TExt) (rest : List Bytes), TExt.fieldLoop ts x ck cv = .ok (x', rest) →
    TExt.body x' + wt rest ≤ wt ts + TExt.body x + wt ck.toList + wt cv := by
  induction ts with
  | nil =>
    intro x ck cv x' rest h
    rw [TExt.fieldLoop] at h
    cases h
    have := TExt.flush_wt x ck cv
    simp only [wt_nil]
    omega
  | cons t ts ih =>
    intro x ck cv x' rest h
    rw [TExt.fieldLoop] at h
    split at h
    · cases hk : parseTKey t with
      | err e => rw [hk] at h; cases h
      | panic => rw [hk] at h; cases h
      | ok k =>
        rw [hk] at h
        simp only at h
        have h1 := ih _ _ _ _ _ h
        have h2 := TExt.flush_wt x ck cv
        have h3 := parseTKey_length hk
        cases ck with
        | none =>
          simp only [TExt.flush, Option.isSome_none, Bool.false_eq_true, if_false, Option.toList_some,
            Option.toList_none, wt_cons, wt_nil] at h1 h2 ⊢
          omega
        | some k0 =>
          simp only [Option.isSome_some, if_true, Option.toList_some, wt_cons, wt_nil] at h1 h2 ⊢
          omega
    · split at h
      · cases h
        have := TExt.flush_wt x ck cv
        omega
      · split at h
        · cases hk : parseTValue t with
          | err e => rw [hk] at h; cases h
          | panic => rw [hk] at h; cases h
          | ok o =>
            rw [hk] at h
            cases o with
            | none =>
              simp only at h
              have h1 := ih _ _ _ _ _ h
              rw [wt_cons]
              omega
            | some ty =>
              simp only at h
              have h1 := ih _ _ _ _ _ h
              have h3 := parseTValue_length hk
              simp only [wt_append, wt_cons, wt_nil] at h1 ⊢
              omega
        · cases h
          have := TExt.flush_wt x ck cv
          omega

theorem TExt.parseIter_wt {ts rest : List Bytes} {x : TExt} (h : TExt.parseIter ts = .ok (x, rest)) :
    TExt.body x + wt rest ≤ wt ts := by
  have hempty : TExt.body {} = 0 := rfl
  unfold TExt.parseIter at h
  split at h
  · cases h; exact Nat.le_refl _
  · rename_i t ts'
    split at h
    · have := TExt.fieldLoop_wt _ _ _ _ _ _ h
      simp only [Option.toList_none, wt_nil, hempty] at this
      omega
    · split at h
      · cases h; rw [hempty]; omega
      · split at h
        · cases hl : LangId.parseIter (t :: ts') true with
          | err e => rw [hl] at h; cases h
          | panic => rw [hl] at h; cases h
          | ok q =>
            obtain ⟨li, rest'⟩ := q
            rw [hl] at h
            simp only at h
            have h1 := TExt.fieldLoop_wt _ _ _ _ _ _ h
            have h2 := LangId.parseIter_wt (List.cons_ne_nil _ _) hl
            have h3 : TExt.body { tlang := some li } = wt (LangId.tokens li) := by
              simp only [TExt.body_eq, AMap.tokens, wt_nil, Nat.add_zero]
            simp only [Option.toList_none, wt_nil, h3] at h1
            omega
        · cases h; rw [hempty]; omega

theorem TExt.tokens_wt (x : TExt) : wt (TExt.tokens x) ≤ 2 + TExt.body x := by
  unfold TExt.tokens
  split
  · exact Nat.zero_le _
  · show wt ([116] :: TExt.bodyTokens x) ≤ 2 + TExt.body x
    rw [wt_cons]
    simp only [TExt.body, List.length_cons, List.length_nil]
    omega

/-! ### the private-use extension -/

theorem collectAll_parsePrivate_wt (ts : List Bytes) : ∀ r, collectAll parsePrivate ts = .ok r → wt r = wt ts := by
  induction ts with
  | nil => intro r h; rw [collectAll] at h; cases h; rfl
  | cons t ts ih =>
    intro r h
    rw [collectAll] at h
    cases hp : parsePrivate t with
    | err e => rw [hp] at h; cases h
    | panic => rw [hp] at h; cases h
    | ok a =>
      rw [hp] at h
      simp only at h
      cases hc : collectAll parsePrivate ts with
      | err e => rw [hc] at h; cases h
      | panic => rw [hc] at h; cases h
      | ok r' =>
        rw [hc] at h
        cases h
        rw [wt_cons, wt_cons, ih _ hc, parsePrivate_length hp]

theorem PExt.parseIter_wt {ts : List Bytes} {p : PExt} (h : PExt.parseIter ts = .ok p) : wt p = wt ts := by
  unfold PExt.parseIter at h
  cases hc : collectAll parsePrivate ts with
  | err e => rw [hc] at h; cases h
  | panic => rw [hc] at h; cases h
  | ok r =>
    rw [hc] at h
    simp only [Res.map] at h
    cases h
    rw [wt_perm (perm_sortBytes r)]
    exact collectAll_parsePrivate_wt ts r hc

theorem PExt.tokens_wt (p : PExt) : wt (PExt.tokens p) ≤ 2 + wt p := by
  unfold PExt.tokens
  split
  · exact Nat.zero_le _
  · rw [wt_cons]
    simp only [List.length_cons, List.length_nil]
    omega

/-! ### the extensions map -/

theorem ExtMap.tokens_wt (m : ExtMap) :
    wt (ExtMap.tokens m) = wt m.transform.tokens + wt m.unicode.tokens + wt (PExt.tokens m.priv) := by
  unfold ExtMap.tokens
  rw [wt_append, wt_append]

theorem ExtMap.loop_wt (fuel : Nat) : ∀ (ts : List Bytes) (m : ExtMap) (sU sT : Bool) (m' : ExtMap),
    ExtMap.loop fuel ts m sU sT = .ok m' → wt (ExtMap.tokens m') ≤ wt (ExtMap.tokens m) + wt ts := by
  induction fuel with
  | zero => intro ts m sU sT m' h; unfold ExtMap.loop at h; cases h
  | succ fuel ih =>
    intro ts m sU sT m' h
    cases ts with
    | nil => rw [ExtMap.loop] at h; cases h; omega
    | cons t ts =>
      unfold ExtMap.loop at h
      split at h
      · cases h
      · cases t with
        | nil =>
          simp only at h
          have := ih _ _ _ _ _ h
          rw [wt_cons]
          omega
        | cons b t' =>
          simp only at h
          have hw : wt ((b :: t') :: ts) = 2 + t'.length + wt ts := by
            rw [wt_cons, List.length_cons]; omega
          cases hb : ExtType.fromByte b with
          | err e => rw [hb] at h; cases h
          | panic => rw [hb] at h; cases h
          | ok ty =>
            rw [hb] at h
            cases ty with
            | unicode =>
              simp only at h
              split at h
              · cases h
              · cases hu : UExt.parseIter ts with
                | err e => rw [hu] at h; cases h
                | panic => rw [hu] at h; cases h
                | ok q =>
                  obtain ⟨u, rest⟩ := q
                  rw [hu] at h
                  simp only at h
                  have h1 := ih _ _ _ _ _ h
                  have h2 := UExt.parseIter_wt hu
                  have h3 := UExt.tokens_wt u
                  simp only [ExtMap.tokens_wt] at h1 ⊢
                  omega
            | transform =>
              simp only at h
              split at h
              · cases h
              · cases hu : TExt.parseIter ts with
                | err e => rw [hu] at h; cases h
                | panic => rw [hu] at h; cases h
                | ok q =>
                  obtain ⟨x, rest⟩ := q
                  rw [hu] at h
                  simp only at h
                  have h1 := ih _ _ _ _ _ h
                  have h2 := TExt.parseIter_wt hu
                  have h3 := TExt.tokens_wt x
                  simp only [ExtMap.tokens_wt] at h1 ⊢
                  omega
            | priv =>
              simp only at h
              cases hu : PExt.parseIter ts with
              | err e => rw [hu] at h; cases h
              | panic => rw [hu] at h; cases h
              | ok p =>
                rw [hu] at h
                simp only at h
                cases h
                have h2 := PExt.parseIter_wt hu
                have h3 := PExt.tokens_wt p
                simp only [ExtMap.tokens_wt]
                omega
            | other => cases h

theorem ExtMap.parseIter_wt {ts : List Bytes} {m : ExtMap} (h : ExtMap.parseIter ts = .ok m) :
    wt (ExtMap.tokens m) ≤ wt ts := by
  have := ExtMap.loop_wt _ _ _ _ _ _ h
  have h0 : wt (ExtMap.tokens {}) = 0 := rfl
  omega

/-! ### the locale -/

theorem dashAll_append (a b : List Bytes) : dashAll (a ++ b) = dashAll a ++ dashAll b := by
  induction a with
  | nil => rfl
  | cons s a ih => simp only [dashAll, List.cons_append, List.append_assoc, ih]

theorem Locale.display_eq_join (x : Locale) : Locale.display x = join (Locale.tokens x) := by
  unfold Locale.display Locale.tokens LangId.display ExtMap.display
  cases hx : LangId.tokens x.id with
  | nil => exact absurd hx (LangId.tokens_ne_nil _)
  | cons t a => simp only [join, List.cons_append, List.append_assoc, dashAll_append]

/-- `Locale`: the canonical form is never longer than the input. -/
theorem Locale.display_length_le (bs : Bytes) (x : Locale) :
    Locale.fromBytes bs = .ok x → (Locale.display x).length ≤ bs.length := by
  intro h
  unfold Locale.fromBytes Locale.parse at h
  cases hp : LangId.parseIter (splitSep bs) true with
  | err e => rw [hp] at h; cases h
  | panic => rw [hp] at h; cases h
  | ok q =>
    obtain ⟨id, rest⟩ := q
    rw [hp] at h
    simp only at h
    cases he : ExtMap.parseIter rest with
    | err e => rw [he] at h; cases h
    | panic => rw [he] at h; cases h
    | ok ext =>
      rw [he] at h
      simp only at h
      have hx : ({ id := id, ext := ext } : Locale) = x := by injection h
      subst hx
      have h1 := LangId.parseIter_wt (splitSep_ne_nil bs) hp
      have h2 := ExtMap.parseIter_wt he
      have h3 := join_length (LangId.tokens_ne_nil id)
      rw [wt_splitSep] at h1
      simp only [Locale.display, LangId.display, ExtMap.display, List.length_append]
      have h4 : (dashAll (ExtMap.tokens ext)).length = wt (ExtMap.tokens ext) := rfl
      omega

/-! ### sanity instances (non-vacuity; strictness and tightness of the bound) -/

-- "en-fonipa-fonipa" -> "en-fonipa"  (duplicated variant removed)
example : Locale.canonicalize [101, 110, 45, 102, 111, 110, 105, 112, 97, 45, 102, 111, 110, 105, 112, 97] = .ok [101, 110, 45, 102, 111, 110, 105, 112, 97] ∧
    [101, 110, 45, 102, 111, 110, 105, 112, 97].length < [101, 110, 45, 102, 111, 110, 105, 112, 97, 45, 102, 111, 110, 105, 112, 97].length := by decide
-- "en-u-ca-true" -> "en-u-ca"  (`true` value dropped)
example : Locale.canonicalize [101, 110, 45, 117, 45, 99, 97, 45, 116, 114, 117, 101] = .ok [101, 110, 45, 117, 45, 99, 97] ∧
    [101, 110, 45, 117, 45, 99, 97].length < [101, 110, 45, 117, 45, 99, 97, 45, 116, 114, 117, 101].length := by decide
-- "en-u" -> "en"  (empty `-u` vanishes)
example : Locale.canonicalize [101, 110, 45, 117] = .ok [101, 110] ∧
    [101, 110].length < [101, 110, 45, 117].length := by decide
-- "en-u-ca-buddhist-ca-gregory" -> "en-u-ca-gregory"  (overwritten key)
example : Locale.canonicalize [101, 110, 45, 117, 45, 99, 97, 45, 98, 117, 100, 100, 104, 105, 115, 116, 45, 99, 97, 45, 103, 114, 101, 103, 111, 114, 121] = .ok [101, 110, 45, 117, 45, 99, 97, 45, 103, 114, 101, 103, 111, 114, 121] ∧
    [101, 110, 45, 117, 45, 99, 97, 45, 103, 114, 101, 103, 111, 114, 121].length < [101, 110, 45, 117, 45, 99, 97, 45, 98, 117, 100, 100, 104, 105, 115, 116, 45, 99, 97, 45, 103, 114, 101, 103, 111, 114, 121].length := by decide
-- "en--x-a" -> "en-x-a"  (empty subtag skipped by the extension loop)
example : Locale.canonicalize [101, 110, 45, 45, 120, 45, 97] = .ok [101, 110, 45, 120, 45, 97] ∧
    [101, 110, 45, 120, 45, 97].length < [101, 110, 45, 45, 120, 45, 97].length := by decide
-- "und" -> "und"  (`und` language, tight)
example : Locale.canonicalize [117, 110, 100] = .ok [117, 110, 100] ∧
    [117, 110, 100].length = [117, 110, 100].length := by decide
-- "UND_latn_us" -> "und-Latn-US"  (case and separators only, tight)
example : Locale.canonicalize [85, 78, 68, 95, 108, 97, 116, 110, 95, 117, 115] = .ok [117, 110, 100, 45, 76, 97, 116, 110, 45, 85, 83] ∧
    [117, 110, 100, 45, 76, 97, 116, 110, 45, 85, 83].length = [85, 78, 68, 95, 108, 97, 116, 110, 95, 117, 115].length := by decide
-- "en-Latn-US-t-hi-h0-hybrid-u-ca-buddhist-x-priv" -> "en-Latn-US-t-hi-h0-hybrid-u-ca-buddhist-x-priv"  (canonical input, tight)
example : Locale.canonicalize [101, 110, 45, 76, 97, 116, 110, 45, 85, 83, 45, 116, 45, 104, 105, 45, 104, 48, 45, 104, 121, 98, 114, 105, 100, 45, 117, 45, 99, 97, 45, 98, 117, 100, 100, 104, 105, 115, 116, 45, 120, 45, 112, 114, 105, 118] = .ok [101, 110, 45, 76, 97, 116, 110, 45, 85, 83, 45, 116, 45, 104, 105, 45, 104, 48, 45, 104, 121, 98, 114, 105, 100, 45, 117, 45, 99, 97, 45, 98, 117, 100, 100, 104, 105, 115, 116, 45, 120, 45, 112, 114, 105, 118] ∧
    [101, 110, 45, 76, 97, 116, 110, 45, 85, 83, 45, 116, 45, 104, 105, 45, 104, 48, 45, 104, 121, 98, 114, 105, 100, 45, 117, 45, 99, 97, 45, 98, 117, 100, 100, 104, 105, 115, 116, 45, 120, 45, 112, 114, 105, 118].length = [101, 110, 45, 76, 97, 116, 110, 45, 85, 83, 45, 116, 45, 104, 105, 45, 104, 48, 45, 104, 121, 98, 114, 105, 100, 45, 117, 45, 99, 97, 45, 98, 117, 100, 100, 104, 105, 115, 116, 45, 120, 45, 112, 114, 105, 118].length := by decide
-- "en-fonipa-fonipa" -> "en-fonipa"  (duplicated variant removed)
example : LangId.canonicalize [101, 110, 45, 102, 111, 110, 105, 112, 97, 45, 102, 111, 110, 105, 112, 97] = .ok [101, 110, 45, 102, 111, 110, 105, 112, 97] ∧
    [101, 110, 45, 102, 111, 110, 105, 112, 97].length < [101, 110, 45, 102, 111, 110, 105, 112, 97, 45, 102, 111, 110, 105, 112, 97].length := by decide
-- "DE_latn_at_1996" -> "de-Latn-AT-1996"  (tight)
example : LangId.canonicalize [68, 69, 95, 108, 97, 116, 110, 95, 97, 116, 95, 49, 57, 57, 54] = .ok [100, 101, 45, 76, 97, 116, 110, 45, 65, 84, 45, 49, 57, 57, 54] ∧
    [100, 101, 45, 76, 97, 116, 110, 45, 65, 84, 45, 49, 57, 57, 54].length = [68, 69, 95, 108, 97, 116, 110, 95, 97, 116, 95, 49, 57, 57, 54].length := by decide

/-- the hypotheses of the two theorems are satisfiable -/
example : ∃ x, Locale.fromBytes [101, 110, 45, 117, 45, 99, 97, 45, 116, 114, 117, 101] = .ok x ∧
    (Locale.display x).length < [101, 110, 45, 117, 45, 99, 97, 45, 116, 114, 117, 101].length :=
  ⟨{ id := { language := some [101, 110] }, ext := { unicode := { keywords := [([99, 97], [])] } } }, by decide⟩
example : ∃ x, LangId.fromBytes [101, 110, 45, 85, 83] = .ok x ∧
    (LangId.display x).length = [101, 110, 45, 85, 83].length :=
  ⟨{ language := some [101, 110], region := some [85, 83] }, by decide⟩

end UL.CanonLen
