/-
  Lemmas/RoundTrip.lean — C05, first half: the four subtag types and `LanguageIdentifier`.
  A stored (invariant-satisfying) value is re-read as itself from the subtags `Display` writes.
-/
import UnicLocale.Lemmas.SplitJoin
import UnicLocale.Lemmas.LiLoop
import UnicLocale.Spec.Inv

namespace UL.RT
open UL
open Props.C15

/-! ### unfolding the invariant -/

theorem okLanguage_some {b : Bytes} (h : okLanguage (some b) = true) :
    Spec.isLanguage b = true ∧ lower b = b ∧ b ≠ Spec.und := by
  simp only [okLanguage, Bool.and_eq_true, beq_iff_eq, bne_iff_ne, ne_eq] at h
  exact ⟨h.1.1, h.1.2, h.2⟩
theorem okScript_some {b : Bytes} (h : okScript (some b) = true) :
    Spec.isScript b = true ∧ title b = b := by
  simpa only [okScript, Bool.and_eq_true, beq_iff_eq] using h
theorem okRegion_some {b : Bytes} (h : okRegion (some b) = true) :
    Spec.isRegion b = true ∧ upper b = b := by
  simpa only [okRegion, Bool.and_eq_true, beq_iff_eq] using h
theorem okVariant_iff {b : Bytes} : okVariant b = true ↔ Spec.isVariant b = true ∧ lower b = b := by
  simp only [okVariant, Bool.and_eq_true, beq_iff_eq]

/-! ### subtags re-parse to themselves from their `as_str` text -/

theorem Language.roundtrip {l : Language} (h : okLanguage l = true) :
    Language.fromBytes (Language.asStr l) = .ok l := by
  cases l with
  | none => decide
  | some b =>
    obtain ⟨h1, h2, h3⟩ := okLanguage_some h
    have hne : (b == Spec.und) = false := by simpa using h3
    show Language.fromBytes b = _
    rw [language_exact, if_pos h1, Spec.canonLanguage, h2, hne]
    rfl

theorem Script.roundtrip {s : Bytes} (h : okScript (some s) = true) : Script.fromBytes s = .ok s := by
  obtain ⟨h1, h2⟩ := okScript_some h
  rw [script_exact, if_pos h1, h2]

theorem Region.roundtrip {r : Bytes} (h : okRegion (some r) = true) : Region.fromBytes r = .ok r := by
  obtain ⟨h1, h2⟩ := okRegion_some h
  rw [region_exact, if_pos h1, h2]

theorem Variant.roundtrip {v : Bytes} (h : okVariant v = true) : Variant.fromBytes v = .ok v := by
  obtain ⟨h1, h2⟩ := okVariant_iff.1 h
  rw [variant_exact, if_pos h1, h2]

/-! ### class disjointness (spec classifiers) -/

theorem Spec.isScript_of_isVariant {v : Bytes} (h : Spec.isVariant v = true) : Spec.isScript v = false := by
  cases hs : Spec.isScript v with
  | false => rfl
  | true =>
    exfalso
    obtain ⟨h4, ha⟩ := isScript_spec hs
    cases v with
    | nil => simp at h4
    | cons d r =>
      rw [isVariant_len4 h4] at h
      simp only [allAlpha, List.all_cons, Bool.and_eq_true] at ha
      simp only [Bool.and_eq_true] at h
      have h1 := ha.1
      have h2 := h.1
      unfold isAlpha isUpper isLower at h1
      unfold isDigit at h2
      simp only [Bool.or_eq_true, Bool.and_eq_true, decide_eq_true_eq] at h1 h2
      omega

theorem Spec.isRegion_of_isVariant {v : Bytes} (h : Spec.isVariant v = true) : Spec.isRegion v = false := by
  cases hs : Spec.isRegion v with
  | false => rfl
  | true =>
    have := isRegion_spec hs
    have := isVariant_spec h
    omega

theorem Spec.isScript_of_isRegion {v : Bytes} (h : Spec.isRegion v = true) : Spec.isScript v = false := by
  cases hs : Spec.isScript v with
  | false => rfl
  | true =>
    have := isRegion_spec h
    have := isScript_spec hs
    omega

theorem Spec.isTKey_length {k : Bytes} (h : Spec.isTKey k = true) : k.length = 2 := by
  unfold Spec.isTKey at h
  split at h
  · rfl
  · cases h

theorem Spec.isKey_length {k : Bytes} (h : Spec.isKey k = true) : k.length = 2 := by
  unfold Spec.isKey at h
  split at h
  · rfl
  · cases h

/-- a tkey (`alpha digit`) is not script-, region- or variant-shaped -/
theorem Spec.not_li_of_isTKey {k : Bytes} (h : Spec.isTKey k = true) :
    Spec.isScript k = false ∧ Spec.isRegion k = false ∧ Spec.isVariant k = false := by
  have hl := Spec.isTKey_length h
  refine ⟨?_, ?_, ?_⟩
  · cases hs : Spec.isScript k with
    | false => rfl
    | true => have := isScript_spec hs; omega
  · match k, h with
    | [a, b], h =>
      simp only [Spec.isTKey, Bool.and_eq_true] at h
      have hb : isAlpha b = false := by
        have h2 := h.2
        unfold isDigit at h2
        unfold isAlpha isUpper isLower
        simp only [Bool.and_eq_true, decide_eq_true_eq] at h2
        simp only [Bool.or_eq_false_iff, Bool.and_eq_false_iff, decide_eq_false_iff_not]
        omega
      simp [Spec.isRegion, Spec.rep, hb]
  · cases hs : Spec.isVariant k with
    | false => rfl
    | true => have := isVariant_spec hs; omega

/-! ### the stop condition of the language-identifier loop -/

/-- what follows is empty or starts with a subtag that is not script/region/variant-shaped -/
def liStop (rest : List Bytes) : Prop :=
  ∀ t r, rest = t :: r →
    Spec.isScript t = false ∧ Spec.isRegion t = false ∧ Spec.isVariant t = false

theorem liStop_nil : liStop [] := by intro t r h; cases h

theorem liStop_of_short {t : Bytes} (r : List Bytes) (h : t.length ≤ 1) : liStop (t :: r) := by
  intro t' r' e
  cases e
  exact ⟨Spec.isScript_short h, Spec.isRegion_short h, Spec.isVariant_short h⟩

theorem liStop_of_isTKey {t : Bytes} (r : List Bytes) (h : Spec.isTKey t = true) : liStop (t :: r) := by
  intro t' r' e
  cases e
  exact Spec.not_li_of_isTKey h

/-! ### the loop on printed subtags -/

theorem LangId.loop_variants (pos : Nat) (h1 : pos ≠ 1) (h2 : pos ≠ 2) (vs' rest : List Bytes)
    (s r : Option Bytes) (vs : List Bytes) (hv : ∀ v ∈ vs', okVariant v = true) (hr : liStop rest) :
    LangId.loop pos (vs' ++ rest) s r vs = .ok (s, r, vs ++ vs', rest) := by
  induction vs' generalizing vs with
  | nil =>
    cases rest with
    | nil => simp [LangId.loop]
    | cons t ts =>
      obtain ⟨_, _, h3⟩ := hr t ts rfl
      rw [List.nil_append, LangId.loop]
      simp [h1, h2, variant_exact, h3]
  | cons v vs' ih =>
    obtain ⟨hv1, hv2⟩ := okVariant_iff.1 (hv v (by simp))
    rw [List.cons_append, LangId.loop]
    simp only [beq_iff_eq, h1, h2, if_false, variant_exact, hv1, if_true, hv2]
    rw [ih _ (fun x hx => hv x (by simp [hx]))]
    simp

/-- in position 1 a subtag that is not script-shaped is treated as in position 2 -/
theorem LangId.loop_1_eq_2 {ts : List Bytes} (h : ∀ t r, ts = t :: r → Spec.isScript t = false)
    (s r : Option Bytes) (vs : List Bytes) : LangId.loop 1 ts s r vs = LangId.loop 2 ts s r vs := by
  cases ts with
  | nil => simp [LangId.loop]
  | cons t ts =>
    have hs := h t ts rfl
    rw [LangId.loop, LangId.loop]
    simp [script_exact, hs]

/-- in position 2 a subtag that is not region-shaped is treated as in position 3 -/
theorem LangId.loop_2_eq_3 {ts : List Bytes} (h : ∀ t r, ts = t :: r → Spec.isRegion t = false)
    (s r : Option Bytes) (vs : List Bytes) : LangId.loop 2 ts s r vs = LangId.loop 3 ts s r vs := by
  cases ts with
  | nil => simp [LangId.loop]
  | cons t ts =>
    have hs := h t ts rfl
    rw [LangId.loop, LangId.loop]
    simp only [region_exact, hs]
    simp

/-- the head of `variants ++ rest` is not script- nor region-shaped -/
theorem head_variants_rest {vs rest : List Bytes} (hv : ∀ v ∈ vs, okVariant v = true) (hr : liStop rest) :
    ∀ t r, vs ++ rest = t :: r → Spec.isScript t = false ∧ Spec.isRegion t = false := by
  intro t r e
  cases vs with
  | nil =>
    obtain ⟨a, b, _⟩ := hr t r e
    exact ⟨a, b⟩
  | cons v vs =>
    cases e
    obtain ⟨h1, _⟩ := okVariant_iff.1 (hv t (by simp))
    exact ⟨Spec.isScript_of_isVariant h1, Spec.isRegion_of_isVariant h1⟩

theorem LangId.loop_printed (s r : Option Bytes) (vs rest : List Bytes)
    (hs : okScript s = true) (hrg : okRegion r = true) (hv : ∀ v ∈ vs, okVariant v = true)
    (hr : liStop rest) :
    LangId.loop 1 (s.toList ++ r.toList ++ vs ++ rest) none none [] = .ok (s, r, vs, rest) := by
  have hhead := head_variants_rest hv hr
  have hV : ∀ s' r', LangId.loop 3 (vs ++ rest) s' r' [] = .ok (s', r', vs, rest) := by
    intro s' r'
    have := LangId.loop_variants 3 (by omega) (by omega) vs rest s' r' [] hv hr
    simpa using this
  have hR : ∀ s', LangId.loop 2 (r.toList ++ vs ++ rest) s' none [] = .ok (s', r, vs, rest) := by
    intro s'
    cases r with
    | none =>
      simp only [Option.toList_none, List.nil_append]
      rw [LangId.loop_2_eq_3 (fun t r e => (hhead t r e).2), hV]
    | some rg =>
      simp only [Option.toList_some, List.cons_append, List.nil_append]
      rw [LangId.loop, Region.roundtrip hrg]
      exact hV _ _
  cases s with
  | none =>
    simp only [Option.toList_none, List.nil_append]
    rw [LangId.loop_1_eq_2, hR]
    intro t r' e
    cases r with
    | none => exact (hhead t r' (by simpa using e)).1
    | some rg =>
      simp only [Option.toList_some, List.cons_append, List.nil_append, List.cons.injEq] at e
      rw [← e.1]
      exact Spec.isScript_of_isRegion (okRegion_some hrg).1
  | some sc =>
    simp only [Option.toList_some, List.cons_append, List.nil_append]
    rw [LangId.loop, Script.roundtrip hs]
    simp only [List.append_assoc] at hR ⊢
    exact hR _

theorem LangId.finishVariants_printed {vs : Option (List Bytes)} (h : okVariants vs = true) :
    LangId.finishVariants (vs.getD []) = vs := by
  cases vs with
  | none => rfl
  | some l =>
    simp only [okVariants, Bool.and_eq_true, Bool.not_eq_true'] at h
    obtain ⟨⟨h1, h2⟩, _⟩ := h
    simp only [Option.getD_some, LangId.finishVariants, h1, Bool.false_eq_true, if_false]
    rw [dedup_sort_of_strictSorted h2]

theorem LangId.inv_iff {x : LangId} : x.inv = true ↔
    okLanguage x.language = true ∧ okScript x.script = true ∧ okRegion x.region = true ∧
      okVariants x.variants = true := by
  simp only [LangId.inv, Bool.and_eq_true, and_assoc]

theorem okVariants_all {vs : Option (List Bytes)} (h : okVariants vs = true) :
    ∀ v ∈ vs.getD [], okVariant v = true := by
  cases vs with
  | none => intro v hv; cases hv
  | some l =>
    simp only [okVariants, Bool.and_eq_true, List.all_eq_true] at h
    exact h.2

/-- token-level round trip: the printed subtags, followed by anything that is not
    script/region/variant-shaped, are read back as the value and the rest is handed back -/
theorem LangId.parseIter_tokens {x : LangId} (h : x.inv = true) (rest : List Bytes) (hr : liStop rest)
    (allowExt : Bool) (ha : allowExt = true ∨ rest = []) :
    LangId.parseIter (LangId.tokens x ++ rest) allowExt = .ok (x, rest) := by
  obtain ⟨hl, hs, hrg, hv⟩ := LangId.inv_iff.1 h
  have hloop := LangId.loop_printed x.script x.region (x.variants.getD []) rest hs hrg (okVariants_all hv) hr
  have hguard : (!allowExt && !rest.isEmpty) = false := by
    rcases ha with rfl | rfl <;> simp
  unfold LangId.parseIter LangId.tokens
  simp only [List.cons_append, List.nil_append, List.append_assoc, Language.roundtrip hl, Res.map] at hloop ⊢
  rw [hloop]
  simp only [hguard, Bool.false_eq_true, if_false, LangId.finishVariants_printed hv]

/-- every printed subtag of a language identifier is alphanumeric -/
theorem LangId.tokens_alnum {x : LangId} (h : x.inv = true) : ∀ t ∈ LangId.tokens x, allAlnum t = true := by
  obtain ⟨hl, hs, hrg, hv⟩ := LangId.inv_iff.1 h
  have alpha_alnum : ∀ t : Bytes, allAlpha t = true → allAlnum t = true := by
    intro t ht
    simp only [allAlpha, allAlnum, List.all_eq_true] at ht ⊢
    intro b hb
    simp [isAlnum, ht b hb]
  intro t ht
  simp only [LangId.tokens, List.cons_append, List.nil_append, List.mem_cons, List.mem_append,
    Option.mem_toList] at ht
  rcases ht with rfl | ⟨ht | ht⟩ | ht
  · cases hx : x.language with
    | none => decide
    | some b =>
      rw [hx] at hl
      exact alpha_alnum _ (isLanguage_spec (okLanguage_some hl).1).2.2.2
  · rw [ht] at hs
    exact alpha_alnum _ (isScript_spec (okScript_some hs).1).2
  · rw [ht] at hrg
    exact (isRegion_spec (okRegion_some hrg).1).2.2
  · exact (isVariant_spec (okVariant_iff.1 (okVariants_all hv t ht)).1).2.2

theorem LangId.tokens_ne_nil (x : LangId) : LangId.tokens x ≠ [] := by
  simp [LangId.tokens]

/-- C05 for `LanguageIdentifier` -/
theorem LangId.roundtrip {x : LangId} (h : x.inv = true) : LangId.fromBytes (LangId.display x) = .ok x := by
  unfold LangId.fromBytes LangId.display
  rw [splitSep_join (LangId.tokens_ne_nil x)
    (fun s hs => sepFree_of_allAlnum (LangId.tokens_alnum h s hs))]
  have := LangId.parseIter_tokens h [] liStop_nil false (Or.inr rfl)
  rw [List.append_nil] at this
  rw [this]
  rfl

end UL.RT
