/-
  Lemmas/ExtChar.lean — layer-1 characterisation lemmas for the extension parsers
  (`UExt.loop`, `TExt.fieldLoop`/`TExt.parseIter`, `PExt.parseIter`): each accumulator loop of the
  model is shown equal to a functional form built from the pieces of the declarative reader
  (`takeWhile`/`dropWhile`, `Spec.readGroups`, `Spec.readLangIdPrefix`, `Spec.toMap`, `Spec.toSet`).
  These are the only inductions over the model's extension loops.
-/
import UnicLocale.Lemmas.LiLoop
import UnicLocale.Model.Locale

namespace UL.Ez

/-! ### the per-token parsers are exact -/

theorem trueBytes_eq_trueWord : trueBytes = Spec.trueWord := rfl

theorem isTypeShape_eq_isAttr (t : Bytes) : isTypeShape t = Spec.isAttr t := by
  unfold isTypeShape Spec.isAttr Spec.rep
  rw [any_not_eq_not_all]
  simp

theorem isTKeyShape_eq_isTKey (t : Bytes) : isTKeyShape t = Spec.isTKey t := by
  unfold isTKeyShape Spec.isTKey
  cases t with
  | nil => rfl
  | cons a t =>
    cases t with
    | nil => rfl
    | cons b t => cases t <;> rfl

theorem Spec.isAttr_spec {t : Bytes} (h : Spec.isAttr t = true) :
    3 ≤ t.length ∧ t.length ≤ 8 ∧ allAlnum t = true := by
  simp only [Spec.isAttr, Spec.rep, Bool.and_eq_true, decide_eq_true_eq] at h
  exact ⟨h.1.1, h.1.2, h.2⟩

theorem Spec.isKey_length {t : Bytes} (h : Spec.isKey t = true) : t.length = 2 := by
  unfold Spec.isKey at h
  split at h
  · rfl
  · cases h

theorem Spec.isTKey_length {t : Bytes} (h : Spec.isTKey t = true) : t.length = 2 := by
  unfold Spec.isTKey at h
  split at h
  · rfl
  · cases h

theorem Spec.isPrivate_spec {t : Bytes} (h : Spec.isPrivate t = true) :
    1 ≤ t.length ∧ t.length ≤ 8 ∧ allAlnum t = true := by
  simp only [Spec.isPrivate, Spec.rep, Bool.and_eq_true, decide_eq_true_eq] at h
  exact ⟨h.1.1, h.1.2, h.2⟩

/-- the value a type / tvalue token contributes: nothing for `true` -/
def typeVal (t : Bytes) : List Bytes := if lower t == trueBytes then [] else [lower t]

theorem parseType_exact (t : Bytes) :
    parseType t =
      if Spec.isAttr t then .ok (if lower t == trueBytes then none else some (lower t))
      else .err .invalidSubtag := by
  unfold parseType
  by_cases h : Spec.isAttr t = true
  · obtain ⟨h3, h8, ha⟩ := Spec.isAttr_spec h
    have ht := tinyOk_of_allAlnum h8 ha
    simp [h, ht, ha, h3, h8]
    split <;> rfl
  · simp only [Bool.not_eq_true] at h
    rw [h]
    simp only [Spec.isAttr, Spec.rep] at h
    unfold allAlnum
    by_cases ht : tinyOk 8 t = true
    · by_cases ha : t.all isAlnum = true
      · simp [ha] at h
        simp [ht, ha]
        omega
      · simp [ht, ha]
    · simp [ht]

theorem parseTValue_exact (t : Bytes) :
    parseTValue t =
      if Spec.isAttr t then .ok (if lower t == trueBytes then none else some (lower t))
      else .err .invalidSubtag := by
  unfold parseTValue
  by_cases h : Spec.isAttr t = true
  · obtain ⟨h3, h8, ha⟩ := Spec.isAttr_spec h
    have ht := tinyOk_of_allAlnum h8 ha
    have g : (decide (t.length < 3) || decide (t.length > 8) || !allAlnum t) = false := by
      simp [ha]; omega
    simp [h, ht, g]
    split <;> rfl
  · simp only [Bool.not_eq_true] at h
    rw [h]
    simp only [Spec.isAttr, Spec.rep] at h
    unfold allAlnum
    by_cases ht : tinyOk 8 t = true
    · by_cases ha : t.all isAlnum = true
      · simp [ha] at h
        simp [ht, ha]
        omega
      · simp [ht, ha]
    · simp [ht]

theorem parseAttribute_exact (t : Bytes) :
    parseAttribute t = if Spec.isAttr t then .ok (lower t) else .err .invalidSubtag := by
  unfold parseAttribute
  by_cases h : Spec.isAttr t = true
  · obtain ⟨h3, h8, ha⟩ := Spec.isAttr_spec h
    have ht := tinyOk_of_allAlnum h8 ha
    simp [h, ht, ha, h3, h8]
  · simp only [Bool.not_eq_true] at h
    rw [h]
    simp only [Spec.isAttr, Spec.rep] at h
    unfold allAlnum
    by_cases ht : tinyOk 8 t = true
    · by_cases ha : t.all isAlnum = true
      · simp [ha] at h
        simp [ht, ha]
        omega
      · simp [ht, ha]
    · simp [ht]

theorem parsePrivate_exact (t : Bytes) :
    parsePrivate t = if Spec.isPrivate t then .ok (lower t) else .err .invalidSubtag := by
  unfold parsePrivate
  by_cases h : Spec.isPrivate t = true
  · obtain ⟨h1, h8, ha⟩ := Spec.isPrivate_spec h
    have ht := tinyOk_of_allAlnum h8 ha
    have g : (t.isEmpty || decide (t.length > 8) || !allAlnum t) = false := by
      cases t with
      | nil => simp at h1
      | cons a l => simp [ha]; simp at h8; omega
    simp [h, ht, g]
  · simp only [Bool.not_eq_true] at h
    rw [h]
    simp only [Spec.isPrivate, Spec.rep] at h
    unfold allAlnum
    by_cases ht : tinyOk 8 t = true
    · by_cases ha : t.all isAlnum = true
      · simp [ha] at h
        cases t with
        | nil => simp [ht]
        | cons a l =>
          simp at h
          simp [ht, ha]
          omega
      · simp [ht, ha]
    · simp [ht]

theorem parseKey_exact {t : Bytes} (hl : t.length = 2) :
    parseKey t = if Spec.isKey t then .ok (lower t) else .err .invalidSubtag := by
  match t, hl with
  | [a, b], _ =>
    unfold parseKey Spec.isKey
    by_cases ha : isAlnum a = true
    · by_cases hb : isAlpha b = true
      · have ht : tinyOk 4 [a, b] = true := by
          apply tinyOk_of_allAlnum (by simp)
          simp only [allAlnum, List.all_cons, List.all_nil, ha, Bool.and_true, Bool.true_and]
          simp [isAlnum, hb]
        simp [ha, hb, ht]
      · simp [ha, hb]
    · simp [ha]

theorem parseTKey_of_isTKey {t : Bytes} (h : Spec.isTKey t = true) : parseTKey t = .ok (lower t) := by
  have hl := Spec.isTKey_length h
  match t, hl with
  | [a, b], _ =>
    simp only [Spec.isTKey, Bool.and_eq_true] at h
    have ht : tinyOk 4 [a, b] = true := by
      apply tinyOk_of_allAlnum (by simp)
      simp [allAlnum, isAlnum, h.1, h.2]
    simp [parseTKey, h.1, h.2, ht]

/-! ### `Spec.readGroups`: fuel and length facts -/

theorem Spec.readGroups_nil (isK isV : Bytes → Bool) (n : Nat) :
    Spec.readGroups isK isV n [] = ([], []) := by
  cases n <;> rfl

theorem Spec.readGroups_not_key {isK isV : Bytes → Bool} {t : Bytes} (h : isK t = false) (n : Nat)
    (r : List Bytes) : Spec.readGroups isK isV n (t :: r) = ([], t :: r) := by
  cases n with
  | zero => rfl
  | succ n => simp [Spec.readGroups, h]

theorem Spec.readGroups_key {isK isV : Bytes → Bool} {t : Bytes} (h : isK t = true) (n : Nat)
    (r : List Bytes) :
    Spec.readGroups isK isV (n + 1) (t :: r) =
      ((lower t, (r.takeWhile isV).map lower) :: (Spec.readGroups isK isV n (r.dropWhile isV)).1,
       (Spec.readGroups isK isV n (r.dropWhile isV)).2) := by
  simp [Spec.readGroups, h]

theorem length_dropWhile_le {α} (p : α → Bool) (l : List α) : (l.dropWhile p).length ≤ l.length := by
  induction l with
  | nil => simp
  | cons a l ih =>
    rw [List.dropWhile_cons]
    split
    · simp only [List.length_cons]; omega
    · exact Nat.le_refl _

theorem dropWhile_head_false {α} {p : α → Bool} {l : List α} {t : α} {r : List α}
    (h : l.dropWhile p = t :: r) : p t = false := by
  induction l with
  | nil => cases h
  | cons a l ih =>
    rw [List.dropWhile_cons] at h
    split at h
    · exact ih h
    · rename_i hp
      simp only [List.cons.injEq] at h
      rw [← h.1]
      simpa using hp

theorem Spec.readGroups_rest_length (isK isV : Bytes → Bool) (n : Nat) (l : List Bytes) :
    (Spec.readGroups isK isV n l).2.length ≤ l.length := by
  induction n generalizing l with
  | zero => exact Nat.le_refl _
  | succ n ih =>
    cases l with
    | nil => rw [Spec.readGroups_nil]; exact Nat.le_refl _
    | cons t r =>
      by_cases h : isK t = true
      · rw [Spec.readGroups_key h]
        have h1 := ih (r.dropWhile isV)
        have h2 := length_dropWhile_le isV r
        simp only [List.length_cons]
        omega
      · simp only [Bool.not_eq_true] at h
        rw [Spec.readGroups_not_key h]
        exact Nat.le_refl _

theorem Spec.readGroups_fuel (isK isV : Bytes → Bool) (n m : Nat) (l : List Bytes)
    (hn : l.length ≤ n) (hm : l.length ≤ m) :
    Spec.readGroups isK isV n l = Spec.readGroups isK isV m l := by
  induction n generalizing m l with
  | zero =>
    have : l = [] := List.eq_nil_of_length_eq_zero (by omega)
    subst this
    rw [Spec.readGroups_nil, Spec.readGroups_nil]
  | succ n ih =>
    cases l with
    | nil => rw [Spec.readGroups_nil, Spec.readGroups_nil]
    | cons t r =>
      by_cases h : isK t = true
      · cases m with
        | zero => simp at hm
        | succ m =>
          simp only [List.length_cons] at hn hm
          have h2 := length_dropWhile_le isV r
          rw [Spec.readGroups_key h, Spec.readGroups_key h,
            ih m (r.dropWhile isV) (by omega) (by omega)]
      · simp only [Bool.not_eq_true] at h
        rw [Spec.readGroups_not_key h, Spec.readGroups_not_key h]

/-! ### `UExt.loop` -/

/-- the values a run of type / tvalue tokens contributes (`true` vanishes) -/
def typeVals (vs : List Bytes) : List Bytes := (vs.map lower).filter (· != trueBytes)

theorem typeVals_cons (t : Bytes) (vs : List Bytes) :
    typeVals (t :: vs) = (if lower t == trueBytes then [] else [lower t]) ++ typeVals vs := by
  unfold typeVals
  rw [List.map_cons, List.filter_cons]
  by_cases h : lower t = trueBytes <;> simp [h]

/-- a type-shaped token after a key is appended to the current type list -/
theorem UExt.loop_types (ts : List Bytes) (u : UExt) (k : Bytes) (ct : List Bytes) :
    UExt.loop ts u (some k) ct =
      UExt.loop (ts.dropWhile Spec.isAttr) u (some k) (ct ++ typeVals (ts.takeWhile Spec.isAttr)) := by
  induction ts generalizing ct with
  | nil => simp [typeVals]
  | cons t ts ih =>
    by_cases h : Spec.isAttr t = true
    · have hl : (t.length == 2) = false := by
        have := (Spec.isAttr_spec h).1
        simp; omega
      rw [List.dropWhile_cons, List.takeWhile_cons, if_pos h, if_pos h, typeVals_cons]
      rw [UExt.loop]
      simp only [hl, Bool.false_eq_true, if_false, Option.isSome_some, Bool.true_and,
        isTypeShape_eq_isAttr, h, if_true, parseType_exact]
      by_cases htrue : lower t = trueBytes
      · simp [htrue, ih]
      · simp [htrue, ih]
    · simp [h, typeVals]

/-- attribute-shaped tokens before the first key are collected as attributes -/
theorem UExt.loop_attrs (ts : List Bytes) (u : UExt) :
    UExt.loop ts u none [] =
      UExt.loop (ts.dropWhile Spec.isAttr)
        { u with attributes := u.attributes ++ (ts.takeWhile Spec.isAttr).map lower } none [] := by
  induction ts generalizing u with
  | nil => simp
  | cons t ts ih =>
    by_cases h : Spec.isAttr t = true
    · have hl : (t.length == 2) = false := by
        have := (Spec.isAttr_spec h).1
        simp; omega
      rw [List.dropWhile_cons, List.takeWhile_cons, if_pos h, if_pos h]
      rw [UExt.loop]
      simp only [hl, Bool.false_eq_true, if_false, Option.isSome_none, Bool.false_and,
        isTypeShape_eq_isAttr, h, if_true, parseAttribute_exact]
      rw [ih]
      simp
    · simp [h]

/-- a token that is not type-shaped: a new key, an error, or the end of the list -/
theorem UExt.loop_stop {t : Bytes} (h : Spec.isAttr t = false) (r : List Bytes) (u : UExt)
    (ck : Option Bytes) (ct : List Bytes) :
    UExt.loop (t :: r) u ck ct =
      if t.length == 2 then
        (if Spec.isKey t then UExt.loop r (UExt.flush u ck ct) (some (lower t)) (if ck.isSome then [] else ct)
         else .err .invalidSubtag)
      else .ok (UExt.finish u ck ct, t :: r) := by
  rw [UExt.loop]
  by_cases hl : t.length = 2
  · simp only [hl, beq_self_eq_true, if_true, parseKey_exact hl]
    by_cases hk : Spec.isKey t = true
    · simp [hk]
    · simp [hk]
  · simp [hl, isTypeShape_eq_isAttr, h]

/-- one keyword group folded into the keyword map -/
def insGroup (m : AMap) (g : Bytes × List Bytes) : AMap :=
  AMap.insert g.1 (g.2.filter (· != trueBytes)) m

/-- how `UExt.loop` ends: a length-2 subtag that is not a key is an error, anything else is
    handed back -/
def uEnd (attrs : List Bytes) (kw : AMap) (rest : List Bytes) : Res (UExt × List Bytes) :=
  match rest with
  | t :: _ =>
    if t.length == 2 then .err .invalidSubtag
    else .ok ({ keywords := kw, attributes := dedupAdj (sortBytes attrs) }, rest)
  | [] => .ok ({ keywords := kw, attributes := dedupAdj (sortBytes attrs) }, [])

theorem UExt.loop_groups (n : Nat) (ts : List Bytes) (hn : ts.length ≤ n)
    (hhead : ∀ t r, ts = t :: r → Spec.isAttr t = false) (u : UExt) (k : Bytes) (ct : List Bytes) :
    UExt.loop ts u (some k) ct =
      uEnd u.attributes
        ((Spec.readGroups Spec.isKey Spec.isAttr n ts).1.foldl insGroup (AMap.insert k ct u.keywords))
        (Spec.readGroups Spec.isKey Spec.isAttr n ts).2 := by
  induction n generalizing ts u k ct with
  | zero =>
    have : ts = [] := List.eq_nil_of_length_eq_zero (by omega)
    subst this
    rfl
  | succ n ih =>
    cases ts with
    | nil => rfl
    | cons t r =>
      have hat := hhead t r rfl
      rw [UExt.loop_stop hat]
      by_cases hl : t.length = 2
      · by_cases hk : Spec.isKey t = true
        · simp only [hl, beq_self_eq_true, if_true, hk, Option.isSome_some]
          rw [UExt.loop_types, Spec.readGroups_key hk]
          simp only [List.length_cons] at hn
          have h2 := length_dropWhile_le Spec.isAttr r
          rw [ih (r.dropWhile Spec.isAttr) (by omega)]
          · simp [List.foldl_cons, insGroup, UExt.flush, typeVals]
          · intro t' r' he
            exact dropWhile_head_false he
        · simp only [Bool.not_eq_true] at hk
          rw [Spec.readGroups_not_key hk]
          simp [hl, hk, uEnd]
      · have hk : Spec.isKey t = false := by
          cases hk : Spec.isKey t with
          | false => rfl
          | true => exact absurd (Spec.isKey_length hk) hl
        rw [Spec.readGroups_not_key hk]
        simp [hl, uEnd, UExt.finish, UExt.flush]

/-- the functional form of `UExt.parseIter` -/
def uChar (ts : List Bytes) : Res (UExt × List Bytes) :=
  let r1 := ts.dropWhile Spec.isAttr
  let p := Spec.readGroups Spec.isKey Spec.isAttr r1.length r1
  uEnd ((ts.takeWhile Spec.isAttr).map lower) (p.1.foldl insGroup []) p.2

theorem UExt.parseIter_char (ts : List Bytes) : UExt.parseIter ts = uChar ts := by
  unfold UExt.parseIter uChar
  rw [UExt.loop_attrs]
  cases hr : ts.dropWhile Spec.isAttr with
  | nil => rfl
  | cons t r =>
    have hat := dropWhile_head_false hr
    rw [UExt.loop_stop hat]
    dsimp only
    by_cases hl : t.length = 2
    · by_cases hk : Spec.isKey t = true
      · simp only [hl, beq_self_eq_true, if_true, hk, Option.isSome_none, List.length_cons]
        rw [UExt.loop_types, Spec.readGroups_key hk]
        have h2 := length_dropWhile_le Spec.isAttr r
        rw [UExt.loop_groups r.length (r.dropWhile Spec.isAttr) h2
          (fun t' r' he => dropWhile_head_false he)]
        simp [List.foldl_cons, insGroup, UExt.flush, typeVals]
      · simp only [Bool.not_eq_true] at hk
        rw [Spec.readGroups_not_key hk]
        simp [hl, hk, uEnd]
    · have hk : Spec.isKey t = false := by
        cases hk : Spec.isKey t with
        | false => rfl
        | true => exact absurd (Spec.isKey_length hk) hl
      rw [Spec.readGroups_not_key hk]
      simp [hl, uEnd, UExt.finish, UExt.flush]

theorem foldl_insGroup_eq_toMap (gs : List (Bytes × List Bytes)) (m : AMap) :
    gs.foldl insGroup m =
      gs.foldl (fun m g => Spec.mapInsert g.1 (g.2.filter (· != Spec.trueWord)) m) m := by
  induction gs generalizing m with
  | nil => rfl
  | cons g gs ih =>
    rw [List.foldl_cons, List.foldl_cons, ih]
    simp only [insGroup, AMap.insert_eq_mapInsert, trueBytes_eq_trueWord]

theorem insGroup_toMap (gs : List (Bytes × List Bytes)) : gs.foldl insGroup [] = Spec.toMap gs :=
  foldl_insGroup_eq_toMap gs []

/-! ### `TExt.fieldLoop`, `TExt.parseIter` -/

/-- a tvalue-shaped token after a tkey is appended to the current value list -/
theorem TExt.fieldLoop_values (ts : List Bytes) (x : TExt) (k : Bytes) (cv : List Bytes) :
    TExt.fieldLoop ts x (some k) cv =
      TExt.fieldLoop (ts.dropWhile Spec.isAttr) x (some k) (cv ++ typeVals (ts.takeWhile Spec.isAttr)) := by
  induction ts generalizing cv with
  | nil => simp [typeVals]
  | cons t ts ih =>
    by_cases h : Spec.isAttr t = true
    · have h3 := (Spec.isAttr_spec h).1
      have hl : (t.length == 1) = false := by simp; omega
      have hk : Spec.isTKey t = false := by
        cases hk : Spec.isTKey t with
        | false => rfl
        | true => have := Spec.isTKey_length hk; omega
      rw [List.dropWhile_cons, List.takeWhile_cons, if_pos h, if_pos h, typeVals_cons]
      rw [TExt.fieldLoop]
      simp only [isTKeyShape_eq_isTKey, hk, hl, Bool.false_eq_true, if_false, Option.isSome_some,
        if_true, parseTValue_exact, h]
      by_cases htrue : lower t = trueBytes
      · simp [htrue, ih]
      · simp [htrue, ih]
    · simp [h, typeVals]

/-- after a tkey, a token that is not tvalue-shaped: a new tkey, a singleton (end of the list),
    or an error -/
theorem TExt.fieldLoop_stop_some {t : Bytes} (h : Spec.isAttr t = false) (r : List Bytes) (x : TExt)
    (k : Bytes) (cv : List Bytes) :
    TExt.fieldLoop (t :: r) x (some k) cv =
      if Spec.isTKey t then TExt.fieldLoop r (TExt.flush x (some k) cv) (some (lower t)) []
      else if t.length == 1 then .ok (TExt.flush x (some k) cv, t :: r)
      else .err .invalidSubtag := by
  rw [TExt.fieldLoop]
  by_cases hk : Spec.isTKey t = true
  · simp [isTKeyShape_eq_isTKey, hk, parseTKey_of_isTKey hk]
  · simp [isTKeyShape_eq_isTKey, hk, parseTValue_exact, h]

/-- before any tkey: a tkey starts the first field, anything else ends the list -/
theorem TExt.fieldLoop_stop_none (t : Bytes) (r : List Bytes) (x : TExt) :
    TExt.fieldLoop (t :: r) x none [] =
      if Spec.isTKey t then TExt.fieldLoop r x (some (lower t)) [] else .ok (x, t :: r) := by
  rw [TExt.fieldLoop]
  by_cases hk : Spec.isTKey t = true
  · simp [isTKeyShape_eq_isTKey, hk, parseTKey_of_isTKey hk, TExt.flush]
  · simp [isTKeyShape_eq_isTKey, hk, TExt.flush]

/-- how the field loop ends: once a tkey has been read (`seen`), the subtag that ends the list must
    be a singleton -/
def tEnd (tl : Option LangId) (tf : AMap) (seen : Bool) (rest : List Bytes) : Res (TExt × List Bytes) :=
  match rest with
  | t :: _ =>
    if seen && t.length != 1 then .err .invalidSubtag
    else .ok ({ tlang := tl, tfields := tf }, rest)
  | [] => .ok ({ tlang := tl, tfields := tf }, [])

theorem TExt.fieldLoop_groups (n : Nat) (ts : List Bytes) (hn : ts.length ≤ n)
    (hhead : ∀ t r, ts = t :: r → Spec.isAttr t = false) (x : TExt) (k : Bytes) (cv : List Bytes) :
    TExt.fieldLoop ts x (some k) cv =
      tEnd x.tlang
        ((Spec.readGroups Spec.isTKey Spec.isAttr n ts).1.foldl insGroup (AMap.insert k cv x.tfields))
        true (Spec.readGroups Spec.isTKey Spec.isAttr n ts).2 := by
  induction n generalizing ts x k cv with
  | zero =>
    have : ts = [] := List.eq_nil_of_length_eq_zero (by omega)
    subst this
    rfl
  | succ n ih =>
    cases ts with
    | nil => rfl
    | cons t r =>
      have hat := hhead t r rfl
      rw [TExt.fieldLoop_stop_some hat]
      by_cases hk : Spec.isTKey t = true
      · simp only [hk, if_true]
        rw [TExt.fieldLoop_values, Spec.readGroups_key hk]
        simp only [List.length_cons] at hn
        have h2 := length_dropWhile_le Spec.isAttr r
        rw [ih (r.dropWhile Spec.isAttr) (by omega) (fun t' r' he => dropWhile_head_false he)]
        simp [List.foldl_cons, insGroup, TExt.flush, typeVals]
      · simp only [Bool.not_eq_true] at hk
        rw [Spec.readGroups_not_key hk]
        by_cases hl : t.length = 1
        · simp [hk, hl, tEnd, TExt.flush]
        · simp [hk, hl, tEnd]

/-- the field loop from its initial state -/
def fChar (tl : Option LangId) (ts : List Bytes) : Res (TExt × List Bytes) :=
  let p := Spec.readGroups Spec.isTKey Spec.isAttr ts.length ts
  tEnd tl (p.1.foldl insGroup []) (!p.1.isEmpty) p.2

theorem TExt.fieldLoop_char (tl : Option LangId) (ts : List Bytes) :
    TExt.fieldLoop ts { tlang := tl } none [] = fChar tl ts := by
  unfold fChar
  cases ts with
  | nil => rfl
  | cons t r =>
    rw [TExt.fieldLoop_stop_none]
    dsimp only
    by_cases hk : Spec.isTKey t = true
    · simp only [hk, if_true, List.length_cons]
      rw [TExt.fieldLoop_values, Spec.readGroups_key hk]
      have h2 := length_dropWhile_le Spec.isAttr r
      rw [TExt.fieldLoop_groups r.length (r.dropWhile Spec.isAttr) h2
        (fun t' r' he => dropWhile_head_false he)]
      simp [List.foldl_cons, insGroup, typeVals]
    · simp only [Bool.not_eq_true] at hk
      rw [Spec.readGroups_not_key hk]
      simp [hk, tEnd]

theorem Spec.isLanguage_isLanguageSubtag {t : Bytes} (h : Spec.isLanguage t = true) :
    isLanguageSubtag t = true := by
  obtain ⟨h2, h8, _, ha⟩ := isLanguage_spec h
  unfold isLanguageSubtag
  rw [any_not_eq_not_all]
  unfold allAlpha at ha
  simp [ha, h2, h8]

/-- the first subtag is language-shaped for the code (2–8 letters) but not a language subtag:
    four letters -/
def alpha4Head (ts : List Bytes) : Bool :=
  match ts with
  | t :: _ => isLanguageSubtag t && !Spec.isLanguage t
  | [] => false

/-- the functional form of `TExt.parseIter` -/
def tChar (ts : List Bytes) : Res (TExt × List Bytes) :=
  if alpha4Head ts then .err .invalidLanguage
  else
    match Spec.readLangIdPrefix ts with
    | some (v, rest) => fChar (some (concreteLi v)) rest
    | none => fChar none ts

theorem Spec.readLangIdPrefix_head {t : Bytes} {ts : List Bytes} :
    (Spec.readLangIdPrefix (t :: ts)).isSome = Spec.isLanguage t := by
  unfold Spec.readLangIdPrefix Spec.readLangIdPrefixD
  by_cases h : Spec.isLanguage t = true
  · simp [h]
  · simp [h]

theorem TExt.parseIter_char (ts : List Bytes) : TExt.parseIter ts = tChar ts := by
  unfold TExt.parseIter tChar
  cases ts with
  | nil => rfl
  | cons t r =>
    dsimp only
    have hhead := Spec.readLangIdPrefix_head (t := t) (ts := r)
    by_cases hk : Spec.isTKey t = true
    · -- a tkey: no tlang
      have hl2 := Spec.isTKey_length hk
      have hnl : Spec.isLanguage t = false := by
        cases hl : Spec.isLanguage t with
        | false => rfl
        | true =>
          exfalso
          obtain ⟨_, _, _, ha⟩ := isLanguage_spec hl
          match t, hl2 with
          | [a, b], _ =>
            simp only [Spec.isTKey, Bool.and_eq_true] at hk
            simp only [allAlpha, List.all_cons, List.all_nil, Bool.and_true, Bool.and_eq_true] at ha
            have h1 := hk.2
            have h2 := ha.2
            simp only [isDigit, isAlpha, isUpper, isLower, Bool.and_eq_true, Bool.or_eq_true,
              decide_eq_true_eq] at h1 h2
            omega
      have hnls : isLanguageSubtag t = false := by
        unfold isLanguageSubtag
        rw [any_not_eq_not_all]
        match t, hl2 with
        | [a, b], _ =>
          simp only [Spec.isTKey, Bool.and_eq_true] at hk
          have h1 := hk.2
          have hb : isAlpha b = false := by
            simp only [isDigit, isAlpha, isUpper, isLower, Bool.and_eq_true,
              decide_eq_true_eq] at h1 ⊢
            simp only [Bool.or_eq_false_iff, Bool.and_eq_false_iff, decide_eq_false_iff_not]
            omega
          simp [hb]
      rw [hnl] at hhead
      cases hp : Spec.readLangIdPrefix (t :: r) with
      | some p => rw [hp] at hhead; cases hhead
      | none =>
        simp only [isTKeyShape_eq_isTKey, hk, if_true, alpha4Head, hnls, Bool.false_and,
          Bool.false_eq_true, if_false]
        exact TExt.fieldLoop_char none (t :: r)
    · simp only [Bool.not_eq_true] at hk
      by_cases hl : Spec.isLanguage t = true
      · have hls := Spec.isLanguage_isLanguageSubtag hl
        have h1 : (t.length == 1) = false := by
          have := (isLanguage_spec hl).1
          simp; omega
        simp only [isTKeyShape_eq_isTKey, hk, h1, hls, Bool.false_eq_true, if_false, if_true,
          alpha4Head, hl, Bool.not_true, Bool.and_false, LangId.parseIter_char]
        cases hp : Spec.readLangIdPrefix (t :: r) with
        | none => rw [hp, hl] at hhead; cases hhead
        | some p =>
          obtain ⟨v, rest⟩ := p
          simp only [Bool.false_and, Bool.false_eq_true, if_false]
          exact TExt.fieldLoop_char (some (concreteLi v)) rest
      · simp only [Bool.not_eq_true] at hl
        rw [hl] at hhead
        cases hp : Spec.readLangIdPrefix (t :: r) with
        | some p => rw [hp] at hhead; cases hhead
        | none =>
          have hf : fChar none (t :: r) = .ok ({}, t :: r) := by
            unfold fChar
            dsimp only
            rw [Spec.readGroups_not_key hk]
            by_cases hl1 : t.length = 1 <;> simp [tEnd]
          by_cases hls : isLanguageSubtag t = true
          · have h1 : (t.length == 1) = false := by
              unfold isLanguageSubtag at hls
              simp only [Bool.and_eq_true, Bool.or_eq_true, decide_eq_true_eq, beq_iff_eq] at hls
              simp; omega
            simp only [isTKeyShape_eq_isTKey, hk, h1, hls, Bool.false_eq_true, if_false, if_true,
              alpha4Head, hl, Bool.not_false, Bool.and_true, LangId.parseIter_char, hp]
          · simp only [Bool.not_eq_true] at hls
            simp only [isTKeyShape_eq_isTKey, hk, hls, Bool.false_eq_true, if_false,
              alpha4Head, Bool.false_and, hf]
            by_cases hl1 : t.length = 1 <;> simp [hl1]

/-! ### `PExt.parseIter` -/

theorem collectAll_private (ts : List Bytes) :
    collectAll parsePrivate ts =
      if ts.all Spec.isPrivate then .ok (ts.map lower) else .err .invalidSubtag := by
  induction ts with
  | nil => rfl
  | cons t ts ih =>
    rw [collectAll, parsePrivate_exact, ih]
    by_cases h : Spec.isPrivate t = true
    · by_cases h2 : ts.all Spec.isPrivate = true
      · simp [h, h2]
      · simp [h, h2]
    · simp [h]

theorem PExt.parseIter_char (ts : List Bytes) :
    PExt.parseIter ts =
      if ts.all Spec.isPrivate then .ok (sortBytes (ts.map lower)) else .err .invalidSubtag := by
  unfold PExt.parseIter
  rw [collectAll_private]
  split <;> rfl

/-! ### one step of the dispatch loop -/

theorem ExtMap.loop_nil (fuel : Nat) (m : ExtMap) (sU sT : Bool) :
    ExtMap.loop (fuel + 1) [] m sU sT = .ok m := by
  unfold ExtMap.loop
  rfl

theorem ExtMap.loop_empty (fuel : Nat) (r : List Bytes) (m : ExtMap) (sU sT : Bool) :
    ExtMap.loop (fuel + 1) ([] :: r) m sU sT = ExtMap.loop fuel r m sU sT := by
  rw [ExtMap.loop]
  simp

theorem ExtMap.loop_long (fuel : Nat) {t : Bytes} (h : 1 < t.length) (r : List Bytes) (m : ExtMap)
    (sU sT : Bool) : ExtMap.loop (fuel + 1) (t :: r) m sU sT = .err .invalidExtension := by
  unfold ExtMap.loop
  simp [h]

theorem ExtMap.loop_single (fuel : Nat) (s : Nat) (r : List Bytes) (m : ExtMap) (sU sT : Bool) :
    ExtMap.loop (fuel + 1) ([s] :: r) m sU sT =
      if toLower s == 117 then
        if sU then .err .invalidExtension
        else match uChar r with
          | .err e => .err e
          | .panic => .panic
          | .ok (u, rest) => ExtMap.loop fuel rest { m with unicode := u } true sT
      else if toLower s == 116 then
        if sT then .err .invalidExtension
        else match tChar r with
          | .err e => .err e
          | .panic => .panic
          | .ok (x, rest) => ExtMap.loop fuel rest { m with transform := x } sU true
      else if toLower s == 120 then
        if r.all Spec.isPrivate then .ok { m with priv := sortBytes (r.map lower) }
        else .err .invalidSubtag
      else .err .invalidExtension := by
  rw [ExtMap.loop]
  simp only [List.length_cons, List.length_nil, Nat.zero_add, Nat.lt_irrefl, if_false,
    ExtType.fromByte, UExt.parseIter_char, TExt.parseIter_char, PExt.parseIter_char]
  by_cases h1 : (toLower s == 117) = true
  · simp only [h1, if_true]
    rfl
  · by_cases h2 : (toLower s == 116) = true
    · simp only [h1, h2, if_true, Bool.false_eq_true, if_false]
      rfl
    · by_cases h3 : (toLower s == 120) = true
      · simp only [h1, h2, h3, if_true, Bool.false_eq_true, if_false]
        by_cases hp : r.all Spec.isPrivate = true
        · simp only [hp, if_true]
        · simp only [hp, Bool.false_eq_true, if_false]
      · simp only [h1, h2, h3, Bool.false_eq_true, if_false]
        by_cases h4 : isAlnum (toLower s) = true
        · simp only [h4, if_true]
        · simp only [h4, Bool.false_eq_true, if_false]

end UL.Ez
