/-
  Lemmas/Parts.lean — decomposition into parts and re-assembly (C17), the language-identifier
  round trip through its canonical text and injectivity of `display` on valid values (C12).

  Everything lives in `UL.Parts` so that nothing clashes with other helper files.
-/
import UnicLocale.Lemmas.LiLoop
import UnicLocale.Lemmas.Raw
import UnicLocale.Spec.Inv

namespace UL.Parts
open UL UL.Props.C15

/-! ### `splitSep` undoes `join` on separator-free tokens -/

/-- no byte of the token is `-` or `_` -/
def sepFree (t : Bytes) : Bool := t.all (fun b => !isSep b)

theorem sepFree_cons {b : Nat} {t : Bytes} : sepFree (b :: t) = true ↔ isSep b = false ∧ sepFree t = true := by
  simp [sepFree]

theorem splitSep_append_dash {t : Bytes} (h : sepFree t = true) (rest : Bytes) :
    splitSep (t ++ 45 :: rest) = t :: splitSep rest := by
  induction t with
  | nil => simp [splitSep, isSep]
  | cons b t ih =>
    obtain ⟨hb, ht⟩ := sepFree_cons.1 h
    rw [List.cons_append, splitSep, ih ht]
    simp [hb]

theorem splitSep_sepFree {t : Bytes} (h : sepFree t = true) : splitSep t = [t] := by
  induction t with
  | nil => rfl
  | cons b t ih =>
    obtain ⟨hb, ht⟩ := sepFree_cons.1 h
    rw [splitSep, ih ht]
    simp [hb]

theorem splitSep_append_dashAll (ts : List Bytes) (hts : ∀ u ∈ ts, sepFree u = true) :
    ∀ t : Bytes, sepFree t = true → splitSep (t ++ dashAll ts) = t :: ts := by
  induction ts with
  | nil =>
    intro t ht
    simp only [dashAll, List.append_nil]
    exact splitSep_sepFree ht
  | cons u us ih =>
    intro t ht
    simp only [dashAll]
    rw [splitSep_append_dash ht]
    rw [ih (fun v hv => hts v (List.mem_cons_of_mem _ hv)) u (hts u (List.mem_cons_self ..))]

/-- splitting the `-`-joined text of separator-free tokens returns the tokens -/
theorem splitSep_join {ts : List Bytes} (hne : ts ≠ []) (h : ∀ t ∈ ts, sepFree t = true) :
    splitSep (join ts) = ts := by
  cases ts with
  | nil => exact absurd rfl hne
  | cons t ts =>
    simp only [join]
    exact splitSep_append_dashAll ts (fun u hu => h u (List.mem_cons_of_mem _ hu)) t (h t (List.mem_cons_self ..))

/-- `join` is injective on non-empty lists of separator-free tokens -/
theorem join_injective {ts us : List Bytes} (hts : ts ≠ []) (hus : us ≠ [])
    (h1 : ∀ t ∈ ts, sepFree t = true) (h2 : ∀ t ∈ us, sepFree t = true) (h : join ts = join us) : ts = us := by
  rw [← splitSep_join hts h1, ← splitSep_join hus h2, h]

theorem not_isSep_of_isAlnum {b : Nat} (h : isAlnum b = true) : isSep b = false := by
  unfold isAlnum isAlpha isUpper isLower isDigit at h
  unfold isSep
  simp only [Bool.or_eq_true, Bool.and_eq_true, decide_eq_true_eq] at h
  simp only [Bool.or_eq_false_iff, beq_eq_false_iff_ne, ne_eq]
  omega

theorem sepFree_of_allAlnum {t : Bytes} (h : allAlnum t = true) : sepFree t = true := by
  unfold allAlnum at h
  unfold sepFree
  rw [List.all_eq_true] at h ⊢
  intro b hb
  rw [not_isSep_of_isAlnum (h b hb)]
  rfl

theorem allAlnum_of_allAlpha {t : Bytes} (h : allAlpha t = true) : allAlnum t = true := by
  unfold allAlpha at h
  unfold allAlnum
  rw [List.all_eq_true] at h ⊢
  intro b hb
  simp [isAlnum, h b hb]

/-! ### what the representation invariant says, subtag by subtag -/

theorem okLanguage_some {b : Bytes} (h : okLanguage (some b) = true) :
    Spec.isLanguage b = true ∧ lower b = b ∧ b ≠ Spec.und := by
  simp only [okLanguage, Bool.and_eq_true, beq_iff_eq, bne_iff_ne, ne_eq] at h
  exact ⟨h.1.1, h.1.2, h.2⟩

theorem okScript_some {b : Bytes} (h : okScript (some b) = true) : Spec.isScript b = true ∧ title b = b := by
  simpa [okScript] using h

theorem okRegion_some {b : Bytes} (h : okRegion (some b) = true) : Spec.isRegion b = true ∧ upper b = b := by
  simpa [okRegion] using h

theorem okVariant_iff {v : Bytes} : okVariant v = true ↔ Spec.isVariant v = true ∧ lower v = v := by
  simp [okVariant]

/-- every value the subtag constructors return satisfies the invariant -/
theorem okLanguage_of_fromBytes {v : Bytes} {l : Language} (h : Language.fromBytes v = .ok l) :
    okLanguage l = true := by
  obtain ⟨hs, rfl⟩ := language_ok_inv h
  unfold Spec.canonLanguage
  by_cases hu : (lower v == Spec.und) = true
  · rw [if_pos hu]; rfl
  · rw [if_neg hu]
    simp only [okLanguage, isLanguage_lower, hs, lower_lower, beq_self_eq_true, Bool.and_self, Bool.true_and]
    simpa using hu

theorem okScript_of_fromBytes {v s : Bytes} (h : Script.fromBytes v = .ok s) : okScript (some s) = true := by
  obtain ⟨hs, rfl⟩ := script_ok_inv h
  simp [okScript, hs]

theorem okRegion_of_fromBytes {v s : Bytes} (h : Region.fromBytes v = .ok s) : okRegion (some s) = true := by
  obtain ⟨hs, rfl⟩ := region_ok_inv h
  simp [okRegion, hs]

theorem okVariant_of_fromBytes {v s : Bytes} (h : Variant.fromBytes v = .ok s) : okVariant s = true := by
  obtain ⟨hs, rfl⟩ := variant_ok_inv h
  simp [okVariant, hs]

/-- and conversely: a subtag satisfying the invariant is returned by the constructor on its own text -/
theorem fromBytes_of_okLanguage {l : Language} (h : okLanguage l = true) :
    Language.fromBytes (Language.asStr l) = .ok l := by
  cases l with
  | none => decide
  | some b =>
    obtain ⟨h1, h2, h3⟩ := okLanguage_some h
    rw [language_exact]
    simp only [Language.asStr, Option.getD_some, h1, if_true, Spec.canonLanguage, h2]
    have : (b == Spec.und) = false := by simpa using h3
    rw [this]; rfl

theorem fromBytes_of_okScript {s : Bytes} (h : okScript (some s) = true) : Script.fromBytes s = .ok s := by
  obtain ⟨h1, h2⟩ := okScript_some h
  rw [script_exact, if_pos h1, h2]

theorem fromBytes_of_okRegion {s : Bytes} (h : okRegion (some s) = true) : Region.fromBytes s = .ok s := by
  obtain ⟨h1, h2⟩ := okRegion_some h
  rw [region_exact, if_pos h1, h2]

theorem fromBytes_of_okVariant {s : Bytes} (h : okVariant s = true) : Variant.fromBytes s = .ok s := by
  obtain ⟨h1, h2⟩ := okVariant_iff.1 h
  rw [variant_exact, if_pos h1, h2]

/-! ### the four productions do not overlap where the reader has to choose -/

theorem isScript_false_of_isRegion {t : Bytes} (h : Spec.isRegion t = true) : Spec.isScript t = false := by
  cases hs : Spec.isScript t with
  | false => rfl
  | true =>
    have := (isScript_spec hs).1
    have := (isRegion_spec h).2.1
    omega

theorem isRegion_false_of_isVariant {t : Bytes} (h : Spec.isVariant t = true) : Spec.isRegion t = false := by
  cases hs : Spec.isRegion t with
  | false => rfl
  | true =>
    have := (isVariant_spec h).1
    have := (isRegion_spec hs).2.1
    omega

theorem isScript_false_of_isVariant {t : Bytes} (h : Spec.isVariant t = true) : Spec.isScript t = false := by
  cases hs : Spec.isScript t with
  | false => rfl
  | true =>
    obtain ⟨h4, ha⟩ := isScript_spec hs
    cases t with
    | nil => simp at h4
    | cons d r =>
      rw [isVariant_len4 h4] at h
      simp only [Bool.and_eq_true] at h
      simp only [allAlpha, List.all_cons, Bool.and_eq_true] at ha
      have h1 := h.1
      have h2 := ha.1
      unfold isDigit at h1
      unfold isAlpha isUpper isLower at h2
      simp only [Bool.or_eq_true, Bool.and_eq_true, decide_eq_true_eq] at h1 h2
      omega

/-! ### tokens of valid parts -/

theorem asStr_isLanguage {l : Language} (h : okLanguage l = true) : Spec.isLanguage (Language.asStr l) = true := by
  cases l with
  | none => decide
  | some b => exact (okLanguage_some h).1

theorem asStr_canon {l : Language} (h : okLanguage l = true) : Spec.canonLanguage (Language.asStr l) = l := by
  cases l with
  | none => decide
  | some b =>
    obtain ⟨_, h2, h3⟩ := okLanguage_some h
    simp only [Language.asStr, Option.getD_some, Spec.canonLanguage, h2]
    have : (b == Spec.und) = false := by simpa using h3
    rw [this]; rfl

theorem sepFree_asStr {l : Language} (h : okLanguage l = true) : sepFree (Language.asStr l) = true :=
  sepFree_of_allAlnum (allAlnum_of_allAlpha (isLanguage_spec (asStr_isLanguage h)).2.2.2)

theorem sepFree_script {s : Option Bytes} (h : okScript s = true) : ∀ t ∈ s.toList, sepFree t = true := by
  intro t ht
  cases s with
  | none => simp at ht
  | some b =>
    simp only [Option.toList_some, List.mem_singleton] at ht
    subst ht
    exact sepFree_of_allAlnum (allAlnum_of_allAlpha (isScript_spec (okScript_some h).1).2)

theorem sepFree_region {r : Option Bytes} (h : okRegion r = true) : ∀ t ∈ r.toList, sepFree t = true := by
  intro t ht
  cases r with
  | none => simp at ht
  | some b =>
    simp only [Option.toList_some, List.mem_singleton] at ht
    subst ht
    exact sepFree_of_allAlnum (isRegion_spec (okRegion_some h).1).2.2

theorem sepFree_variants {vs : List Bytes} (h : vs.all okVariant = true) : ∀ t ∈ vs, sepFree t = true := by
  intro t ht
  rw [List.all_eq_true] at h
  exact sepFree_of_allAlnum (isVariant_spec (okVariant_iff.1 (h t ht)).1).2.2

/-- the token list `language script? region? variant*` built from parts -/
def partsTokens (l : Language) (s r : Option Bytes) (vs : List Bytes) : List Bytes :=
  [Language.asStr l] ++ s.toList ++ r.toList ++ vs

theorem partsTokens_eq (l : Language) (s r : Option Bytes) (vs : List Bytes) :
    partsTokens l s r vs = Language.asStr l :: (s.toList ++ (r.toList ++ vs)) := by
  simp [partsTokens]

theorem sepFree_partsTokens {l : Language} {s r : Option Bytes} {vs : List Bytes}
    (hl : okLanguage l = true) (hs : okScript s = true) (hr : okRegion r = true)
    (hv : vs.all okVariant = true) : ∀ t ∈ partsTokens l s r vs, sepFree t = true := by
  intro t ht
  rw [partsTokens_eq] at ht
  simp only [List.mem_cons, List.mem_append] at ht
  rcases ht with rfl | ht | ht | ht
  · exact sepFree_asStr hl
  · exact sepFree_script hs t ht
  · exact sepFree_region hr t ht
  · exact sepFree_variants hv t ht

/-! ### the declarative reader on the tokens of valid parts -/

theorem takeWhile_all {α} {p : α → Bool} {l : List α} (h : l.all p = true) : l.takeWhile p = l := by
  induction l with
  | nil => rfl
  | cons a l ih =>
    simp only [List.all_cons, Bool.and_eq_true] at h
    simp [h.1, ih h.2]

theorem dropWhile_all {α} {p : α → Bool} {l : List α} (h : l.all p = true) : l.dropWhile p = [] := by
  induction l with
  | nil => rfl
  | cons a l ih =>
    simp only [List.all_cons, Bool.and_eq_true] at h
    simp [h.1, ih h.2]

theorem all_isVariant {vs : List Bytes} (h : vs.all okVariant = true) : vs.all Spec.isVariant = true := by
  rw [List.all_eq_true] at h ⊢
  exact fun t ht => (okVariant_iff.1 (h t ht)).1

theorem map_lower_variants {vs : List Bytes} (h : vs.all okVariant = true) : vs.map lower = vs := by
  rw [List.all_eq_true] at h
  conv => rhs; rw [← List.map_id vs]
  exact List.map_congr_left (fun t ht => (okVariant_iff.1 (h t ht)).2)

theorem takeOpt_region {r : Option Bytes} {vs : List Bytes} (hr : okRegion r = true)
    (hv : vs.all okVariant = true) : Spec.takeOpt Spec.isRegion (r.toList ++ vs) = (r, vs) := by
  cases r with
  | some c => simp [Spec.takeOpt, (okRegion_some hr).1]
  | none =>
    cases vs with
    | nil => rfl
    | cons v vs' =>
      simp only [List.all_cons, Bool.and_eq_true] at hv
      simp [Spec.takeOpt, isRegion_false_of_isVariant (okVariant_iff.1 hv.1).1]

theorem takeOpt_script {s r : Option Bytes} {vs : List Bytes} (hs : okScript s = true) (hr : okRegion r = true)
    (hv : vs.all okVariant = true) :
    Spec.takeOpt Spec.isScript (s.toList ++ (r.toList ++ vs)) = (s, r.toList ++ vs) := by
  cases s with
  | some c => simp [Spec.takeOpt, (okScript_some hs).1]
  | none =>
    cases r with
    | some c => simp [Spec.takeOpt, isScript_false_of_isRegion (okRegion_some hr).1]
    | none =>
      cases vs with
      | nil => rfl
      | cons v vs' =>
        simp only [List.all_cons, Bool.and_eq_true] at hv
        simp [Spec.takeOpt, isScript_false_of_isVariant (okVariant_iff.1 hv.1).1]

theorem map_title_script {s : Option Bytes} (hs : okScript s = true) : s.map title = s := by
  cases s with
  | none => rfl
  | some c => simp [(okScript_some hs).2]

theorem map_upper_region {r : Option Bytes} (hr : okRegion r = true) : r.map upper = r := by
  cases r with
  | none => rfl
  | some c => simp [(okRegion_some hr).2]

/-- the spec reader consumes the tokens of valid parts entirely and returns the parts, the variants
    as a set -/
theorem readLangIdPrefix_parts {l : Language} {s r : Option Bytes} {vs : List Bytes}
    (hl : okLanguage l = true) (hs : okScript s = true) (hr : okRegion r = true)
    (hv : vs.all okVariant = true) :
    Spec.readLangIdPrefix (partsTokens l s r vs) =
      some ({ language := l, script := s, region := r, variants := Spec.toSet vs }, []) := by
  rw [partsTokens_eq]
  simp only [Spec.readLangIdPrefix, Spec.readLangIdPrefixD, asStr_isLanguage hl, Bool.not_true,
    Bool.false_eq_true, if_false, takeOpt_script hs hr hv, takeOpt_region hr hv,
    takeWhile_all (all_isVariant hv), dropWhile_all (all_isVariant hv), map_lower_variants hv,
    asStr_canon hl, map_title_script hs, map_upper_region hr, Option.map_some]

/-- `from_parts` is `concreteLi` of the parts with the variants as a set -/
theorem concreteLi_parts (l : Language) (s r : Option Bytes) (vs : List Bytes) :
    concreteLi { language := l, script := s, region := r, variants := Spec.toSet vs } =
      LangId.fromParts l s r vs := by
  simp only [concreteLi, LangId.fromParts, LangId.finishVariants_eq]

/-- C17: `from_parts` accepts variants in any order with duplicates and equals parsing the joined
    string -/
theorem fromBytes_join_parts {l : Language} {s r : Option Bytes} {vs : List Bytes}
    (hl : okLanguage l = true) (hs : okScript s = true) (hr : okRegion r = true)
    (hv : vs.all okVariant = true) :
    LangId.fromBytes (join (partsTokens l s r vs)) = .ok (LangId.fromParts l s r vs) := by
  unfold LangId.fromBytes
  rw [splitSep_join (by simp [partsTokens]) (sepFree_partsTokens hl hs hr hv)]
  have hp := readLangIdPrefix_parts hl hs hr hv
  rw [partsTokens_eq] at hp ⊢
  rw [LangId.parseIter_char, hp]
  simp only [List.isEmpty_nil, Bool.not_true, Bool.and_false, Bool.false_eq_true, if_false, Res.map,
    concreteLi_parts]

/-! ### `from_parts ∘ into_parts` -/

theorem finishVariants_getD {v : Option (List Bytes)}
    (h : ∀ l, v = some l → l ≠ [] ∧ strictSorted l = true) : LangId.finishVariants (v.getD []) = v := by
  cases v with
  | none => rfl
  | some l =>
    obtain ⟨hne, hs⟩ := h l rfl
    cases l with
    | nil => exact absurd rfl hne
    | cons a t =>
      simp only [Option.getD_some, LangId.finishVariants, List.isEmpty_cons, Bool.false_eq_true, if_false]
      rw [dedup_sort_of_strictSorted hs]

/-- the result of `finishVariants` is never `Some([])` and always strictly increasing -/
theorem finishVariants_canonical (vs l : List Bytes) (h : LangId.finishVariants vs = some l) :
    l ≠ [] ∧ strictSorted l = true := by
  unfold LangId.finishVariants at h
  cases vs with
  | nil => simp at h
  | cons a t =>
    simp only [List.isEmpty_cons, Bool.false_eq_true, if_false, Option.some.injEq] at h
    subst h
    refine ⟨?_, strictSorted_dedup_sort _⟩
    intro hnil
    have : a ∈ dedupAdj (sortBytes (a :: t)) := mem_dedup_sort.2 (List.mem_cons_self ..)
    rw [hnil] at this
    cases this

/-- exactly the values whose variant field is canonical survive `into_parts` / `from_parts` -/
theorem fromParts_intoParts_iff (x : LangId) :
    (LangId.fromParts x.intoParts.1 x.intoParts.2.1 x.intoParts.2.2.1 x.intoParts.2.2.2 = x) ↔
      (∀ l, x.variants = some l → l ≠ [] ∧ strictSorted l = true) := by
  obtain ⟨xl, xs, xr, xv⟩ := x
  simp only [LangId.fromParts, LangId.intoParts, LangId.mk.injEq, true_and]
  constructor
  · intro h l hl
    rw [hl] at h
    exact finishVariants_canonical _ _ h
  · exact finishVariants_getD

theorem inv_variants {x : LangId} (h : x.inv = true) :
    ∀ l, x.variants = some l → l ≠ [] ∧ strictSorted l = true := by
  intro l hl
  simp only [LangId.inv, Bool.and_eq_true, okVariants, hl] at h
  obtain ⟨_, h⟩ := h
  simp only [Bool.not_eq_true', List.isEmpty_eq_false_iff] at h
  exact ⟨h.1.1, h.1.2⟩

theorem inv_variants_all {x : LangId} (h : x.inv = true) : (x.variants.getD []).all okVariant = true := by
  simp only [LangId.inv, Bool.and_eq_true, okVariants] at h
  obtain ⟨_, h⟩ := h
  cases hv : x.variants with
  | none => rfl
  | some l =>
    rw [hv] at h
    simp only [Bool.and_eq_true] at h
    exact h.2

theorem inv_fields {x : LangId} (h : x.inv = true) :
    okLanguage x.language = true ∧ okScript x.script = true ∧ okRegion x.region = true := by
  simp only [LangId.inv, Bool.and_eq_true] at h
  exact ⟨h.1.1.1, h.1.1.2, h.1.2⟩

theorem fromParts_intoParts {x : LangId} (h : x.inv = true) :
    LangId.fromParts x.intoParts.1 x.intoParts.2.1 x.intoParts.2.2.1 x.intoParts.2.2.2 = x :=
  (fromParts_intoParts_iff x).2 (inv_variants h)

/-! ### the language-identifier round trip and injectivity of `display` -/

theorem tokens_eq_partsTokens (x : LangId) :
    LangId.tokens x = partsTokens x.language x.script x.region (x.variants.getD []) := rfl

/-- C05 for `LanguageIdentifier`: the canonical text of a valid value parses back to it -/
theorem langid_roundtrip {x : LangId} (h : x.inv = true) : LangId.fromBytes (LangId.display x) = .ok x := by
  obtain ⟨hl, hs, hr⟩ := inv_fields h
  unfold LangId.display
  rw [tokens_eq_partsTokens, fromBytes_join_parts hl hs hr (inv_variants_all h)]
  exact congrArg Res.ok (fromParts_intoParts h)

/-- a printer with a left inverse on the valid values is injective there -/
theorem eq_iff_display_eq_of_roundtrip {α β : Type} (inv : α → Prop) (display : α → β) (parse : β → Res α)
    (hrt : ∀ x, inv x → parse (display x) = .ok x) (x y : α) (hx : inv x) (hy : inv y) :
    x = y ↔ display x = display y := by
  constructor
  · exact congrArg display
  · intro h
    have h1 := hrt x hx
    rw [h, hrt y hy] at h1
    exact (Res.ok.inj h1).symm

theorem langid_display_injective {x y : LangId} (hx : x.inv = true) (hy : y.inv = true)
    (h : LangId.display x = LangId.display y) : x = y :=
  (eq_iff_display_eq_of_roundtrip (fun x => LangId.inv x = true) LangId.display LangId.fromBytes
    (fun _ => langid_roundtrip) x y hx hy).2 h

end UL.Parts
