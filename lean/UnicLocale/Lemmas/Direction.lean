/-
  Lemmas/Direction.lean — case analysis of `LangId.direction` (`character_direction`,
  unic-langid-impl/src/lib.rs:418-448): which inputs reach which arm.
-/
import UnicLocale.Model.Likely
import UnicLocale.Spec.Likely

namespace UL

/-- the identifier's script is in one of the three script lists of the layout -/
def LangId.scriptListed (L : Layout) (x : LangId) : Bool :=
  match x.script with
  | some sc => L.ltr.contains (pack sc) || L.rtl.contains (pack sc) || L.ttb.contains (pack sc)
  | none => false

/-- the identifier's language is in the RTL-language list of the layout -/
def LangId.langRtl (L : Layout) (x : LangId) : Bool :=
  match x.language with
  | some lb => L.rtlLangs.contains (pack lb)
  | none => false

/-- the language arm of `character_direction` (reached only when no listed script decides) -/
def LangId.byLang (likely : Bool) (T : Tables) (L : Layout) (x : LangId) : Res LangId.Dir :=
  match x.language with
  | some lb =>
    if L.rtlLangs.contains (pack lb) then
      if likely then
        match Likely.maximize T x.language none x.region with
        | .err e => .err e
        | .panic => .panic
        | .ok (some (_, some sc, _)) =>
          if L.ltr.contains (pack sc) then .ok .ltr else .ok .rtl
        | .ok _ => .ok .rtl
      else .ok .rtl
    else .ok .ltr
  | none => .ok .ltr

theorem LangId.direction_eq (likely : Bool) (T : Tables) (L : Layout) (x : LangId) :
    LangId.direction likely T L x =
      match x.script with
      | some sc =>
        if L.ltr.contains (pack sc) then .ok .ltr
        else if L.rtl.contains (pack sc) then .ok .rtl
        else if L.ttb.contains (pack sc) then .ok .ttb
        else LangId.byLang likely T L x
      | none => LangId.byLang likely T L x := rfl

theorem LangId.direction_script_ltr (likely : Bool) (T : Tables) (L : Layout) (x : LangId) (sc : Bytes)
    (hs : x.script = some sc) (h : L.ltr.contains (pack sc) = true) :
    LangId.direction likely T L x = .ok .ltr := by
  rw [LangId.direction_eq, hs]; simp only [h, if_true]

theorem LangId.direction_script_rtl (likely : Bool) (T : Tables) (L : Layout) (x : LangId) (sc : Bytes)
    (hs : x.script = some sc) (h0 : L.ltr.contains (pack sc) = false) (h : L.rtl.contains (pack sc) = true) :
    LangId.direction likely T L x = .ok .rtl := by
  rw [LangId.direction_eq, hs]; simp only [h0, h, if_true, Bool.false_eq_true, if_false]

theorem LangId.direction_script_ttb (likely : Bool) (T : Tables) (L : Layout) (x : LangId) (sc : Bytes)
    (hs : x.script = some sc) (h0 : L.ltr.contains (pack sc) = false) (h1 : L.rtl.contains (pack sc) = false)
    (h : L.ttb.contains (pack sc) = true) :
    LangId.direction likely T L x = .ok .ttb := by
  rw [LangId.direction_eq, hs]; simp only [h0, h1, h, if_true, Bool.false_eq_true, if_false]

/-- no listed script: the language arm decides -/
theorem LangId.direction_unlisted (likely : Bool) (T : Tables) (L : Layout) (x : LangId)
    (h : x.scriptListed L = false) : LangId.direction likely T L x = LangId.byLang likely T L x := by
  rw [LangId.direction_eq]
  unfold LangId.scriptListed at h
  cases hs : x.script with
  | none => rfl
  | some sc =>
    rw [hs] at h
    simp only [Bool.or_eq_false_iff] at h
    simp only [h.1.1, h.1.2, h.2, Bool.false_eq_true, if_false]

theorem LangId.byLang_not_rtl (likely : Bool) (T : Tables) (L : Layout) (x : LangId)
    (h : x.langRtl L = false) : LangId.byLang likely T L x = .ok .ltr := by
  unfold LangId.byLang
  unfold LangId.langRtl at h
  cases hl : x.language with
  | none => rfl
  | some lb =>
    rw [hl] at h
    simp only [h, Bool.false_eq_true, if_false]

theorem LangId.byLang_false (T : Tables) (L : Layout) (x : LangId) :
    LangId.byLang false T L x = if x.langRtl L then .ok .rtl else .ok .ltr := by
  unfold LangId.byLang LangId.langRtl
  cases x.language with
  | none => rfl
  | some lb => simp only [Bool.false_eq_true, if_false]

/-- a listed script decides, whatever the flag -/
theorem LangId.direction_listed_flag (T : Tables) (L : Layout) (x : LangId)
    (h : x.scriptListed L = true) : LangId.direction false T L x = LangId.direction true T L x := by
  rw [LangId.direction_eq, LangId.direction_eq]
  unfold LangId.scriptListed at h
  cases hs : x.script with
  | none => rw [hs] at h; cases h
  | some sc =>
    rw [hs] at h
    simp only
    cases h1 : L.ltr.contains (pack sc) <;> cases h2 : L.rtl.contains (pack sc) <;>
      cases h3 : L.ttb.contains (pack sc) <;>
      simp only [h1, h2, h3, Bool.or_false, Bool.or_true, Bool.false_eq_true, if_true, if_false] at h ⊢

/-- the language arm against the reference, as soon as the model's `maximize` is the dictionary
    `maximize` for the one query the arm makes -/
theorem LangId.byLang_eq_spec (likely : Bool) (T : Tables) (L : Layout) (x : LangId) (find : Spec.Find)
    (hmax : Likely.maximize T x.language none x.region = .ok (Spec.maximize find x.language none x.region)) :
    LangId.byLang likely T L x =
      .ok (if x.language.isSome && L.rtlLangs.contains (Spec.packOpt x.language) then
             if likely then
               match Spec.maximize find x.language none x.region with
               | some (_, some sc, _) => if L.ltr.contains (pack sc) then .ltr else .rtl
               | _ => .rtl
             else .rtl
           else .ltr) := by
  unfold LangId.byLang
  rw [hmax]
  cases hl : x.language with
  | none => simp
  | some lb =>
    simp only [Option.isSome_some, Bool.true_and, Spec.packOpt]
    cases h4 : L.rtlLangs.contains (pack lb) with
    | false => simp
    | true =>
      cases likely with
      | false => simp
      | true =>
        simp only [if_true]
        rcases Spec.maximize find (some lb) none x.region with _ | ⟨a, _ | sc', c⟩
        · simp
        · simp
        · exact (apply_ite Res.ok _ _ _).symm

/-- the reference `Spec.direction` is what the model computes, under the same proviso -/
theorem LangId.direction_eq_spec (likely : Bool) (T : Tables) (L : Layout) (x : LangId) (find : Spec.Find)
    (hmax : Likely.maximize T x.language none x.region = .ok (Spec.maximize find x.language none x.region)) :
    LangId.direction likely T L x = .ok (Spec.direction likely find L x.language x.script x.region) := by
  rw [LangId.direction_eq, LangId.byLang_eq_spec likely T L x find hmax]
  unfold Spec.direction
  cases hs : x.script with
  | none =>
    simp only [Option.isSome_none, Bool.false_and, Bool.false_eq_true, if_false]
    rfl
  | some sc =>
    simp only [Option.isSome_some, Bool.true_and, Spec.packOpt]
    cases h1 : L.ltr.contains (pack sc) <;> cases h2 : L.rtl.contains (pack sc) <;>
      cases h3 : L.ttb.contains (pack sc) <;>
      simp only [Bool.false_eq_true, if_true, if_false] <;> rfl

end UL
