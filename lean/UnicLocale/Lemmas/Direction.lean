/-
  Lemmas/Direction.lean — case analysis of `LangId.direction` (`character_direction`,
  unic-langid-impl/src/lib.rs:418-448): which inputs reach which arm.
-/
import UnicLocale.Model.Likely
import UnicLocale.Spec.Likely
import UnicLocale.Gen.Tables
import UnicLocale.Gen.Cldr

namespace UL.Dir

/-- the identifier's script is in one of the three script lists of the layout -/
def _root_.UL.LangId.scriptListed (L : Layout) (x : LangId) : Bool :=
  match x.script with
  | some sc => L.ltr.contains (pack sc) || L.rtl.contains (pack sc) || L.ttb.contains (pack sc)
  | none => false

/-- the identifier's language is in the RTL-language list of the layout -/
def _root_.UL.LangId.langRtl (L : Layout) (x : LangId) : Bool :=
  match x.language with
  | some lb => L.rtlLangs.contains (pack lb)
  | none => false

/-- the language arm of `character_direction` (reached only when no listed script decides) -/
def _root_.UL.LangId.byLang (likely : Bool) (T : Tables) (L : Layout) (x : LangId) : Res LangId.Dir :=
  match x.language with
  | some lb =>
    if L.rtlLangs.contains (pack lb) then
      if likely then
        match Likely.maximize T x.language none x.region with
        | .err e => .err e
        | .panic => .panic
        | .ok (some (_, some sc, _)) =>
          if L.ltr.contains (pack sc) then .ok .ltr else .ok .rtl
        | .ok _ => .ok .rtl
      else .ok .rtl
    else .ok .ltr
  | none => .ok .ltr

theorem LangId.direction_eq (likely : Bool) (T : Tables) (L : Layout) (x : LangId) :
    LangId.direction likely T L x =
      match x.script with
      | some sc =>
        if L.ltr.contains (pack sc) then .ok .ltr
        else if L.rtl.contains (pack sc) then .ok .rtl
        else if L.ttb.contains (pack sc) then .ok .ttb
        else LangId.byLang likely T L x
      | none => LangId.byLang likely T L x := rfl

theorem LangId.direction_script_ltr (likely : Bool) (T : Tables) (L : Layout) (x : LangId) (sc : Bytes)
    (hs : x.script = some sc) (h : L.ltr.contains (pack sc) = true) :
    LangId.direction likely T L x = .ok .ltr := by
  rw [LangId.direction_eq, hs]; simp only [h, if_true]

theorem LangId.direction_script_rtl (likely : Bool) (T : Tables) (L : Layout) (x : LangId) (sc : Bytes)
    (hs : x.script = some sc) (h0 : L.ltr.contains (pack sc) = false) (h : L.rtl.contains (pack sc) = true) :
    LangId.direction likely T L x = .ok .rtl := by
  rw [LangId.direction_eq, hs]; simp only [h0, h, if_true, Bool.false_eq_true, if_false]

theorem LangId.direction_script_ttb (likely : Bool) (T : Tables) (L : Layout) (x : LangId) (sc : Bytes)
    (hs : x.script = some sc) (h0 : L.ltr.contains (pack sc) = false) (h1 : L.rtl.contains (pack sc) = false)
    (h : L.ttb.contains (pack sc) = true) :
    LangId.direction likely T L x = .ok .ttb := by
  rw [LangId.direction_eq, hs]; simp only [h0, h1, h, if_true, Bool.false_eq_true, if_false]

/-- no listed script: the language arm decides -/
theorem LangId.direction_unlisted (likely : Bool) (T : Tables) (L : Layout) (x : LangId)
    (h : x.scriptListed L = false) : LangId.direction likely T L x = LangId.byLang likely T L x := by
  rw [LangId.direction_eq]
  unfold LangId.scriptListed at h
  cases hs : x.script with
  | none => rfl
  | some sc =>
    rw [hs] at h
    simp only [Bool.or_eq_false_iff] at h
    simp only [h.1.1, h.1.2, h.2, Bool.false_eq_true, if_false]

theorem LangId.byLang_not_rtl (likely : Bool) (T : Tables) (L : Layout) (x : LangId)
    (h : x.langRtl L = false) : LangId.byLang likely T L x = .ok .ltr := by
  unfold LangId.byLang
  unfold LangId.langRtl at h
  cases hl : x.language with
  | none => rfl
  | some lb =>
    rw [hl] at h
    simp only [h, Bool.false_eq_true, if_false]

theorem LangId.byLang_false (T : Tables) (L : Layout) (x : LangId) :
    LangId.byLang false T L x = if x.langRtl L then .ok .rtl else .ok .ltr := by
  unfold LangId.byLang LangId.langRtl
  cases x.language with
  | none => rfl
  | some lb => simp only [Bool.false_eq_true, if_false]

/-- a listed script decides, whatever the flag -/
theorem LangId.direction_listed_flag (T : Tables) (L : Layout) (x : LangId)
    (h : x.scriptListed L = true) : LangId.direction false T L x = LangId.direction true T L x := by
  rw [LangId.direction_eq, LangId.direction_eq]
  unfold LangId.scriptListed at h
  cases hs : x.script with
  | none => rw [hs] at h; cases h
  | some sc =>
    rw [hs] at h
    simp only
    cases h1 : L.ltr.contains (pack sc) <;> cases h2 : L.rtl.contains (pack sc) <;>
      cases h3 : L.ttb.contains (pack sc) <;>
      simp only [h1, h2, h3, Bool.or_false, Bool.or_true, Bool.false_eq_true, if_true, if_false] at h ⊢

/-- the language arm against the reference, as soon as the model's `maximize` is the dictionary
    `maximize` for the one query the arm makes -/
theorem LangId.byLang_eq_spec (likely : Bool) (T : Tables) (L : Layout) (x : LangId) (find : Spec.Find)
    (hmax : Likely.maximize T x.language none x.region = .ok (Spec.maximize find x.language none x.region)) :
    LangId.byLang likely T L x =
      .ok (if x.language.isSome && L.rtlLangs.contains (Spec.packOpt x.language) then
             if likely then
               match Spec.maximize find x.language none x.region with
               | some (_, some sc, _) => if L.ltr.contains (pack sc) then .ltr else .rtl
               | _ => .rtl
             else .rtl
           else .ltr) := by
  unfold LangId.byLang
  rw [hmax]
  cases hl : x.language with
  | none => simp
  | some lb =>
    simp only [Option.isSome_some, Bool.true_and, Spec.packOpt]
    cases h4 : L.rtlLangs.contains (pack lb) with
    | false => simp
    | true =>
      cases likely with
      | false => simp
      | true =>
        simp only [if_true]
        rcases Spec.maximize find (some lb) none x.region with _ | ⟨a, _ | sc', c⟩
        · simp
        · simp
        · exact (apply_ite Res.ok _ _ _).symm

/-- the reference `Spec.direction` is what the model computes, under the same proviso -/
theorem LangId.direction_eq_spec (likely : Bool) (T : Tables) (L : Layout) (x : LangId) (find : Spec.Find)
    (hmax : Likely.maximize T x.language none x.region = .ok (Spec.maximize find x.language none x.region)) :
    LangId.direction likely T L x = .ok (Spec.direction likely find L x.language x.script x.region) := by
  rw [LangId.direction_eq, LangId.byLang_eq_spec likely T L x find hmax]
  unfold Spec.direction
  cases hs : x.script with
  | none =>
    simp only [Option.isSome_none, Bool.false_and, Bool.false_eq_true, if_false]
    rfl
  | some sc =>
    simp only [Option.isSome_some, Bool.true_and, Spec.packOpt]
    cases h1 : L.ltr.contains (pack sc) <;> cases h2 : L.rtl.contains (pack sc) <;>
      cases h3 : L.ttb.contains (pack sc) <;>
      simp only [Bool.false_eq_true, if_true, if_false] <;> rfl

/-! ### the same binary search on a list, and on a list cut into equal chunks -/

def bsLoopG {α} (get : Nat → Option α) (gt : α → Bool) : Nat → Nat → Nat → Nat
  | 0, base, _ => base
  | fuel + 1, base, size =>
    if size > 1 then
      let half := size / 2
      let mid := base + half
      match get mid with
      | some x => bsLoopG get gt fuel (if gt x then base else mid) (size - half)
      | none => base
    else base

/-- `lookupBy` with the element access and the size abstracted -/
def lookupG {α} (get : Nat → Option α) (n : Nat) (cmp : α → Nat) : Option α :=
  if n == 0 then none
  else
    let base := bsLoopG get (fun x => cmp x == 2) n 0 n
    match get base with
    | some x => if cmp x == 1 then some x else none
    | none => none

theorem bsLoopA_eq_G {α} (a : Array α) (get : Nat → Option α) (hget : ∀ i, a[i]? = get i)
    (gt : α → Bool) (fuel base size : Nat) :
    bsLoopA a gt fuel base size = bsLoopG get gt fuel base size := by
  induction fuel generalizing base size with
  | zero => rfl
  | succ fuel ih =>
    unfold bsLoopA bsLoopG
    simp only [hget, ih]
    rfl

theorem lookupBy_eq_G {α} (a : Array α) (get : Nat → Option α) (n : Nat) (hget : ∀ i, a[i]? = get i)
    (hn : a.size = n) (cmp : α → Nat) : lookupBy a cmp = lookupG get n cmp := by
  unfold lookupBy lookupG
  simp only [hn, hget, bsLoopA_eq_G a get hget]
  rfl

/-- element `i` of a list stored as chunks of width `w` -/
def getC {α} (chunks : List (List α)) (w i : Nat) : Option α :=
  match chunks[i / w]? with
  | some c => c[i % w]?
  | none => none

/-- every chunk but the last has exactly `w` elements, the last at most `w` -/
def chunked {α} (w : Nat) : List (List α) → Bool
  | [] => true
  | [c] => c.length ≤ w
  | c :: rest => c.length == w && chunked w rest

theorem getC_eq_flatten {α} (w : Nat) (hw : 0 < w) (chunks : List (List α)) (h : chunked w chunks = true)
    (i : Nat) : chunks.flatten[i]? = getC chunks w i := by
  induction chunks generalizing i with
  | nil => simp [getC]
  | cons c rest ih =>
    cases rest with
    | nil =>
      simp only [chunked, decide_eq_true_eq] at h
      simp only [List.flatten_cons, List.flatten_nil, List.append_nil, getC]
      by_cases hi : i < w
      · rw [Nat.div_eq_of_lt hi, Nat.mod_eq_of_lt hi]; rfl
      · have h1 : 0 < i / w := Nat.div_pos (by omega) hw
        have h2 : c.length ≤ i := by omega
        rw [List.getElem?_eq_none h2]
        cases hq : i / w with
        | zero => omega
        | succ q => rfl
    | cons c2 rest2 =>
      simp only [chunked, Bool.and_eq_true, beq_iff_eq] at h
      obtain ⟨hc, hrest⟩ := h
      have ih' := ih hrest
      rw [List.flatten_cons]
      by_cases hi : i < w
      · rw [List.getElem?_append_left (by omega)]
        simp only [getC]
        rw [Nat.div_eq_of_lt hi, Nat.mod_eq_of_lt hi]; rfl
      · rw [List.getElem?_append_right (by omega), hc, ih' (i - w)]
        simp only [getC]
        have h1 : i / w = (i - w) / w + 1 := by
          have : i = (i - w) + w := by omega
          conv => lhs; rw [this]
          exact Nat.add_div_right _ hw
        have h2 : i % w = (i - w) % w := by
          have : i = (i - w) + w := by omega
          conv => lhs; rw [this]
          exact Nat.add_mod_right _ _
        rw [h1, h2]; rfl

/-- `lookupBy` on an array whose list is the concatenation of width-`w` chunks -/
theorem lookupBy_chunks {α} (a : Array α) (chunks : List (List α)) (w n : Nat) (hw : 0 < w)
    (ha : a.toList = chunks.flatten) (hc : chunked w chunks = true) (hn : a.size = n) (cmp : α → Nat) :
    lookupBy a cmp = lookupG (getC chunks w) n cmp := by
  apply lookupBy_eq_G a _ n _ hn
  intro i
  rw [← getC_eq_flatten w hw chunks hc, ← ha, Array.getElem?_toList]


/-! ### `character_direction` with the one `maximize` query it makes abstracted -/

/-- `maximize(Some(lang), None, region)` spelled out over two lookup functions -/
def Likely.maximizeLR (lo : Nat → Option Row1) (lr : Nat → Nat → Option Row2) (lb : Bytes)
    (region : Option Bytes) : Res (Option Triple) :=
  let step3 : Res (Option Triple) :=
    match lo (pack lb) with
    | some row => Likely.langFromParts row.l row.s row.r none region
    | none => .ok none
  match region with
  | some r =>
    match lr (pack lb) (pack r) with
    | some row => Likely.langFromParts row.l row.s row.r none none
    | none => step3
  | none => step3

theorem Likely.maximize_lang_only (T : Tables) (lb : Bytes) (rg : Option Bytes) :
    Likely.maximize T (some lb) none rg =
      Likely.maximizeLR (lookup1 T.langOnly) (lookup2 T.langRegion) lb rg := by
  unfold Likely.maximize Likely.maximizeLR
  cases rg <;> rfl

/-- `LangId.direction` with `maximize(self.language, None, self.region)` as a parameter -/
def _root_.UL.LangId.directionVia (likely : Bool) (mx : Bytes → Option Bytes → Res (Option Triple)) (L : Layout)
    (x : LangId) : Res LangId.Dir :=
  let byLang : Res LangId.Dir :=
    match x.language with
    | some lb =>
      if L.rtlLangs.contains (pack lb) then
        if likely then
          match mx lb x.region with
          | .err e => .err e
          | .panic => .panic
          | .ok (some (_, some sc, _)) =>
            if L.ltr.contains (pack sc) then .ok .ltr else .ok .rtl
          | .ok _ => .ok .rtl
        else .ok .rtl
      else .ok .ltr
    | none => .ok .ltr
  match x.script with
  | some sc =>
    let s := pack sc
    if L.ltr.contains s then .ok .ltr
    else if L.rtl.contains s then .ok .rtl
    else if L.ttb.contains s then .ok .ttb
    else byLang
  | none => byLang

theorem LangId.direction_eq_via (likely : Bool) (T : Tables) (L : Layout) (x : LangId) :
    LangId.direction likely T L x =
      LangId.directionVia likely (Likely.maximizeLR (lookup1 T.langOnly) (lookup2 T.langRegion)) L x := by
  unfold LangId.direction LangId.directionVia
  cases hl : x.language with
  | none => rfl
  | some lb =>
    simp only [Likely.maximize_lang_only]
    rfl

/-! ### the compiled tables: `LANG_ONLY` as chunks (kernel evaluation of `binary_search` on the
    7,143-row `List.toArray` literal costs seconds per query; on 256-row chunks it costs nothing) -/

/-- the chunk definitions of `Gen/Tables.lean`, in order -/
def Gen.langOnlyChunks : List (List Row1) := [Gen.langOnly_0, Gen.langOnly_1, Gen.langOnly_2, Gen.langOnly_3, Gen.langOnly_4, Gen.langOnly_5, Gen.langOnly_6, Gen.langOnly_7, Gen.langOnly_8, Gen.langOnly_9, Gen.langOnly_10, Gen.langOnly_11, Gen.langOnly_12, Gen.langOnly_13, Gen.langOnly_14, Gen.langOnly_15, Gen.langOnly_16, Gen.langOnly_17, Gen.langOnly_18, Gen.langOnly_19, Gen.langOnly_20, Gen.langOnly_21, Gen.langOnly_22, Gen.langOnly_23, Gen.langOnly_24, Gen.langOnly_25, Gen.langOnly_26, Gen.langOnly_27]

theorem Gen.langOnly_toList : Gen.tables.langOnly.toList = Gen.langOnlyChunks.flatten := by
  show Gen.langOnlyL = _
  unfold Gen.langOnlyL Gen.langOnlyChunks
  simp only [List.flatten_cons, List.flatten_nil, List.append_nil, List.append_assoc]

theorem Gen.langOnly_chunked : chunked 256 Gen.langOnlyChunks = true := by decide +kernel

set_option maxRecDepth 100000 in
theorem Gen.langOnly_size : Gen.tables.langOnly.size = 7143 := by
  show Gen.tables.langOnly.toList.length = 7143
  rw [Gen.langOnly_toList]
  decide +kernel

/-- `LANG_ONLY.binary_search_by_key(k)` evaluated chunk-wise -/
def Gen.fastLangOnly (k : Nat) : Option Row1 :=
  lookupG (getC Gen.langOnlyChunks 256) 7143 (fun row => cmpNat k row.k)

theorem Gen.lookup1_langOnly : lookup1 Gen.tables.langOnly = Gen.fastLangOnly := by
  funext k
  exact lookupBy_chunks _ _ 256 7143 (by decide) Gen.langOnly_toList Gen.langOnly_chunked
    Gen.langOnly_size _

/-- `character_direction` on the compiled tables, with the cheap `LANG_ONLY` search -/
theorem Gen.direction_eq_fast (likely : Bool) (L : Layout) (x : LangId) :
    LangId.direction likely Gen.tables L x =
      LangId.directionVia likely (Likely.maximizeLR Gen.fastLangOnly (lookup2 Gen.tables.langRegion)) L x := by
  rw [LangId.direction_eq_via, Gen.lookup1_langOnly]

/-! ### the CLDR layout entries as identifiers -/

/-- `characterOrder` as translated: 0 = left-to-right, 1 = right-to-left, 2 = top-to-bottom -/
def dirOf : Nat → LangId.Dir
  | 0 => .ltr
  | 1 => .rtl
  | _ => .ttb

/-- the identifier of a CLDR layout locale (its variants are added by the theorems: they never matter) -/
def entryId (e : Spec.LEntry) : LangId :=
  { language := Spec.unpackOpt e.l, script := Spec.unpackOpt e.s, region := Spec.unpackOpt e.r }

/-- language `l` occurs in the layout data with more than one direction -/
def multiDir (ls : List Spec.LEntry) (l : Nat) : Prop :=
  ∃ e1 ∈ ls, e1.l = l ∧ ∃ e2 ∈ ls, e2.l = l ∧ e1.dir ≠ e2.dir

instance (ls : List Spec.LEntry) (l : Nat) : Decidable (multiDir ls l) := by
  unfold multiDir; infer_instance

theorem LangId.direction_variants (likely : Bool) (T : Tables) (L : Layout) (x : LangId)
    (v : Option (List Bytes)) :
    LangId.direction likely T L { x with variants := v } = LangId.direction likely T L x := rfl

/-- all 710 locales, likely-subtags support on, evaluated with the chunk-wise `LANG_ONLY` search -/
theorem Gen.layout_likely_fast : ∀ e ∈ Gen.cldrLayout,
    LangId.directionVia true (Likely.maximizeLR Gen.fastLangOnly (lookup2 Gen.tables.langRegion))
      Gen.layout (entryId e) = .ok (dirOf e.dir) := by
  decide +kernel

end UL.Dir
