/-
  Lemmas/ExtZones.lean — the extension dispatch loop against the three-zone oracle of
  `Spec/Locale.lean`: step lemmas for `Spec.readSections`, the value map `concreteLoc`, the
  MUST-ACCEPT simulation (strict reader ⇒ model), `Spec.strip` commutes with the section readers,
  the NEVER-DROPS simulation (model ⇒ relaxed reader of the stripped input), totality.
-/
import UnicLocale.Lemmas.ExtChar

namespace UL.Ez

/-- the concrete value the model stores for an abstract locale value -/
def concreteLoc (v : Spec.LocV) : Locale :=
  { id := concreteLi v.id,
    ext := { unicode := { keywords := v.keywords, attributes := v.attrs },
             transform := { tlang := v.tlang.map concreteLi, tfields := v.tfields },
             priv := v.tags } }

namespace Spec
open UL.Spec

/-! ### one step of `readSections`, per singleton -/

/-- the pieces of a `-u-` body: attributes, keyword groups, what follows -/
def uParts (r : List Bytes) : List Bytes × List (Bytes × List Bytes) × List Bytes :=
  let r1 := r.dropWhile isAttr
  let p := readGroups isKey isAttr r1.length r1
  ((r.takeWhile isAttr).map lower, p.1, p.2)

def uState (st : SecState) (attrs : List Bytes) (gs : List (Bytes × List Bytes)) : SecState :=
  { st with v := { st.v with attrs := toSet attrs, keywords := toMap gs,
                             dupKeys := st.v.dupKeys || hasDup (gs.map (·.1)) },
            seenU := true }

/-- the pieces of a `-t-` body: tlang, repeated variant in it, tfield groups, what follows -/
def tParts (r : List Bytes) : Option LangIdV × Bool × List (Bytes × List Bytes) × List Bytes :=
  let a : Option LangIdV × Bool × List Bytes :=
    match readLangIdPrefixD r with
    | some (v, d, rest) => (some v, d, rest)
    | none => (none, false, r)
  let p := readGroups isTKey isAttr a.2.2.length a.2.2
  (a.1, a.2.1, p.1, p.2)

def tState (st : SecState) (tl : Option LangIdV) (gs : List (Bytes × List Bytes)) : SecState :=
  { st with v := { st.v with tlang := tl, tfields := toMap gs,
                             dupKeys := st.v.dupKeys || hasDup (gs.map (·.1)) },
            seenT := true }

theorem readSections_nil (strict : Bool) (n : Nat) (st : SecState) :
    readSections strict (n + 1) [] st = some st := rfl

theorem readSections_u {s : Nat} (h : (toLower s == 117) = true) (strict : Bool) (n : Nat)
    (r : List Bytes) (st : SecState) :
    readSections strict (n + 1) ([s] :: r) st =
      if st.seenU then none
      else if strict && (uParts r).1.isEmpty && (uParts r).2.1.isEmpty then none
      else if strict && hasDup (uParts r).1 then none
      else readSections strict n (uParts r).2.2 (uState st (uParts r).1 (uParts r).2.1) := by
  simp only [readSections, h, if_true]
  rfl

theorem readSections_t {s : Nat} (h : (toLower s == 116) = true) (strict : Bool) (n : Nat)
    (r : List Bytes) (st : SecState) :
    readSections strict (n + 1) ([s] :: r) st =
      if st.seenT then none
      else if strict && (tParts r).1.isNone && (tParts r).2.2.1.isEmpty then none
      else if strict && (tParts r).2.2.1.any (fun g => g.2.isEmpty) then none
      else if strict && (tParts r).2.1 then none
      else readSections strict n (tParts r).2.2.2 (tState st (tParts r).1 (tParts r).2.2.1) := by
  have h1 : (toLower s == 117) = false := by
    simp only [beq_iff_eq] at h
    simp [h]
  simp only [readSections, h, h1, if_true, Bool.false_eq_true, if_false]
  rfl

theorem readSections_x {s : Nat} (h : (toLower s == 120) = true) (strict : Bool) (n : Nat)
    (r : List Bytes) (st : SecState) :
    readSections strict (n + 1) ([s] :: r) st =
      if !r.all isPrivate then none
      else if strict && r.isEmpty then none
      else some { st with v := { st.v with tags := sortMulti (r.map lower) } } := by
  have h1 : (toLower s == 117) = false := by
    simp only [beq_iff_eq] at h
    simp [h]
  have h2 : (toLower s == 116) = false := by
    simp only [beq_iff_eq] at h
    simp [h]
  simp only [readSections, h, h1, h2, if_true, Bool.false_eq_true, if_false]

theorem readSections_other_strict {s : Nat} (h1 : (toLower s == 117) = false)
    (h2 : (toLower s == 116) = false) (h3 : (toLower s == 120) = false) (n : Nat)
    (r : List Bytes) (st : SecState) :
    readSections true (n + 1) ([s] :: r) st = none := by
  simp only [readSections, h1, h2, h3, Bool.false_eq_true, if_false, if_true]
  split <;> rfl

theorem readSections_long (strict : Bool) (n : Nat) {t : Bytes} (h : t.length ≠ 1)
    (r : List Bytes) (st : SecState) : readSections strict (n + 1) (t :: r) st = none := by
  match t, h with
  | [], _ => rfl
  | _ :: _ :: _, _ => rfl

/-- what a successful reading can start with -/
theorem readSections_some_head {strict : Bool} {n : Nat} {ts : List Bytes} {st st' : SecState}
    (h : readSections strict n ts st = some st') :
    ts = [] ∨ ∃ s r, ts = [s] :: r := by
  cases n with
  | zero => cases h
  | succ n =>
    cases ts with
    | nil => exact Or.inl rfl
    | cons t r =>
      by_cases hl : t.length = 1
      · match t, hl with
        | [s], _ => exact Or.inr ⟨s, r, rfl⟩
      · rw [readSections_long strict n hl] at h
        cases h

end Spec

/-! ### the functional forms of the section parsers in terms of the reader's pieces -/

theorem uChar_eq (r : List Bytes) :
    uChar r = uEnd (Spec.uParts r).1 (Spec.toMap (Spec.uParts r).2.1) (Spec.uParts r).2.2 := by
  unfold uChar Spec.uParts
  simp only [insGroup_toMap]

theorem uEnd_ok {attrs : List Bytes} {kw : AMap} {rest : List Bytes}
    (h : rest = [] ∨ ∃ s r, rest = [s] :: r) :
    uEnd attrs kw rest = .ok ({ keywords := kw, attributes := Spec.toSet attrs }, rest) := by
  rcases h with rfl | ⟨s, r, rfl⟩
  · simp [uEnd, dedup_sort_eq_toSet]
  · simp [uEnd, dedup_sort_eq_toSet]

theorem tEnd_ok {tl : Option LangId} {tf : AMap} {seen : Bool} {rest : List Bytes}
    (h : rest = [] ∨ ∃ s r, rest = [s] :: r) :
    tEnd tl tf seen rest = .ok ({ tlang := tl, tfields := tf }, rest) := by
  rcases h with rfl | ⟨s, r, rfl⟩
  · simp [tEnd]
  · simp [tEnd]

theorem Spec.isTKey_not_languageSubtag {t : Bytes} (hk : Spec.isTKey t = true) :
    isLanguageSubtag t = false := by
  have hl2 := Spec.isTKey_length hk
  unfold isLanguageSubtag
  rw [any_not_eq_not_all]
  match t, hl2 with
  | [a, b], _ =>
    simp only [Spec.isTKey, Bool.and_eq_true] at hk
    have h1 := hk.2
    have hb : isAlpha b = false := by
      simp only [isDigit, isAlpha, isUpper, isLower, Bool.and_eq_true,
        decide_eq_true_eq] at h1 ⊢
      simp only [Bool.or_eq_false_iff, Bool.and_eq_false_iff, decide_eq_false_iff_not]
      omega
    simp [hb]

theorem tChar_eq {r : List Bytes} (h : alpha4Head r = false) :
    tChar r = tEnd ((Spec.tParts r).1.map concreteLi) (Spec.toMap (Spec.tParts r).2.2.1)
      (!(Spec.tParts r).2.2.1.isEmpty) (Spec.tParts r).2.2.2 := by
  unfold tChar Spec.tParts Spec.readLangIdPrefix fChar
  simp only [h, Bool.false_eq_true, if_false, insGroup_toMap]
  cases hp : Spec.readLangIdPrefixD r with
  | none => rfl
  | some p =>
    obtain ⟨v, d, rest⟩ := p
    rfl

/-- a four-letter first subtag: the reader sees neither a tlang nor a tfield -/
theorem alpha4Head_parts {r : List Bytes} (h : alpha4Head r = true) :
    Spec.tParts r = (none, false, [], r) := by
  cases r with
  | nil => cases h
  | cons t r' =>
    simp only [alpha4Head, Bool.and_eq_true, Bool.not_eq_true'] at h
    have hk : Spec.isTKey t = false := by
      cases hk : Spec.isTKey t with
      | false => rfl
      | true => rw [Spec.isTKey_not_languageSubtag hk] at h; cases h.1
    have hp : Spec.readLangIdPrefixD (t :: r') = none := by
      simp [Spec.readLangIdPrefixD, h.2]
    unfold Spec.tParts
    simp only [hp, Spec.readGroups_not_key hk]

theorem Spec.readLangIdPrefixD_rest_length {r rest : List Bytes} {v : Spec.LangIdV} {d : Bool}
    (h : Spec.readLangIdPrefixD r = some (v, d, rest)) : rest.length ≤ r.length := by
  have h' : Spec.readLangIdPrefix r = some (v, rest) := by
    simp [Spec.readLangIdPrefix, h]
  obtain ⟨pre, h1, _⟩ := Spec.readLangIdPrefix_consumed h'
  rw [h1, List.length_append]
  omega

theorem Spec.tParts_rest_length (r : List Bytes) : (Spec.tParts r).2.2.2.length ≤ r.length := by
  unfold Spec.tParts
  cases hp : Spec.readLangIdPrefixD r with
  | none =>
    exact Spec.readGroups_rest_length _ _ _ _
  | some p =>
    obtain ⟨v, d, rest⟩ := p
    have h1 := Spec.readLangIdPrefixD_rest_length hp
    have h2 := Spec.readGroups_rest_length Spec.isTKey Spec.isAttr rest.length rest
    simp only
    omega

/-! ### MUST-ACCEPT: the strict reader is simulated by the dispatch loop -/

theorem accept_sections (n : Nat) : ∀ (ts : List Bytes) (st st' : Spec.SecState),
    Spec.readSections true n ts st = some st' →
    ∀ fuel, ts.length < fuel →
      ExtMap.loop fuel ts (concreteLoc st.v).ext st.seenU st.seenT = .ok (concreteLoc st'.v).ext ∧
      st'.v.id = st.v.id := by
  induction n with
  | zero => intro ts st st' h; cases h
  | succ n ih =>
    intro ts st st' hread fuel hfuel
    cases fuel with
    | zero => omega
    | succ f =>
      rcases Spec.readSections_some_head hread with rfl | ⟨s, r, rfl⟩
      · rw [Spec.readSections_nil] at hread
        injection hread with hread
        subst hread
        exact ⟨ExtMap.loop_nil _ _ _ _, rfl⟩
      · simp only [List.length_cons] at hfuel
        rw [ExtMap.loop_single]
        by_cases h1 : (toLower s == 117) = true
        · rw [Spec.readSections_u h1] at hread
          rw [if_pos h1]
          by_cases hs : st.seenU = true
          · simp [hs] at hread
          · rw [if_neg hs] at hread
            rw [if_neg hs]
            split at hread
            · cases hread
            · split at hread
              · cases hread
              · have hhead := Spec.readSections_some_head hread
                have hlen : (Spec.uParts r).2.2.length < f := by
                  have h1 := Spec.readGroups_rest_length Spec.isKey Spec.isAttr
                    (r.dropWhile Spec.isAttr).length (r.dropWhile Spec.isAttr)
                  have h2 := length_dropWhile_le Spec.isAttr r
                  simp only [Spec.uParts]
                  omega
                rw [uChar_eq, uEnd_ok hhead]
                exact ih _ _ _ hread f hlen
        · rw [if_neg h1]
          by_cases h2 : (toLower s == 116) = true
          · rw [Spec.readSections_t h2] at hread
            rw [if_pos h2]
            by_cases hs : st.seenT = true
            · simp [hs] at hread
            · rw [if_neg hs] at hread
              rw [if_neg hs]
              split at hread
              · cases hread
              · rename_i hne
                split at hread
                · cases hread
                · split at hread
                  · cases hread
                  · have hhead := Spec.readSections_some_head hread
                    have ha4 : alpha4Head r = false := by
                      cases ha : alpha4Head r with
                      | false => rfl
                      | true =>
                        rw [alpha4Head_parts ha] at hne
                        simp at hne
                    have hlen : (Spec.tParts r).2.2.2.length < f := by
                      have hl := Spec.tParts_rest_length r
                      omega
                    rw [tChar_eq ha4, tEnd_ok hhead]
                    exact ih _ _ _ hread f hlen
          · rw [if_neg h2]
            by_cases h3 : (toLower s == 120) = true
            · rw [Spec.readSections_x h3] at hread
              rw [if_pos h3]
              split at hread
              · cases hread
              · rename_i hp
                split at hread
                · cases hread
                · simp only [Bool.not_eq_true, Bool.not_eq_false'] at hp
                  injection hread with hread
                  subst hread
                  rw [if_pos hp, sortBytes_eq_sortMulti]
                  exact ⟨rfl, rfl⟩
            · simp only [Bool.not_eq_true] at h1 h2 h3
              rw [Spec.readSections_other_strict h1 h2 h3] at hread
              cases hread

theorem concreteLoc_init (id : Spec.LangIdV) : (concreteLoc { id := id }).ext = {} := rfl

theorem accept_tokens {ts : List Bytes} {st : Spec.SecState}
    (h : Spec.readLocale true ts = some st) : Locale.parse ts = .ok (concreteLoc st.v) := by
  unfold Spec.readLocale at h
  cases hp : Spec.readLangIdPrefixD ts with
  | none => rw [hp] at h; cases h
  | some p =>
    obtain ⟨id, dup, rest⟩ := p
    rw [hp] at h
    simp only at h
    split at h
    · cases h
    · cases ts with
      | nil => simp [Spec.readLangIdPrefixD] at hp
      | cons t ts' =>
        have hp' : Spec.readLangIdPrefix (t :: ts') = some (id, rest) := by
          simp [Spec.readLangIdPrefix, hp]
        obtain ⟨h1, h2⟩ := accept_sections _ _ _ _ h (rest.length + 1) (Nat.lt_succ_self _)
        unfold Locale.parse
        rw [LangId.parseIter_char, hp']
        simp only [Bool.not_true, Bool.false_and, Bool.false_eq_true, if_false]
        unfold ExtMap.parseIter
        rw [concreteLoc_init] at h1
        rw [h1]
        simp only at h2
        simp only [concreteLoc, h2]

/-! ### `Spec.strip` commutes with the section readers -/

/-- the head of a list is short (empty or a singleton) -/
def headShort (l : List Bytes) : Prop := ∀ t r, l = t :: r → t.length ≤ 1

theorem Spec.stripAux_cons_nonempty {t : Bytes} (h : 1 ≤ t.length) (ts : List Bytes) :
    Spec.stripAux (t :: ts) [] = t :: Spec.stripAux ts [] := by
  rw [Spec.stripAux]
  have he : t.isEmpty = false := by
    cases t with
    | nil => simp at h
    | cons _ _ => rfl
  simp [he]

theorem Spec.stripAux_empty (ts pending : List Bytes) :
    Spec.stripAux ([] :: ts) pending = Spec.stripAux ts ([] :: pending) := by
  rw [Spec.stripAux]
  simp

theorem Spec.stripAux_single (s : Nat) (ts pending : List Bytes) :
    Spec.stripAux ([s] :: ts) pending = [s] :: Spec.stripAux ts [] := by
  rw [Spec.stripAux]
  simp

theorem Spec.stripAux_pending_head (ts pending : List Bytes) :
    headShort (Spec.stripAux ts ([] :: pending)) := by
  induction ts generalizing pending with
  | nil => intro t r h; simp [Spec.stripAux] at h
  | cons a ts ih =>
    intro t r h
    rw [Spec.stripAux] at h
    by_cases he : a.isEmpty = true
    · rw [if_pos he] at h
      have : a = [] := by cases a with
        | nil => rfl
        | cons _ _ => cases he
      subst this
      exact ih _ t r h
    · rw [if_neg he] at h
      by_cases h1 : (a.length == 1) = true
      · rw [if_pos h1] at h
        simp only [List.cons.injEq] at h
        rw [← h.1]
        simp only [beq_iff_eq] at h1
        omega
      · rw [if_neg h1] at h
        simp only [List.cons_append, List.cons.injEq] at h
        rw [← h.1]
        simp

/-- a class of subtags of at least two bytes -/
def noShort (q : Bytes → Bool) : Prop := ∀ t, q t = true → 2 ≤ t.length

theorem headShort_not {q : Bytes → Bool} (hq : noShort q) {l : List Bytes} (h : headShort l)
    {t : Bytes} {r : List Bytes} (he : l = t :: r) : q t = false := by
  cases hqt : q t with
  | false => rfl
  | true =>
    have := hq t hqt
    have := h t r he
    omega

theorem Spec.stripAux_takeWhile {q : Bytes → Bool} (hq : noShort q) (l : List Bytes) :
    (Spec.stripAux l []).takeWhile q = l.takeWhile q ∧
    (Spec.stripAux l []).dropWhile q = Spec.stripAux (l.dropWhile q) [] := by
  induction l with
  | nil => simp [Spec.stripAux]
  | cons t l ih =>
    cases t with
    | nil =>
      have hqe : q [] = false := by
        cases hqe : q [] with
        | false => rfl
        | true => have := hq [] hqe; simp at this
      rw [List.takeWhile_cons, List.dropWhile_cons]
      simp only [hqe, Bool.false_eq_true, if_false]
      rw [Spec.stripAux_empty]
      have hh := Spec.stripAux_pending_head l []
      cases hs : Spec.stripAux l [[]] with
      | nil => simp
      | cons a r =>
        have := headShort_not hq hh hs
        simp [this]
    | cons b t =>
      rw [Spec.stripAux_cons_nonempty (by simp)]
      by_cases hqt : q (b :: t) = true
      · simp [hqt, ih]
      · simp only [Bool.not_eq_true] at hqt
        rw [List.takeWhile_cons, List.dropWhile_cons, List.takeWhile_cons, List.dropWhile_cons]
        simp only [hqt, Bool.false_eq_true, if_false]
        rw [Spec.stripAux_cons_nonempty (by simp)]
        exact ⟨trivial, rfl⟩

theorem Spec.stripAux_readGroups {isK isV : Bytes → Bool} (hK : noShort isK) (hV : noShort isV)
    (n : Nat) (l : List Bytes) :
    Spec.readGroups isK isV n (Spec.stripAux l []) =
      ((Spec.readGroups isK isV n l).1, Spec.stripAux (Spec.readGroups isK isV n l).2 []) := by
  induction n generalizing l with
  | zero => rfl
  | succ n ih =>
    cases l with
    | nil => simp [Spec.stripAux, Spec.readGroups_nil]
    | cons t l =>
      cases t with
      | nil =>
        have hke : isK [] = false := by
          cases hke : isK [] with
          | false => rfl
          | true => have := hK [] hke; simp at this
        rw [Spec.readGroups_not_key hke]
        have hh := Spec.stripAux_pending_head l []
        rw [Spec.stripAux_empty]
        cases hs : Spec.stripAux l [[]] with
        | nil => rw [Spec.readGroups_nil]
        | cons a r =>
          rw [Spec.readGroups_not_key (headShort_not hK hh hs)]
      | cons b t =>
        rw [Spec.stripAux_cons_nonempty (by simp)]
        by_cases hk : isK (b :: t) = true
        · rw [Spec.readGroups_key hk, Spec.readGroups_key hk]
          obtain ⟨h1, h2⟩ := Spec.stripAux_takeWhile hV l
          rw [h1, h2, ih]
        · simp only [Bool.not_eq_true] at hk
          rw [Spec.readGroups_not_key hk, Spec.readGroups_not_key hk,
            Spec.stripAux_cons_nonempty (by simp)]

theorem Spec.stripAux_takeOpt {q : Bytes → Bool} (hq : noShort q) (l : List Bytes) :
    Spec.takeOpt q (Spec.stripAux l []) =
      ((Spec.takeOpt q l).1, Spec.stripAux (Spec.takeOpt q l).2 []) := by
  cases l with
  | nil => simp [Spec.stripAux, Spec.takeOpt]
  | cons t l =>
    cases t with
    | nil =>
      have hqe : q [] = false := by
        cases hqe : q [] with
        | false => rfl
        | true => have := hq [] hqe; simp at this
      have hh := Spec.stripAux_pending_head l []
      simp only [Spec.takeOpt, hqe, Bool.false_eq_true, if_false]
      rw [Spec.stripAux_empty]
      cases hs : Spec.stripAux l [[]] with
      | nil => rfl
      | cons a r => simp [headShort_not hq hh hs]
    | cons b t =>
      rw [Spec.stripAux_cons_nonempty (by simp)]
      by_cases hqt : q (b :: t) = true
      · simp [Spec.takeOpt, hqt]
      · simp [Spec.takeOpt, hqt, Spec.stripAux_cons_nonempty]

theorem noShort_isLanguage : noShort Spec.isLanguage := fun _ h => Spec.isLanguage_length h
theorem noShort_isScript : noShort Spec.isScript := fun _ h => Spec.isScript_length h
theorem noShort_isRegion : noShort Spec.isRegion := fun _ h => Spec.isRegion_length h
theorem noShort_isVariant : noShort Spec.isVariant := fun _ h => Spec.isVariant_length h
theorem noShort_isAttr : noShort Spec.isAttr := fun _ h => by
  have := (Spec.isAttr_spec h).1; omega
theorem noShort_isKey : noShort Spec.isKey := fun _ h => by
  have := Spec.isKey_length h; omega
theorem noShort_isTKey : noShort Spec.isTKey := fun _ h => by
  have := Spec.isTKey_length h; omega

theorem Spec.stripAux_readLangIdPrefixD (l : List Bytes) :
    Spec.readLangIdPrefixD (Spec.stripAux l []) =
      (Spec.readLangIdPrefixD l).map (fun p => (p.1, p.2.1, Spec.stripAux p.2.2 [])) := by
  cases l with
  | nil => simp [Spec.stripAux, Spec.readLangIdPrefixD]
  | cons t l =>
    cases t with
    | nil =>
      have hqe : Spec.isLanguage [] = false := rfl
      have hh := Spec.stripAux_pending_head l []
      rw [Spec.stripAux_empty]
      cases hs : Spec.stripAux l [[]] with
      | nil => simp [Spec.readLangIdPrefixD, hqe]
      | cons a r => simp [Spec.readLangIdPrefixD, headShort_not noShort_isLanguage hh hs, hqe]
    | cons b t =>
      rw [Spec.stripAux_cons_nonempty (by simp)]
      by_cases hl : Spec.isLanguage (b :: t) = true
      · simp only [Spec.readLangIdPrefixD, hl, Bool.not_true, Bool.false_eq_true, if_false,
          Option.map_some]
        rw [Spec.stripAux_takeOpt noShort_isScript, Spec.stripAux_takeOpt noShort_isRegion]
        obtain ⟨h1, h2⟩ := Spec.stripAux_takeWhile noShort_isVariant
          (Spec.takeOpt Spec.isRegion (Spec.takeOpt Spec.isScript l).2).2
        simp only [h1, h2]
      · simp [Spec.readLangIdPrefixD, hl]

theorem Spec.stripAux_length (l pending : List Bytes) :
    (Spec.stripAux l pending).length ≤ l.length + pending.length := by
  induction l generalizing pending with
  | nil => simp [Spec.stripAux]
  | cons t l ih =>
    rw [Spec.stripAux]
    split
    · have := ih (t :: pending)
      simp only [List.length_cons] at this ⊢
      omega
    · split
      · have := ih []
        simp only [List.length_cons, List.length_nil] at this ⊢
        omega
      · have := ih []
        simp only [List.length_append, List.length_cons, List.length_nil] at this ⊢
        omega

theorem Spec.uParts_strip (r : List Bytes) :
    Spec.uParts (Spec.stripAux r []) =
      ((Spec.uParts r).1, (Spec.uParts r).2.1, Spec.stripAux (Spec.uParts r).2.2 []) := by
  unfold Spec.uParts
  obtain ⟨h1, h2⟩ := Spec.stripAux_takeWhile noShort_isAttr r
  have hlen := Spec.stripAux_length (r.dropWhile Spec.isAttr) []
  simp only [List.length_nil, Nat.add_zero] at hlen
  simp only [h1, h2]
  rw [Spec.readGroups_fuel _ _ _ (r.dropWhile Spec.isAttr).length _ (Nat.le_refl _) hlen,
    Spec.stripAux_readGroups noShort_isKey noShort_isAttr]

theorem Spec.tParts_strip (r : List Bytes) :
    Spec.tParts (Spec.stripAux r []) =
      ((Spec.tParts r).1, (Spec.tParts r).2.1, (Spec.tParts r).2.2.1,
       Spec.stripAux (Spec.tParts r).2.2.2 []) := by
  unfold Spec.tParts
  rw [Spec.stripAux_readLangIdPrefixD]
  cases hp : Spec.readLangIdPrefixD r with
  | none =>
    have hlen := Spec.stripAux_length r []
    simp only [List.length_nil, Nat.add_zero] at hlen
    simp only [Option.map_none]
    rw [Spec.readGroups_fuel _ _ _ r.length _ (Nat.le_refl _) hlen,
      Spec.stripAux_readGroups noShort_isTKey noShort_isAttr]
  | some p =>
    obtain ⟨v, d, rest⟩ := p
    have hlen := Spec.stripAux_length rest []
    simp only [List.length_nil, Nat.add_zero] at hlen
    simp only [Option.map_some]
    rw [Spec.readGroups_fuel _ _ _ rest.length _ (Nat.le_refl _) hlen,
      Spec.stripAux_readGroups noShort_isTKey noShort_isAttr]

theorem Spec.uParts_rest_length (r : List Bytes) : (Spec.uParts r).2.2.length ≤ r.length := by
  have h1 := Spec.readGroups_rest_length Spec.isKey Spec.isAttr
    (r.dropWhile Spec.isAttr).length (r.dropWhile Spec.isAttr)
  have h2 := length_dropWhile_le Spec.isAttr r
  simp only [Spec.uParts]
  omega

theorem Spec.stripAux_all_nonempty {l : List Bytes} (h : ∀ t ∈ l, 1 ≤ t.length) :
    Spec.stripAux l [] = l := by
  induction l with
  | nil => rfl
  | cons t l ih =>
    rw [Spec.stripAux_cons_nonempty (h t List.mem_cons_self),
      ih (fun t' ht' => h t' (List.mem_cons_of_mem _ ht'))]

/-! ### NEVER DROPS: the dispatch loop is simulated by the relaxed reader on the stripped input -/

theorem uEnd_ok_inv {attrs : List Bytes} {kw : AMap} {rest0 rest : List Bytes} {u : UExt}
    (h : uEnd attrs kw rest0 = .ok (u, rest)) :
    rest = rest0 ∧ u = { keywords := kw, attributes := Spec.toSet attrs } := by
  unfold uEnd at h
  split at h
  · split at h
    · cases h
    · injection h with h
      simp only [Prod.mk.injEq] at h
      exact ⟨h.2.symm, by rw [← h.1, dedup_sort_eq_toSet]⟩
  · injection h with h
    simp only [Prod.mk.injEq] at h
    exact ⟨h.2.symm, by rw [← h.1, dedup_sort_eq_toSet]⟩

theorem tEnd_ok_inv {tl : Option LangId} {tf : AMap} {seen : Bool} {rest0 rest : List Bytes}
    {x : TExt} (h : tEnd tl tf seen rest0 = .ok (x, rest)) :
    rest = rest0 ∧ x = { tlang := tl, tfields := tf } := by
  unfold tEnd at h
  split at h
  · split at h
    · cases h
    · injection h with h
      simp only [Prod.mk.injEq] at h
      exact ⟨h.2.symm, h.1.symm⟩
  · injection h with h
    simp only [Prod.mk.injEq] at h
    exact ⟨h.2.symm, h.1.symm⟩

theorem nodrop_sections (fuel : Nat) : ∀ (ts : List Bytes) (m m' : ExtMap) (sU sT : Bool),
    ExtMap.loop fuel ts m sU sT = .ok m' →
    ∀ (st : Spec.SecState) (pending : List Bytes) (n : Nat),
      m = (concreteLoc st.v).ext → sU = st.seenU → sT = st.seenT →
      (Spec.stripAux ts pending).length < n →
      ∃ st', Spec.readSections false n (Spec.stripAux ts pending) st = some st' ∧
        m' = (concreteLoc st'.v).ext ∧ st'.v.id = st.v.id := by
  induction fuel with
  | zero =>
    intro ts m m' sU sT h
    unfold ExtMap.loop at h
    cases h
  | succ f ih =>
    intro ts m m' sU sT h st pending n hm hU hT hn
    cases n with
    | zero => omega
    | succ n =>
    cases ts with
    | nil =>
      rw [ExtMap.loop_nil] at h
      injection h with h
      subst h
      exact ⟨st, rfl, hm, rfl⟩
    | cons t r =>
      by_cases hl : 1 < t.length
      · rw [ExtMap.loop_long f hl] at h
        cases h
      · match t, hl with
        | [], _ =>
          rw [ExtMap.loop_empty] at h
          rw [Spec.stripAux_empty] at hn ⊢
          exact ih r m m' sU sT h st _ (n + 1) hm hU hT hn
        | [s], _ =>
          rw [Spec.stripAux_single] at hn ⊢
          simp only [List.length_cons, Nat.add_lt_add_iff_right] at hn
          rw [ExtMap.loop_single] at h
          by_cases h1 : (toLower s == 117) = true
          · rw [if_pos h1] at h
            rw [Spec.readSections_u h1]
            by_cases hs : sU = true
            · simp [hs] at h
            · rw [if_neg hs] at h
              rw [hU] at hs
              rw [if_neg hs]
              simp only [Bool.false_and, Bool.false_eq_true, if_false]
              cases hu : uChar r with
              | err e => rw [hu] at h; cases h
              | panic => rw [hu] at h; cases h
              | ok p =>
                obtain ⟨u, rest⟩ := p
                rw [hu] at h
                simp only at h
                rw [uChar_eq] at hu
                obtain ⟨hrest, hu'⟩ := uEnd_ok_inv hu
                subst hrest
                have hlen : (Spec.stripAux (Spec.uParts r).2.2 []).length < n := by
                  have h1 := Spec.uParts_rest_length (Spec.stripAux r [])
                  rw [Spec.uParts_strip] at h1
                  simp only at h1
                  omega
                rw [Spec.uParts_strip]
                simp only
                refine ih _ _ m' _ _ h (Spec.uState st (Spec.uParts r).1 (Spec.uParts r).2.1) []
                  n ?_ rfl hT hlen
                rw [hm, hu']
                rfl
          · rw [if_neg h1] at h
            by_cases h2 : (toLower s == 116) = true
            · rw [if_pos h2] at h
              rw [Spec.readSections_t h2]
              by_cases hs : sT = true
              · simp [hs] at h
              · rw [if_neg hs] at h
                rw [hT] at hs
                rw [if_neg hs]
                simp only [Bool.false_and, Bool.false_eq_true, if_false]
                cases hx : tChar r with
                | err e => rw [hx] at h; cases h
                | panic => rw [hx] at h; cases h
                | ok p =>
                  obtain ⟨x, rest⟩ := p
                  rw [hx] at h
                  simp only at h
                  have ha4 : alpha4Head r = false := by
                    cases ha : alpha4Head r with
                    | false => rfl
                    | true => simp [tChar, ha] at hx
                  rw [tChar_eq ha4] at hx
                  obtain ⟨hrest, hx'⟩ := tEnd_ok_inv hx
                  subst hrest
                  have hlen : (Spec.stripAux (Spec.tParts r).2.2.2 []).length < n := by
                    have h1 := Spec.tParts_rest_length (Spec.stripAux r [])
                    rw [Spec.tParts_strip] at h1
                    simp only at h1
                    omega
                  rw [Spec.tParts_strip]
                  simp only
                  refine ih _ _ m' _ _ h (Spec.tState st (Spec.tParts r).1 (Spec.tParts r).2.2.1) []
                    n ?_ hU rfl hlen
                  rw [hm, hx']
                  rfl
            · rw [if_neg h2] at h
              by_cases h3 : (toLower s == 120) = true
              · rw [if_pos h3] at h
                rw [Spec.readSections_x h3]
                by_cases hp : r.all Spec.isPrivate = true
                · rw [if_pos hp] at h
                  injection h with h
                  have hne : ∀ t ∈ r, 1 ≤ t.length := by
                    intro t ht
                    exact (Spec.isPrivate_spec (List.all_eq_true.mp hp t ht)).1
                  rw [Spec.stripAux_all_nonempty hne]
                  simp only [hp, Bool.not_true, Bool.false_eq_true, if_false, Bool.false_and]
                  refine ⟨_, rfl, ?_, rfl⟩
                  rw [← h, hm, sortBytes_eq_sortMulti]
                  rfl
                · rw [if_neg hp] at h
                  cases h
              · rw [if_neg h3] at h
                cases h

theorem Spec.readLangIdPrefixD_of_prefix {ts rest : List Bytes} {v : Spec.LangIdV}
    (h : Spec.readLangIdPrefix ts = some (v, rest)) :
    ∃ d, Spec.readLangIdPrefixD ts = some (v, d, rest) := by
  unfold Spec.readLangIdPrefix at h
  cases hD : Spec.readLangIdPrefixD ts with
  | none => rw [hD] at h; cases h
  | some p =>
    obtain ⟨v', d, rest'⟩ := p
    rw [hD] at h
    simp only [Option.map_some, Option.some.injEq, Prod.mk.injEq] at h
    exact ⟨d, by rw [h.1, h.2]⟩

theorem nodrop_tokens {ts : List Bytes} (hne : ts ≠ []) {x : Locale}
    (h : Locale.parse ts = .ok x) :
    ∃ st, Spec.readLocale false (Spec.strip ts) = some st ∧ x = concreteLoc st.v := by
  cases ts with
  | nil => exact absurd rfl hne
  | cons t ts' =>
    unfold Locale.parse at h
    rw [LangId.parseIter_char] at h
    cases hp : Spec.readLangIdPrefix (t :: ts') with
    | none => rw [hp] at h; cases h
    | some p =>
      obtain ⟨v, rest⟩ := p
      rw [hp] at h
      simp only [Bool.not_true, Bool.false_and, Bool.false_eq_true, if_false] at h
      cases he : ExtMap.parseIter rest with
      | err e => rw [he] at h; cases h
      | panic => rw [he] at h; cases h
      | ok ext =>
        rw [he] at h
        injection h with h
        obtain ⟨d, hD⟩ := Spec.readLangIdPrefixD_of_prefix hp
        unfold ExtMap.parseIter at he
        obtain ⟨st', h1, h2, h3⟩ := nodrop_sections _ _ _ _ _ _ he { v := { id := v } } []
          ((Spec.stripAux rest []).length + 1) rfl rfl rfl (Nat.lt_succ_self _)
        refine ⟨st', ?_, ?_⟩
        · unfold Spec.readLocale Spec.strip
          rw [Spec.stripAux_readLangIdPrefixD, hD]
          simp only [Option.map_some, Bool.false_and, Bool.false_eq_true, if_false]
          exact h1
        · simp only at h3
          rw [← h, h2]
          simp only [concreteLoc, h3]

/-! ### totality: `Locale.parse` never panics -/

theorem uEnd_ne_panic (attrs : List Bytes) (kw : AMap) (rest : List Bytes) :
    uEnd attrs kw rest ≠ .panic := by
  unfold uEnd
  split
  · split <;> simp
  · simp

theorem tEnd_ne_panic (tl : Option LangId) (tf : AMap) (seen : Bool) (rest : List Bytes) :
    tEnd tl tf seen rest ≠ .panic := by
  unfold tEnd
  split
  · split <;> simp
  · simp

theorem ExtMap.loop_no_panic (fuel : Nat) : ∀ (ts : List Bytes) (m : ExtMap) (sU sT : Bool),
    ts.length < fuel → ExtMap.loop fuel ts m sU sT ≠ .panic := by
  induction fuel with
  | zero => intro ts m sU sT h; omega
  | succ f ih =>
    intro ts m sU sT hlen
    cases ts with
    | nil => rw [ExtMap.loop_nil]; simp
    | cons t r =>
      simp only [List.length_cons, Nat.add_lt_add_iff_right] at hlen
      by_cases hl : 1 < t.length
      · rw [ExtMap.loop_long f hl]; simp
      · match t, hl with
        | _ :: _ :: _, hl => exact absurd (by simp) hl
        | [], _ =>
          rw [ExtMap.loop_empty]
          exact ih r m sU sT (by omega)
        | [s], _ =>
          rw [ExtMap.loop_single]
          split
          · split
            · simp
            · cases hu : uChar r with
              | err e => simp
              | panic => rw [uChar_eq] at hu; exact absurd hu (uEnd_ne_panic _ _ _)
              | ok p =>
                obtain ⟨u, rest⟩ := p
                rw [uChar_eq] at hu
                obtain ⟨hrest, _⟩ := uEnd_ok_inv hu
                have := Spec.uParts_rest_length r
                exact ih _ _ _ _ (by rw [hrest]; omega)
          · split
            · split
              · simp
              · cases hx : tChar r with
                | err e => simp
                | panic =>
                  exfalso
                  cases ha : alpha4Head r with
                  | true => simp [tChar, ha] at hx
                  | false => rw [tChar_eq ha] at hx; exact tEnd_ne_panic _ _ _ _ hx
                | ok p =>
                  obtain ⟨x, rest⟩ := p
                  have ha4 : alpha4Head r = false := by
                    cases ha : alpha4Head r with
                    | false => rfl
                    | true => simp [tChar, ha] at hx
                  rw [tChar_eq ha4] at hx
                  obtain ⟨hrest, _⟩ := tEnd_ok_inv hx
                  have := Spec.tParts_rest_length r
                  exact ih _ _ _ _ (by rw [hrest]; omega)
            · split
              · split <;> simp
              · simp

theorem Locale.parse_no_panic (ts : List Bytes) : Locale.parse ts ≠ .panic := by
  unfold Locale.parse
  cases ts with
  | nil =>
    rw [LangId.parseIter_nil]
    simp [ExtMap.parseIter_nil]
  | cons t ts' =>
    rw [LangId.parseIter_char]
    cases hp : Spec.readLangIdPrefix (t :: ts') with
    | none => simp
    | some p =>
      obtain ⟨v, rest⟩ := p
      simp only [Bool.not_true, Bool.false_and, Bool.false_eq_true, if_false]
      have := ExtMap.loop_no_panic (rest.length + 1) rest {} false false (Nat.lt_succ_self _)
      unfold ExtMap.parseIter
      cases he : ExtMap.loop (rest.length + 1) rest {} false false with
      | err e => simp
      | panic => exact absurd he this
      | ok ext => simp

/-! ### the zone oracle, inverted -/

end UL.Ez
namespace UL.Spec
open UL UL.Ez

def Zone.isReject : Zone → Bool
  | .reject => true
  | _ => false
def Zone.acceptValue : Zone → Option LocV
  | .accept v => some v
  | _ => none
def Zone.eitherValue : Zone → Option LocV
  | .either v => some v
  | _ => none

theorem Zone.eq_reject_of_isReject {z : Zone} (h : z.isReject = true) : z = .reject := by
  cases z <;> first | rfl | cases h
theorem Zone.eq_accept_of_acceptValue {z : Zone} {v : LocV} (h : z.acceptValue = some v) :
    z = .accept v := by
  cases z with
  | accept w => injection h with h; rw [h]
  | _ => cases h
theorem Zone.eq_either_of_eitherValue {z : Zone} {v : LocV} (h : z.eitherValue = some v) :
    z = .either v := by
  cases z with
  | either w => injection h with h; rw [h]
  | _ => cases h

theorem zone_accept_inv {ts : List Bytes} {v : LocV} (h : zoneOfTokens ts = .accept v) :
    ∃ st, readLocale true ts = some st ∧ st.v = v := by
  unfold zoneOfTokens at h
  cases h1 : readLocale true ts with
  | some st =>
    rw [h1] at h
    simp only at h
    split at h
    · cases h
    · injection h with h
      exact ⟨st, rfl, h⟩
  | none =>
    rw [h1] at h
    simp only at h
    cases h2 : readLocale false (strip ts) with
    | some st =>
      rw [h2] at h
      simp only at h
      split at h <;> cases h
    | none =>
      rw [h2] at h
      simp only at h
      split at h <;> cases h

theorem zone_either_inv {ts : List Bytes} {v : LocV} (h : zoneOfTokens ts = .either v) :
    readLocale true ts = none ∧ ∃ st, readLocale false (strip ts) = some st ∧ st.v = v := by
  unfold zoneOfTokens at h
  cases h1 : readLocale true ts with
  | some st =>
    rw [h1] at h
    simp only at h
    split at h <;> cases h
  | none =>
    rw [h1] at h
    simp only at h
    cases h2 : readLocale false (strip ts) with
    | some st =>
      rw [h2] at h
      simp only at h
      split at h
      · cases h
      · injection h with h
        exact ⟨rfl, st, rfl, h⟩
    | none =>
      rw [h2] at h
      simp only at h
      split at h <;> cases h

theorem zone_reject_inv {ts : List Bytes} (h : zoneOfTokens ts = .reject) :
    readLocale true ts = none ∧ readLocale false (strip ts) = none := by
  unfold zoneOfTokens at h
  cases h1 : readLocale true ts with
  | some st =>
    rw [h1] at h
    simp only at h
    split at h <;> cases h
  | none =>
    rw [h1] at h
    simp only at h
    cases h2 : readLocale false (strip ts) with
    | some st =>
      rw [h2] at h
      simp only at h
      split at h <;> cases h
    | none => exact ⟨rfl, rfl⟩

end UL.Spec


