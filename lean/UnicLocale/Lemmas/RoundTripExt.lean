/-
  Lemmas/RoundTripExt.lean — C05, second half: the three extension lists, `ExtensionsMap`, `Locale`.
-/
import UnicLocale.Lemmas.RoundTrip

namespace UL.RT
open UL

/-! ### the extension subtag classes: what the invariant gives the parser -/

theorem isAttr_spec {t : Bytes} (h : Spec.isAttr t = true) :
    3 ≤ t.length ∧ t.length ≤ 8 ∧ allAlnum t = true := by
  simp only [Spec.isAttr, Spec.rep, Bool.and_eq_true, decide_eq_true_eq] at h
  exact ⟨h.1.1, h.1.2, h.2⟩

theorem isTypeShape_of_isAttr {t : Bytes} (h : Spec.isAttr t = true) : isTypeShape t = true := by
  obtain ⟨h3, h8, ha⟩ := isAttr_spec h
  unfold allAlnum at ha
  simp [isTypeShape, any_not_eq_not_all, ha, h3, h8]

theorem okAttr_iff {a : Bytes} : okAttr a = true ↔ Spec.isAttr a = true ∧ lower a = a := by
  simp only [okAttr, Bool.and_eq_true, beq_iff_eq]

theorem okType_iff {a : Bytes} :
    okType a = true ↔ Spec.isAttr a = true ∧ lower a = a ∧ a ≠ Spec.trueWord := by
  simp only [okType, Bool.and_eq_true, beq_iff_eq, bne_iff_ne, ne_eq, and_assoc]

theorem parseAttribute_stored {a : Bytes} (h : okAttr a = true) : parseAttribute a = .ok a := by
  obtain ⟨h1, h2⟩ := okAttr_iff.1 h
  obtain ⟨h3, h8, ha⟩ := isAttr_spec h1
  simp [parseAttribute, tinyOk_of_allAlnum h8 ha, ha, h3, h8, h2]

theorem parseType_stored {a : Bytes} (h : okType a = true) : parseType a = .ok (some a) := by
  obtain ⟨h1, h2, hne⟩ := okType_iff.1 h
  obtain ⟨h3, h8, ha⟩ := isAttr_spec h1
  have hne' : ¬ a = trueBytes := hne
  simp [parseType, tinyOk_of_allAlnum h8 ha, ha, h3, h8, h2, hne']

theorem parseTValue_stored {a : Bytes} (h : okType a = true) : parseTValue a = .ok (some a) := by
  obtain ⟨h1, h2, hne⟩ := okType_iff.1 h
  obtain ⟨h3, h8, ha⟩ := isAttr_spec h1
  have hne' : ¬ a = trueBytes := hne
  have g1 : ¬ a.length < 3 := by omega
  have g2 : ¬ 8 < a.length := by omega
  simp [parseTValue, tinyOk_of_allAlnum h8 ha, ha, g1, g2, h2, hne']

theorem isTKeyShape_eq (t : Bytes) : isTKeyShape t = Spec.isTKey t := rfl

theorem isTKeyShape_of_length {t : Bytes} (h : t.length ≠ 2) : isTKeyShape t = false := by
  cases hs : isTKeyShape t with
  | false => rfl
  | true => exact absurd (Spec.isTKey_length hs) h

theorem isTypeShape_short {t : Bytes} (h : t.length ≤ 2) : isTypeShape t = false := by
  have : ¬ 3 ≤ t.length := by omega
  simp [isTypeShape, this]

theorem okKey_iff {k : Bytes} : okKey k = true ↔ Spec.isKey k = true ∧ lower k = k := by
  simp only [okKey, Bool.and_eq_true, beq_iff_eq]
theorem okTKey_iff {k : Bytes} : okTKey k = true ↔ Spec.isTKey k = true ∧ lower k = k := by
  simp only [okTKey, Bool.and_eq_true, beq_iff_eq]

theorem parseKey_stored {k : Bytes} (h : okKey k = true) : parseKey k = .ok k := by
  obtain ⟨h1, h2⟩ := okKey_iff.1 h
  match k, h1, h2 with
  | [a, b], h1, h2 =>
    simp only [Spec.isKey, Bool.and_eq_true] at h1
    have hb : isAlnum b = true := by simp [isAlnum, h1.2]
    have hall : allAlnum [a, b] = true := by simp [allAlnum, h1.1, hb]
    simp [parseKey, h1.1, h1.2, tinyOk_of_allAlnum (n := 4) (by simp) hall, h2]

theorem parseTKey_stored {k : Bytes} (h : okTKey k = true) : parseTKey k = .ok k := by
  obtain ⟨h1, h2⟩ := okTKey_iff.1 h
  match k, h1, h2 with
  | [a, b], h1, h2 =>
    simp only [Spec.isTKey, Bool.and_eq_true] at h1
    have ha : isAlnum a = true := by simp [isAlnum, h1.1]
    have hb : isAlnum b = true := by simp [isAlnum, h1.2]
    have hall : allAlnum [a, b] = true := by simp [allAlnum, ha, hb]
    simp [parseTKey, h1.1, h1.2, tinyOk_of_allAlnum (n := 4) (by simp) hall, h2]

theorem allAlnum_of_okKey {k : Bytes} (h : okKey k = true) : allAlnum k = true := by
  obtain ⟨h1, _⟩ := okKey_iff.1 h
  match k, h1 with
  | [a, b], h1 =>
    simp only [Spec.isKey, Bool.and_eq_true] at h1
    have hb : isAlnum b = true := by simp [isAlnum, h1.2]
    simp [allAlnum, h1.1, hb]

theorem allAlnum_of_okTKey {k : Bytes} (h : okTKey k = true) : allAlnum k = true := by
  obtain ⟨h1, _⟩ := okTKey_iff.1 h
  match k, h1 with
  | [a, b], h1 =>
    simp only [Spec.isTKey, Bool.and_eq_true] at h1
    have ha : isAlnum a = true := by simp [isAlnum, h1.1]
    have hb : isAlnum b = true := by simp [isAlnum, h1.2]
    simp [allAlnum, ha, hb]

theorem okTag_iff {t : Bytes} : okTag t = true ↔ Spec.isPrivate t = true ∧ lower t = t := by
  simp only [okTag, Bool.and_eq_true, beq_iff_eq]

theorem isPrivate_spec {t : Bytes} (h : Spec.isPrivate t = true) :
    1 ≤ t.length ∧ t.length ≤ 8 ∧ allAlnum t = true := by
  simp only [Spec.isPrivate, Spec.rep, Bool.and_eq_true, decide_eq_true_eq] at h
  exact ⟨h.1.1, h.1.2, h.2⟩

theorem parsePrivate_stored {t : Bytes} (h : okTag t = true) : parsePrivate t = .ok t := by
  obtain ⟨h1, h2⟩ := okTag_iff.1 h
  obtain ⟨h3, h8, ha⟩ := isPrivate_spec h1
  have hne : t ≠ [] := by intro e; subst e; simp at h3
  have g2 : ¬ 8 < t.length := by omega
  simp [parsePrivate, tinyOk_of_allAlnum h8 ha, ha, g2, h2, hne]

/-! ### key-sorted maps: unfolding `okMap`, inserting a sorted list in order -/

theorem okMap_iff {okK : Bytes → Bool} {m : AMap} : okMap okK m = true ↔
    AMap.sortedKeys m = true ∧ ∀ kv ∈ m, okK kv.1 = true ∧ ∀ t ∈ kv.2, okType t = true := by
  simp only [okMap, AMap.sortedKeys, Bool.and_eq_true, List.all_eq_true]

/-- insert the pairs of a list one after the other -/
def AMap.insertAll (kws : AMap) (m : AMap) : AMap :=
  kws.foldl (fun acc kv => AMap.insert kv.1 kv.2 acc) m

theorem AMap.insertAll_cons (k : Bytes) (v : List Bytes) (kws m : AMap) :
    AMap.insertAll ((k, v) :: kws) m = AMap.insertAll kws (AMap.insert k v m) := rfl

theorem AMap.insertAll_sorted {m : AMap} (h : AMap.sortedKeys m = true) : AMap.insertAll m [] = m :=
  AMap.foldl_insert_of_sorted h

/-- the rest of the input after an extension body: nothing, or a singleton subtag -/
def extStop (rest : List Bytes) : Prop := ∀ t r, rest = t :: r → t.length = 1

theorem extStop_nil : extStop [] := by intro t r h; cases h
theorem extStop_cons {t : Bytes} (r : List Bytes) (h : t.length = 1) : extStop (t :: r) := by
  intro t' r' e; cases e; exact h
theorem liStop_of_extStop {rest : List Bytes} (h : extStop rest) : liStop rest := by
  intro t r e
  have := h t r e
  exact (liStop_of_short r (by omega)) t r rfl

/-! ### `-u-` -/

theorem UExt.loop_attrs (as more : List Bytes) (u : UExt) (ha : ∀ a ∈ as, okAttr a = true) :
    UExt.loop (as ++ more) u none [] =
      UExt.loop more { u with attributes := u.attributes ++ as } none [] := by
  induction as generalizing u with
  | nil => simp
  | cons a as ih =>
    have hok := ha a (by simp)
    obtain ⟨h1, _⟩ := okAttr_iff.1 hok
    obtain ⟨h3, _, _⟩ := isAttr_spec h1
    have hl : ¬ a.length = 2 := by omega
    rw [List.cons_append, UExt.loop]
    simp only [beq_iff_eq, hl, if_false, Option.isSome_none, Bool.false_and, Bool.false_eq_true,
      isTypeShape_of_isAttr h1, if_true, parseAttribute_stored hok]
    rw [ih _ (fun x hx => ha x (by simp [hx]))]
    simp

theorem UExt.loop_types (v more : List Bytes) (u : UExt) (k : Bytes) (ct : List Bytes)
    (hv : ∀ t ∈ v, okType t = true) :
    UExt.loop (v ++ more) u (some k) ct = UExt.loop more u (some k) (ct ++ v) := by
  induction v generalizing ct with
  | nil => simp
  | cons a v ih =>
    have hok := hv a (by simp)
    obtain ⟨h1, _, _⟩ := okType_iff.1 hok
    obtain ⟨h3, _, _⟩ := isAttr_spec h1
    have hl : ¬ a.length = 2 := by omega
    rw [List.cons_append, UExt.loop]
    simp only [beq_iff_eq, hl, if_false, Option.isSome_some, Bool.true_and,
      isTypeShape_of_isAttr h1, if_true, parseType_stored hok]
    rw [ih _ (fun x hx => hv x (by simp [hx]))]
    simp

theorem UExt.flush_attributes (u : UExt) (ck : Option Bytes) (ct : List Bytes) :
    (UExt.flush u ck ct).attributes = u.attributes := by
  cases ck <;> rfl

theorem UExt.loop_keywords (kws : AMap) (rest : List Bytes) (u : UExt) (ck : Option Bytes)
    (ct : List Bytes) (hck : ck = none → ct = []) (hm : okMap okKey kws = true) (hr : extStop rest) :
    UExt.loop (AMap.tokens kws ++ rest) u ck ct =
      .ok ({ keywords := AMap.insertAll kws (UExt.flush u ck ct).keywords,
             attributes := dedupAdj (sortBytes u.attributes) }, rest) := by
  induction kws generalizing u ck ct with
  | nil =>
    simp only [AMap.tokens, List.nil_append, AMap.insertAll, List.foldl_nil]
    cases rest with
    | nil =>
      rw [UExt.loop, UExt.finish, UExt.flush_attributes]
    | cons t r =>
      have h1 := hr t r rfl
      have hl : ¬ t.length = 2 := by omega
      rw [UExt.loop]
      simp only [beq_iff_eq, hl, if_false, isTypeShape_short (t := t) (by omega), Bool.and_false,
        Bool.false_eq_true]
      rw [UExt.finish, UExt.flush_attributes]
  | cons kv kws ih =>
    obtain ⟨k, v⟩ := kv
    obtain ⟨hs, hall⟩ := okMap_iff.1 hm
    obtain ⟨hk, hv⟩ := hall (k, v) (by simp)
    have hm' : okMap okKey kws = true :=
      okMap_iff.2 ⟨(AMap.sortedKeys_cons.1 hs).2, fun kv hkv => hall kv (by simp [hkv])⟩
    have hl : k.length = 2 := Spec.isKey_length (okKey_iff.1 hk).1
    have hct : (if ck.isSome = true then [] else ct) = [] := by
      cases ck with
      | none => simpa using hck rfl
      | some _ => rfl
    simp only [AMap.tokens, List.cons_append, List.append_assoc]
    rw [UExt.loop]
    simp only [beq_iff_eq, hl, if_true, parseKey_stored hk, hct]
    rw [UExt.loop_types v _ _ k [] hv, List.nil_append, ih _ _ _ (by intro h; cases h) hm',
      AMap.insertAll_cons, UExt.flush_attributes]
    rfl

theorem UExt.inv_iff {u : UExt} : u.inv = true ↔
    strictSorted u.attributes = true ∧ (∀ a ∈ u.attributes, okAttr a = true) ∧
      okMap okKey u.keywords = true := by
  simp only [UExt.inv, Bool.and_eq_true, List.all_eq_true, and_assoc]

/-- the subtags after the singleton `u` -/
def UExt.body (u : UExt) : List Bytes := u.attributes ++ AMap.tokens u.keywords

theorem UExt.tokens_of_not_isEmpty {u : UExt} (h : u.isEmpty = false) :
    UExt.tokens u = [117] :: UExt.body u := by
  simp [UExt.tokens, h, UExt.body]

theorem UExt.isEmpty_iff {u : UExt} : u.isEmpty = true ↔ u = {} := by
  obtain ⟨k, a⟩ := u
  simp [UExt.isEmpty, List.isEmpty_iff]

theorem UExt.tokens_of_isEmpty {u : UExt} (h : u.isEmpty = true) : UExt.tokens u = [] := by
  simp [UExt.tokens, h]

/-- C05 for the unicode extension list (the body, i.e. what follows the singleton) -/
theorem UExt.parseIter_body {u : UExt} (h : u.inv = true) (rest : List Bytes) (hr : extStop rest) :
    UExt.parseIter (UExt.body u ++ rest) = .ok (u, rest) := by
  obtain ⟨hs, ha, hm⟩ := UExt.inv_iff.1 h
  unfold UExt.parseIter UExt.body
  rw [List.append_assoc, UExt.loop_attrs _ _ _ ha, UExt.loop_keywords _ _ _ _ _ (fun _ => rfl) hm hr]
  simp only [List.nil_append, UExt.flush]
  rw [AMap.insertAll_sorted (okMap_iff.1 hm).1, dedup_sort_of_strictSorted hs]

/-! ### `-t-` -/

theorem TExt.loop_values (v more : List Bytes) (x : TExt) (k : Bytes) (cv : List Bytes)
    (hv : ∀ t ∈ v, okType t = true) :
    TExt.fieldLoop (v ++ more) x (some k) cv = TExt.fieldLoop more x (some k) (cv ++ v) := by
  induction v generalizing cv with
  | nil => simp
  | cons a v ih =>
    have hok := hv a (by simp)
    obtain ⟨h1, _, _⟩ := okType_iff.1 hok
    obtain ⟨h3, _, _⟩ := isAttr_spec h1
    have hl : ¬ a.length = 1 := by omega
    rw [List.cons_append, TExt.fieldLoop]
    simp only [isTKeyShape_of_length (t := a) (by omega), Bool.false_eq_true, if_false, beq_iff_eq, hl,
      Option.isSome_some, if_true, parseTValue_stored hok]
    rw [ih _ (fun x hx => hv x (by simp [hx]))]
    simp

theorem TExt.flush_tlang (x : TExt) (ck : Option Bytes) (cv : List Bytes) :
    (TExt.flush x ck cv).tlang = x.tlang := by
  cases ck <;> rfl

theorem TExt.flush_eta (x : TExt) (ck : Option Bytes) (cv : List Bytes) :
    TExt.flush x ck cv = { tlang := x.tlang, tfields := (TExt.flush x ck cv).tfields } := by
  cases ck <;> rfl

theorem TExt.loop_fields (flds : AMap) (rest : List Bytes) (x : TExt) (ck : Option Bytes)
    (cv : List Bytes) (hck : ck = none → cv = []) (hm : okMap okTKey flds = true) (hr : extStop rest) :
    TExt.fieldLoop (AMap.tokens flds ++ rest) x ck cv =
      .ok ({ tlang := x.tlang, tfields := AMap.insertAll flds (TExt.flush x ck cv).tfields }, rest) := by
  induction flds generalizing x ck cv with
  | nil =>
    simp only [AMap.tokens, List.nil_append, AMap.insertAll, List.foldl_nil]
    cases rest with
    | nil => rw [TExt.fieldLoop, ← TExt.flush_eta]
    | cons t r =>
      have h1 := hr t r rfl
      rw [TExt.fieldLoop]
      simp only [isTKeyShape_of_length (t := t) (by omega), Bool.false_eq_true, if_false, beq_iff_eq, h1,
        if_true]
      rw [← TExt.flush_eta]
  | cons kv flds ih =>
    obtain ⟨k, v⟩ := kv
    obtain ⟨hs, hall⟩ := okMap_iff.1 hm
    obtain ⟨hk, hv⟩ := hall (k, v) (by simp)
    have hm' : okMap okTKey flds = true :=
      okMap_iff.2 ⟨(AMap.sortedKeys_cons.1 hs).2, fun kv hkv => hall kv (by simp [hkv])⟩
    have hshape : isTKeyShape k = true := (okTKey_iff.1 hk).1
    have hcv : (if ck.isSome = true then [] else cv) = [] := by
      cases ck with
      | none => simpa using hck rfl
      | some _ => rfl
    simp only [AMap.tokens, List.cons_append, List.append_assoc]
    rw [TExt.fieldLoop]
    simp only [hshape, if_true, parseTKey_stored hk, hcv]
    rw [TExt.loop_values v _ _ k [] hv, List.nil_append, ih _ _ _ (by intro h; cases h) hm',
      AMap.insertAll_cons, TExt.flush_tlang]
    rfl

theorem TExt.inv_iff {x : TExt} : x.inv = true ↔
    (∀ l, x.tlang = some l → l.inv = true) ∧ okMap okTKey x.tfields = true := by
  obtain ⟨tl, tf⟩ := x
  cases tl <;> simp [TExt.inv]

/-- the subtags after the singleton `t` -/
def TExt.body (x : TExt) : List Bytes :=
  (match x.tlang with | some l => LangId.tokens l | none => []) ++ AMap.tokens x.tfields

theorem TExt.tokens_of_not_isEmpty {x : TExt} (h : x.isEmpty = false) :
    TExt.tokens x = [116] :: TExt.body x := by
  obtain ⟨tl, tf⟩ := x
  cases tl <;> simp [TExt.tokens, h, TExt.body]

theorem TExt.tokens_of_isEmpty {x : TExt} (h : x.isEmpty = true) : TExt.tokens x = [] := by
  simp [TExt.tokens, h]

theorem TExt.isEmpty_iff {x : TExt} : x.isEmpty = true ↔ x = {} := by
  obtain ⟨tl, tf⟩ := x
  cases tl <;> simp [TExt.isEmpty, List.isEmpty_iff]

/-- the text of a stored language (`und` for the empty one) is 2–8 letters and not a tkey -/
theorem Language.asStr_shape {l : Language} (h : okLanguage l = true) :
    isTKeyShape (Language.asStr l) = false ∧ (Language.asStr l).length ≠ 1 ∧
      isLanguageSubtag (Language.asStr l) = true := by
  cases l with
  | none => decide
  | some b =>
    obtain ⟨h1, _, _⟩ := okLanguage_some h
    obtain ⟨h2, h8, _, ha⟩ := isLanguage_spec h1
    show isTKeyShape b = false ∧ b.length ≠ 1 ∧ isLanguageSubtag b = true
    refine ⟨?_, by omega, ?_⟩
    · cases hs : isTKeyShape b with
      | false => rfl
      | true =>
        exfalso
        match b, hs, ha with
        | [a, c], hs, ha =>
          simp only [isTKeyShape, Bool.and_eq_true] at hs
          simp only [allAlpha, List.all_cons, Bool.and_eq_true] at ha
          have h1 := ha.2.1
          have h2 := hs.2
          unfold isAlpha isUpper isLower at h1
          unfold isDigit at h2
          simp only [Bool.or_eq_true, Bool.and_eq_true, decide_eq_true_eq] at h1 h2
          omega
    · unfold allAlpha at ha
      simp [isLanguageSubtag, any_not_eq_not_all, ha, h2, h8]

/-- the head of `tfields ++ rest` stops the language-identifier loop -/
theorem liStop_fields {flds : AMap} {rest : List Bytes} (hm : okMap okTKey flds = true)
    (hr : extStop rest) : liStop (AMap.tokens flds ++ rest) := by
  cases flds with
  | nil => simpa [AMap.tokens] using liStop_of_extStop hr
  | cons kv flds =>
    obtain ⟨k, v⟩ := kv
    obtain ⟨_, hall⟩ := okMap_iff.1 hm
    obtain ⟨hk, _⟩ := hall (k, v) (by simp)
    simp only [AMap.tokens, List.cons_append]
    exact liStop_of_isTKey _ (okTKey_iff.1 hk).1

/-- C05 for the transform extension list (the body, i.e. what follows the singleton) -/
theorem TExt.parseIter_body {x : TExt} (h : x.inv = true) (hne : x.isEmpty = false)
    (rest : List Bytes) (hr : extStop rest) :
    TExt.parseIter (TExt.body x ++ rest) = .ok (x, rest) := by
  obtain ⟨hl, hm⟩ := TExt.inv_iff.1 h
  obtain ⟨tl, tf⟩ := x
  cases tl with
  | none =>
    -- no tlang: the body starts with a tkey (the map is not empty)
    cases tf with
    | nil => simp [TExt.isEmpty] at hne
    | cons kv tf =>
      obtain ⟨k, v⟩ := kv
      obtain ⟨_, hall⟩ := okMap_iff.1 hm
      obtain ⟨hk, _⟩ := hall (k, v) (by simp)
      have hshape : isTKeyShape k = true := (okTKey_iff.1 hk).1
      have := TExt.loop_fields ((k, v) :: tf) rest {} none [] (fun _ => rfl) hm hr
      simp only [TExt.body, List.nil_append, AMap.tokens, List.cons_append, List.append_assoc] at this ⊢
      unfold TExt.parseIter
      simp only [hshape, if_true]
      rw [this]
      simp only [TExt.flush]
      rw [AMap.insertAll_sorted (okMap_iff.1 hm).1]
  | some l =>
    have hli : l.inv = true := hl l rfl
    obtain ⟨hlang, _, _, _⟩ := LangId.inv_iff.1 hli
    obtain ⟨s1, s2, s3⟩ := Language.asStr_shape hlang
    have hparse := LangId.parseIter_tokens hli (AMap.tokens tf ++ rest) (liStop_fields hm hr) true (Or.inl rfl)
    have hflds := TExt.loop_fields tf rest { tlang := some l } none [] (fun _ => rfl) hm hr
    simp only [TExt.body, List.append_assoc]
    unfold TExt.parseIter
    have hcons : LangId.tokens l ++ (AMap.tokens tf ++ rest) =
        Language.asStr l.language :: (l.script.toList ++ l.region.toList ++ l.variants.getD [] ++
          (AMap.tokens tf ++ rest)) := by
      simp [LangId.tokens]
    rw [hcons] at hparse ⊢
    simp only [s1, Bool.false_eq_true, if_false, beq_iff_eq, s2, s3, if_true, hparse, hflds]
    simp only [TExt.flush]
    rw [AMap.insertAll_sorted (okMap_iff.1 hm).1]

/-! ### `-x-` -/

theorem collectAll_stored {p : List Bytes} (h : ∀ t ∈ p, okTag t = true) :
    collectAll parsePrivate p = .ok p := by
  induction p with
  | nil => rfl
  | cons t p ih =>
    rw [collectAll, parsePrivate_stored (h t (by simp)), ih (fun x hx => h x (by simp [hx]))]

theorem PExt.inv_iff {p : PExt} : PExt.inv p = true ↔ weakSorted p = true ∧ ∀ t ∈ p, okTag t = true := by
  simp only [PExt.inv, Bool.and_eq_true, List.all_eq_true]

/-- C05 for the private-use list -/
theorem PExt.parseIter_stored {p : PExt} (h : PExt.inv p = true) : PExt.parseIter p = .ok p := by
  obtain ⟨hs, ha⟩ := PExt.inv_iff.1 h
  unfold PExt.parseIter
  rw [collectAll_stored ha]
  simp only [Res.map]
  rw [sortBytes_of_weakSorted hs]

/-! ### the dispatch loop -/

theorem extStop_ptokens (p : PExt) : extStop (PExt.tokens p) := by
  unfold PExt.tokens
  split
  · exact extStop_nil
  · exact extStop_cons _ rfl

theorem extStop_utokens (u : UExt) (more : List Bytes) (hm : extStop more) :
    extStop (UExt.tokens u ++ more) := by
  unfold UExt.tokens
  split
  · simpa using hm
  · exact extStop_cons _ rfl

theorem ExtMap.loop_priv {p : PExt} (h : PExt.inv p = true) (fuel : Nat) (hf : 1 ≤ fuel)
    (u : UExt) (x : TExt) (sU sT : Bool) :
    ExtMap.loop fuel (PExt.tokens p) { unicode := u, transform := x, priv := [] } sU sT =
      .ok { unicode := u, transform := x, priv := p } := by
  obtain ⟨fuel, rfl⟩ : ∃ f, fuel = f + 1 := ⟨fuel - 1, by omega⟩
  cases p with
  | nil => simp [PExt.tokens, ExtMap.loop]
  | cons t p =>
    have h120 : ExtType.fromByte 120 = .ok .priv := by decide
    simp only [PExt.tokens, List.isEmpty_cons, Bool.false_eq_true, if_false]
    rw [ExtMap.loop]
    simp only [List.length_cons, List.length_nil, Nat.zero_add, Nat.lt_irrefl, if_false, h120,
      PExt.parseIter_stored h]

theorem ExtMap.loop_unicode {u : UExt} {p : PExt} (hu : u.inv = true) (hp : PExt.inv p = true)
    (fuel : Nat) (hf : (UExt.tokens u ++ PExt.tokens p).length + 1 ≤ fuel) (x : TExt) (sT : Bool) :
    ExtMap.loop fuel (UExt.tokens u ++ PExt.tokens p) { unicode := {}, transform := x, priv := [] }
        false sT = .ok { unicode := u, transform := x, priv := p } := by
  cases he : u.isEmpty with
  | true =>
    rw [UExt.tokens_of_isEmpty he, List.nil_append, ExtMap.loop_priv hp fuel (by omega),
      UExt.isEmpty_iff.1 he]
  | false =>
    obtain ⟨fuel, rfl⟩ : ∃ f, fuel = f + 1 := ⟨fuel - 1, by omega⟩
    have h117 : ExtType.fromByte 117 = .ok .unicode := by decide
    rw [UExt.tokens_of_not_isEmpty he] at hf ⊢
    rw [List.cons_append, ExtMap.loop]
    simp only [List.length_cons, List.length_nil, Nat.zero_add, Nat.lt_irrefl, if_false, h117,
      Bool.false_eq_true, UExt.parseIter_body hu _ (extStop_ptokens p)]
    exact ExtMap.loop_priv hp fuel (by simp at hf; omega) u x true sT

theorem ExtMap.inv_iff {m : ExtMap} : m.inv = true ↔
    m.unicode.inv = true ∧ m.transform.inv = true ∧ PExt.inv m.priv = true := by
  simp only [ExtMap.inv, Bool.and_eq_true, and_assoc]

theorem ExtMap.loop_tokens {m : ExtMap} (h : m.inv = true) (fuel : Nat)
    (hf : (ExtMap.tokens m).length + 1 ≤ fuel) :
    ExtMap.loop fuel (ExtMap.tokens m) {} false false = .ok m := by
  obtain ⟨hu, hx, hp⟩ := ExtMap.inv_iff.1 h
  obtain ⟨u, x, p⟩ := m
  simp only at hu hx hp
  simp only [ExtMap.tokens, List.append_assoc] at hf ⊢
  cases he : x.isEmpty with
  | true =>
    rw [TExt.tokens_of_isEmpty he] at hf ⊢
    rw [List.nil_append, TExt.isEmpty_iff.1 he]
    exact ExtMap.loop_unicode hu hp fuel (by simpa using hf) {} false
  | false =>
    obtain ⟨fuel, rfl⟩ : ∃ f, fuel = f + 1 := ⟨fuel - 1, by omega⟩
    have h116 : ExtType.fromByte 116 = .ok .transform := by decide
    rw [TExt.tokens_of_not_isEmpty he] at hf ⊢
    rw [List.cons_append, ExtMap.loop]
    simp only [List.length_cons, List.length_nil, Nat.zero_add, Nat.lt_irrefl, if_false, h116,
      Bool.false_eq_true, TExt.parseIter_body hx he _ (extStop_utokens u _ (extStop_ptokens p))]
    refine ExtMap.loop_unicode hu hp fuel ?_ x true
    simp only [List.length_cons, List.length_append] at hf ⊢
    omega

/-- C05 for `ExtensionsMap`, on subtags -/
theorem ExtMap.parseIter_tokens {m : ExtMap} (h : m.inv = true) :
    ExtMap.parseIter (ExtMap.tokens m) = .ok m :=
  ExtMap.loop_tokens h _ (Nat.le_refl _)

/-! ### every printed subtag is alphanumeric -/

theorem AMap.tokens_alnum {okK : Bytes → Bool} (hK : ∀ k, okK k = true → allAlnum k = true) {m : AMap}
    (hm : okMap okK m = true) : ∀ t ∈ AMap.tokens m, allAlnum t = true := by
  induction m with
  | nil => intro t ht; cases ht
  | cons kv m ih =>
    obtain ⟨k, v⟩ := kv
    obtain ⟨hs, hall⟩ := okMap_iff.1 hm
    obtain ⟨hk, hv⟩ := hall (k, v) (by simp)
    have hm' : okMap okK m = true :=
      okMap_iff.2 ⟨(AMap.sortedKeys_cons.1 hs).2, fun kv hkv => hall kv (by simp [hkv])⟩
    intro t ht
    simp only [AMap.tokens, List.mem_cons, List.mem_append] at ht
    rcases ht with rfl | ht | ht
    · exact hK _ hk
    · exact (isAttr_spec (okType_iff.1 (hv t ht)).1).2.2
    · exact ih hm' t ht

theorem UExt.tokens_alnum {u : UExt} (h : u.inv = true) : ∀ t ∈ UExt.tokens u, allAlnum t = true := by
  obtain ⟨_, ha, hm⟩ := UExt.inv_iff.1 h
  intro t ht
  unfold UExt.tokens at ht
  split at ht
  · cases ht
  · simp only [List.mem_cons, List.mem_append] at ht
    rcases ht with rfl | ht | ht
    · decide
    · exact (isAttr_spec (okAttr_iff.1 (ha t ht)).1).2.2
    · exact AMap.tokens_alnum (fun _ => allAlnum_of_okKey) hm t ht

theorem TExt.tokens_alnum {x : TExt} (h : x.inv = true) : ∀ t ∈ TExt.tokens x, allAlnum t = true := by
  obtain ⟨hl, hm⟩ := TExt.inv_iff.1 h
  intro t ht
  unfold TExt.tokens at ht
  split at ht
  · cases ht
  · simp only [List.mem_cons, List.mem_append] at ht
    rcases ht with rfl | ht | ht
    · decide
    · cases htl : x.tlang with
      | none => rw [htl] at ht; cases ht
      | some l =>
        rw [htl] at ht
        exact LangId.tokens_alnum (hl l htl) t ht
    · exact AMap.tokens_alnum (fun _ => allAlnum_of_okTKey) hm t ht

theorem PExt.tokens_alnum {p : PExt} (h : PExt.inv p = true) : ∀ t ∈ PExt.tokens p, allAlnum t = true := by
  obtain ⟨_, ha⟩ := PExt.inv_iff.1 h
  intro t ht
  unfold PExt.tokens at ht
  split at ht
  · cases ht
  · simp only [List.mem_cons] at ht
    rcases ht with rfl | ht
    · decide
    · exact (isPrivate_spec (okTag_iff.1 (ha t ht)).1).2.2

theorem ExtMap.tokens_alnum {m : ExtMap} (h : m.inv = true) : ∀ t ∈ ExtMap.tokens m, allAlnum t = true := by
  obtain ⟨hu, hx, hp⟩ := ExtMap.inv_iff.1 h
  intro t ht
  simp only [ExtMap.tokens, List.mem_append] at ht
  rcases ht with (ht | ht) | ht
  · exact TExt.tokens_alnum hx t ht
  · exact UExt.tokens_alnum hu t ht
  · exact PExt.tokens_alnum hp t ht

/-! ### `ExtensionsMap` and `Locale` from their text -/

theorem ExtMap.tokens_nil_iff {m : ExtMap} : ExtMap.tokens m = [] → m = {} := by
  obtain ⟨u, x, p⟩ := m
  intro h
  simp only [ExtMap.tokens, List.append_eq_nil_iff] at h
  obtain ⟨⟨h1, h2⟩, h3⟩ := h
  have e1 : x = {} := by
    apply TExt.isEmpty_iff.1
    cases he : x.isEmpty with
    | true => rfl
    | false => rw [TExt.tokens_of_not_isEmpty he] at h1; cases h1
  have e2 : u = {} := by
    apply UExt.isEmpty_iff.1
    cases he : u.isEmpty with
    | true => rfl
    | false => rw [UExt.tokens_of_not_isEmpty he] at h2; cases h2
  have e3 : p = [] := by
    cases p with
    | nil => rfl
    | cons t p => simp [PExt.tokens] at h3
  subst e1; subst e2; subst e3
  rfl

/-- C05 for `ExtensionsMap` -/
theorem ExtMap.roundtrip {m : ExtMap} (h : m.inv = true) : ExtMap.fromBytes (ExtMap.display m) = .ok m := by
  unfold ExtMap.fromBytes ExtMap.display
  cases ht : ExtMap.tokens m with
  | nil =>
    rw [ExtMap.tokens_nil_iff ht]
    rfl
  | cons t ts =>
    rw [← ht, splitSep_dashAll (by rw [ht]; simp)
      (fun s hs => sepFree_of_allAlnum (ExtMap.tokens_alnum h s hs))]
    unfold ExtMap.parseIter
    rw [List.length_cons, ExtMap.loop]
    simp only [List.length_nil, Nat.not_lt_zero, if_false]
    exact ExtMap.loop_tokens h _ (Nat.le_refl _)

theorem extStop_exttokens (m : ExtMap) : extStop (ExtMap.tokens m) := by
  unfold ExtMap.tokens
  rw [List.append_assoc]
  unfold TExt.tokens
  split
  · simpa using extStop_utokens _ _ (extStop_ptokens _)
  · exact extStop_cons _ rfl

theorem Locale.inv_iff {x : Locale} : x.inv = true ↔ x.id.inv = true ∧ x.ext.inv = true := by
  simp only [Locale.inv, Bool.and_eq_true]

/-- C05 for `Locale`, on subtags -/
theorem Locale.parse_tokens {x : Locale} (h : x.inv = true) : Locale.parse (Locale.tokens x) = .ok x := by
  obtain ⟨hi, he⟩ := Locale.inv_iff.1 h
  unfold Locale.parse Locale.tokens
  rw [LangId.parseIter_tokens hi _ (liStop_of_extStop (extStop_exttokens _)) true (Or.inl rfl)]
  simp only [ExtMap.parseIter_tokens he]

theorem Locale.display_eq (x : Locale) : Locale.display x = join (Locale.tokens x) := by
  unfold Locale.display Locale.tokens LangId.display ExtMap.display
  rw [join_append (LangId.tokens_ne_nil _)]

/-- C05 for `Locale` -/
theorem Locale.roundtrip {x : Locale} (h : x.inv = true) : Locale.fromBytes (Locale.display x) = .ok x := by
  obtain ⟨hi, he⟩ := Locale.inv_iff.1 h
  unfold Locale.fromBytes
  rw [Locale.display_eq, splitSep_join]
  · exact Locale.parse_tokens h
  · simp [Locale.tokens, LangId.tokens]
  · intro s hs
    simp only [Locale.tokens, List.mem_append] at hs
    rcases hs with hs | hs
    · exact sepFree_of_allAlnum (LangId.tokens_alnum hi s hs)
    · exact sepFree_of_allAlnum (ExtMap.tokens_alnum he s hs)

end UL.RT
