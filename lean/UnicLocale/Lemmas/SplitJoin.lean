/-
  Lemmas/SplitJoin.lean — `splitSep` undoes `join` / `dashAll` on separator-free tokens.
  (Every token the model prints is alphanumeric, hence separator-free.)
-/
import UnicLocale.Lemmas.Ascii

namespace UL.RT
open UL

/-- no byte of the token is `-` or `_` -/
def sepFree (t : Bytes) : Bool := t.all (fun b => !isSep b)

theorem not_isSep_of_isAlnum {b : Nat} (h : isAlnum b = true) : isSep b = false := by
  unfold isAlnum isAlpha isUpper isLower isDigit at h
  unfold isSep
  simp only [Bool.or_eq_true, Bool.and_eq_true, decide_eq_true_eq] at h
  simp only [Bool.or_eq_false_iff, beq_eq_false_iff_ne, ne_eq]
  omega

theorem sepFree_of_allAlnum {t : Bytes} (h : allAlnum t = true) : sepFree t = true := by
  unfold allAlnum at h
  unfold sepFree
  rw [List.all_eq_true] at h ⊢
  intro b hb
  rw [not_isSep_of_isAlnum (h b hb)]
  rfl

theorem sepFree_cons {b : Nat} {t : Bytes} :
    sepFree (b :: t) = true ↔ isSep b = false ∧ sepFree t = true := by
  simp [sepFree]

/-- a separator-free token followed by `-` is split off as one subtag -/
theorem splitSep_append_dash {t : Bytes} (h : sepFree t = true) (rest : Bytes) :
    splitSep (t ++ 45 :: rest) = t :: splitSep rest := by
  induction t with
  | nil => simp [splitSep, isSep]
  | cons b t ih =>
    obtain ⟨hb, ht⟩ := sepFree_cons.1 h
    rw [List.cons_append, splitSep, ih ht]
    simp [hb]

/-- the same for the other separator `_` -/
theorem splitSep_append_underscore {t : Bytes} (h : sepFree t = true) (rest : Bytes) :
    splitSep (t ++ 95 :: rest) = t :: splitSep rest := by
  induction t with
  | nil => simp [splitSep, isSep]
  | cons b t ih =>
    obtain ⟨hb, ht⟩ := sepFree_cons.1 h
    rw [List.cons_append, splitSep, ih ht]
    simp [hb]

/-- a separator-free byte string is a single subtag -/
theorem splitSep_sepFree {t : Bytes} (h : sepFree t = true) : splitSep t = [t] := by
  induction t with
  | nil => rfl
  | cons b t ih =>
    obtain ⟨hb, ht⟩ := sepFree_cons.1 h
    rw [splitSep, ih ht]
    simp [hb]

theorem splitSep_append_dashAll {t : Bytes} {ts : List Bytes} (ht : sepFree t = true)
    (hts : ∀ s ∈ ts, sepFree s = true) : splitSep (t ++ dashAll ts) = t :: ts := by
  induction ts generalizing t with
  | nil => simpa [dashAll] using splitSep_sepFree ht
  | cons s ts ih =>
    rw [dashAll, splitSep_append_dash ht, ih (hts s (by simp)) (fun x hx => hts x (by simp [hx]))]

/-- `split ∘ join = id` on non-empty lists of separator-free tokens -/
theorem splitSep_join {ts : List Bytes} (hne : ts ≠ []) (hts : ∀ s ∈ ts, sepFree s = true) :
    splitSep (join ts) = ts := by
  cases ts with
  | nil => exact absurd rfl hne
  | cons t ts =>
    rw [join]
    exact splitSep_append_dashAll (hts t (by simp)) (fun x hx => hts x (by simp [hx]))

/-- the leading `-` of `dashAll` yields one leading empty subtag -/
theorem splitSep_dashAll {ts : List Bytes} (hne : ts ≠ []) (hts : ∀ s ∈ ts, sepFree s = true) :
    splitSep (dashAll ts) = [] :: ts := by
  cases ts with
  | nil => exact absurd rfl hne
  | cons t ts =>
    rw [dashAll, splitSep]
    simp only [isSep, beq_self_eq_true, Bool.true_or, if_true]
    rw [splitSep_append_dashAll (hts t (by simp)) (fun x hx => hts x (by simp [hx]))]

theorem splitSep_dashAll_nil : splitSep (dashAll []) = [[]] := rfl

/-- `join (a ++ b) = join a ++ dashAll b` for a non-empty `a` -/
theorem dashAll_append (a b : List Bytes) : dashAll (a ++ b) = dashAll a ++ dashAll b := by
  induction a with
  | nil => rfl
  | cons t a ih => simp [dashAll, ih]

theorem join_append {a : List Bytes} (hne : a ≠ []) (b : List Bytes) :
    join (a ++ b) = join a ++ dashAll b := by
  cases a with
  | nil => exact absurd rfl hne
  | cons t a => simp [join, dashAll_append]

-- non-vacuity: "en-US" = join ["en", "US"]
example : splitSep (join [[101, 110], [85, 83]]) = [[101, 110], [85, 83]] := by decide
example : splitSep (dashAll [[117], [99, 97]]) = [[], [117], [99, 97]] := by decide
example : ∀ s ∈ [[101, 110], [85, 83]], sepFree s = true := by decide

end UL.RT
