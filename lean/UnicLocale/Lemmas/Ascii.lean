/-
  Lemmas/Ascii.lean — per-byte class facts and the subtag constructors' exactness lemmas.
-/
import UnicLocale.Model.Subtags
import UnicLocale.Spec.Grammar

namespace UL

theorem isAlpha_range {b : Nat} (h : isAlpha b = true) : 1 ≤ b ∧ b ≤ 127 := by
  unfold isAlpha isUpper isLower at h
  simp only [Bool.or_eq_true, Bool.and_eq_true, decide_eq_true_eq] at h
  omega

theorem isDigit_range {b : Nat} (h : isDigit b = true) : 1 ≤ b ∧ b ≤ 127 := by
  unfold isDigit at h
  simp only [Bool.and_eq_true, decide_eq_true_eq] at h
  omega

theorem isAlnum_range {b : Nat} (h : isAlnum b = true) : 1 ≤ b ∧ b ≤ 127 := by
  unfold isAlnum at h
  simp only [Bool.or_eq_true] at h
  cases h with
  | inl h => exact isAlpha_range h
  | inr h => exact isDigit_range h

theorem tinyOk_of_all {p : Nat → Bool} (hp : ∀ b, p b = true → 1 ≤ b ∧ b ≤ 127)
    {n : Nat} {s : Bytes} (hl : s.length ≤ n) (h : s.all p = true) : tinyOk n s = true := by
  unfold tinyOk
  simp only [Bool.and_eq_true, decide_eq_true_eq, List.all_eq_true] at *
  refine ⟨hl, ?_⟩
  intro b hb
  have := hp b (h b hb)
  omega

theorem tinyOk_of_allAlpha {n : Nat} {s : Bytes} (hl : s.length ≤ n) (h : allAlpha s = true) :
    tinyOk n s = true := tinyOk_of_all (fun _ => isAlpha_range) hl h
theorem tinyOk_of_allDigit {n : Nat} {s : Bytes} (hl : s.length ≤ n) (h : allDigit s = true) :
    tinyOk n s = true := tinyOk_of_all (fun _ => isDigit_range) hl h
theorem tinyOk_of_allAlnum {n : Nat} {s : Bytes} (hl : s.length ≤ n) (h : allAlnum s = true) :
    tinyOk n s = true := tinyOk_of_all (fun _ => isAlnum_range) hl h

theorem any_not_eq_not_all (p : Nat → Bool) (s : Bytes) : s.any (fun c => !p c) = !s.all p := by
  induction s with
  | nil => rfl
  | cons a t ih => simp [List.any_cons, List.all_cons, ih, Bool.not_and]

/-! ### per-byte case-map facts -/

@[simp] theorem isAlpha_toLower (b : Nat) : isAlpha (toLower b) = isAlpha b := by
  rw [Bool.eq_iff_iff]
  simp only [toLower, isAlpha, isUpper, isLower, Bool.or_eq_true, Bool.and_eq_true, decide_eq_true_eq]
  split <;> omega
@[simp] theorem isDigit_toLower (b : Nat) : isDigit (toLower b) = isDigit b := by
  rw [Bool.eq_iff_iff]
  simp only [toLower, isDigit, isUpper, Bool.and_eq_true, decide_eq_true_eq]
  split <;> omega
@[simp] theorem isAlpha_toUpper (b : Nat) : isAlpha (toUpper b) = isAlpha b := by
  rw [Bool.eq_iff_iff]
  simp only [toUpper, isAlpha, isUpper, isLower, Bool.or_eq_true, Bool.and_eq_true, decide_eq_true_eq]
  split <;> omega
@[simp] theorem isDigit_toUpper (b : Nat) : isDigit (toUpper b) = isDigit b := by
  rw [Bool.eq_iff_iff]
  simp only [toUpper, isDigit, isLower, Bool.and_eq_true, decide_eq_true_eq]
  split <;> omega
@[simp] theorem isAlnum_toLower (b : Nat) : isAlnum (toLower b) = isAlnum b := by
  unfold isAlnum; rw [isAlpha_toLower, isDigit_toLower]
@[simp] theorem isAlnum_toUpper (b : Nat) : isAlnum (toUpper b) = isAlnum b := by
  unfold isAlnum; rw [isAlpha_toUpper, isDigit_toUpper]
@[simp] theorem toLower_toLower (b : Nat) : toLower (toLower b) = toLower b := by
  simp only [toLower, isUpper, Bool.and_eq_true, decide_eq_true_eq]
  split <;> (try split) <;> omega
@[simp] theorem toUpper_toUpper (b : Nat) : toUpper (toUpper b) = toUpper b := by
  simp only [toUpper, isLower, Bool.and_eq_true, decide_eq_true_eq]
  split <;> (try split) <;> omega
theorem toUpper_of_isDigit {b : Nat} (h : isDigit b = true) : toUpper b = b := by
  simp only [isDigit, Bool.and_eq_true, decide_eq_true_eq] at h
  simp only [toUpper, isLower, Bool.and_eq_true, decide_eq_true_eq]
  split <;> omega

/-! ### lifted to byte strings -/

theorem all_map_of_inv {p : Nat → Bool} {f : Nat → Nat} (h : ∀ b, p (f b) = p b) (s : Bytes) :
    (s.map f).all p = s.all p := by
  induction s with
  | nil => rfl
  | cons a t ih => simp only [List.map_cons, List.all_cons, ih, h]

@[simp] theorem length_lower (s : Bytes) : (lower s).length = s.length := by simp [lower]
@[simp] theorem length_upper (s : Bytes) : (upper s).length = s.length := by simp [upper]
@[simp] theorem length_title (s : Bytes) : (title s).length = s.length := by
  cases s <;> simp [title]

@[simp] theorem lower_lower (s : Bytes) : lower (lower s) = lower s := by
  simp [lower, List.map_map]
@[simp] theorem upper_upper (s : Bytes) : upper (upper s) = upper s := by
  simp [upper, List.map_map]
@[simp] theorem title_title (s : Bytes) : title (title s) = title s := by
  cases s <;> simp [title]

@[simp] theorem all_isAlpha_lower (s : Bytes) : (lower s).all isAlpha = s.all isAlpha :=
  all_map_of_inv isAlpha_toLower s
@[simp] theorem all_isDigit_lower (s : Bytes) : (lower s).all isDigit = s.all isDigit :=
  all_map_of_inv isDigit_toLower s
@[simp] theorem all_isAlnum_lower (s : Bytes) : (lower s).all isAlnum = s.all isAlnum :=
  all_map_of_inv isAlnum_toLower s
@[simp] theorem all_isAlpha_upper (s : Bytes) : (upper s).all isAlpha = s.all isAlpha :=
  all_map_of_inv isAlpha_toUpper s
@[simp] theorem all_isDigit_upper (s : Bytes) : (upper s).all isDigit = s.all isDigit :=
  all_map_of_inv isDigit_toUpper s
@[simp] theorem all_isAlnum_upper (s : Bytes) : (upper s).all isAlnum = s.all isAlnum :=
  all_map_of_inv isAlnum_toUpper s
@[simp] theorem all_isAlpha_title (s : Bytes) : (title s).all isAlpha = s.all isAlpha := by
  cases s <;> simp [title]

@[simp] theorem allAlpha_lower (s : Bytes) : allAlpha (lower s) = allAlpha s := all_isAlpha_lower s
@[simp] theorem allAlnum_lower (s : Bytes) : allAlnum (lower s) = allAlnum s := all_isAlnum_lower s
@[simp] theorem allAlpha_upper (s : Bytes) : allAlpha (upper s) = allAlpha s := all_isAlpha_upper s
@[simp] theorem allDigit_upper (s : Bytes) : allDigit (upper s) = allDigit s := all_isDigit_upper s
@[simp] theorem allAlpha_title (s : Bytes) : allAlpha (title s) = allAlpha s := all_isAlpha_title s

theorem upper_of_allDigit {s : Bytes} (h : allDigit s = true) : upper s = s := by
  unfold allDigit at h
  induction s with
  | nil => rfl
  | cons a t ih =>
    simp only [List.all_cons, Bool.and_eq_true] at h
    simp only [upper, List.map_cons] at ih ⊢
    rw [toUpper_of_isDigit h.1, ih h.2]

/-! ### the grammar predicates are invariant under the case map each constructor applies -/

theorem rep_lower {p : Nat → Bool} (h : ∀ b, p (toLower b) = p b) (lo hi : Nat) (s : Bytes) :
    Spec.rep p lo hi (lower s) = Spec.rep p lo hi s := by
  unfold Spec.rep; rw [length_lower]; unfold lower; rw [all_map_of_inv h]
theorem rep_upper {p : Nat → Bool} (h : ∀ b, p (toUpper b) = p b) (lo hi : Nat) (s : Bytes) :
    Spec.rep p lo hi (upper s) = Spec.rep p lo hi s := by
  unfold Spec.rep; rw [length_upper]; unfold upper; rw [all_map_of_inv h]

@[simp] theorem isLanguage_lower (s : Bytes) : Spec.isLanguage (lower s) = Spec.isLanguage s := by
  unfold Spec.isLanguage; rw [rep_lower isAlpha_toLower, rep_lower isAlpha_toLower]
@[simp] theorem isScript_title (s : Bytes) : Spec.isScript (title s) = Spec.isScript s := by
  unfold Spec.isScript Spec.rep; rw [length_title, all_isAlpha_title]
@[simp] theorem isRegion_upper (s : Bytes) : Spec.isRegion (upper s) = Spec.isRegion s := by
  unfold Spec.isRegion; rw [rep_upper isAlpha_toUpper, rep_upper isDigit_toUpper]
@[simp] theorem isVariant_lower (s : Bytes) : Spec.isVariant (lower s) = Spec.isVariant s := by
  unfold Spec.isVariant; rw [rep_lower isAlnum_toLower]
  cases s with
  | nil => rfl
  | cons d r =>
    show (_ || (isDigit (toLower d) && Spec.rep isAlnum 3 3 (lower r))) = _
    rw [isDigit_toLower, rep_lower isAlnum_toLower]
@[simp] theorem canonLanguage_lower (s : Bytes) : Spec.canonLanguage (lower s) = Spec.canonLanguage s := by
  unfold Spec.canonLanguage; rw [lower_lower]

/-! ### what each production says about lengths and byte classes -/

theorem isLanguage_spec {s : Bytes} (h : Spec.isLanguage s = true) :
    2 ≤ s.length ∧ s.length ≤ 8 ∧ s.length ≠ 4 ∧ allAlpha s = true := by
  simp only [Spec.isLanguage, Spec.rep, Bool.or_eq_true, Bool.and_eq_true, decide_eq_true_eq] at h
  unfold allAlpha
  rcases h with ⟨⟨_, _⟩, h⟩ | ⟨⟨_, _⟩, h⟩ <;> refine ⟨?_, ?_, ?_, h⟩ <;> omega
theorem isScript_spec {s : Bytes} (h : Spec.isScript s = true) : s.length = 4 ∧ allAlpha s = true := by
  simp only [Spec.isScript, Spec.rep, Bool.and_eq_true, decide_eq_true_eq] at h
  exact ⟨by omega, h.2⟩
theorem isRegion_spec {s : Bytes} (h : Spec.isRegion s = true) :
    2 ≤ s.length ∧ s.length ≤ 3 ∧ allAlnum s = true := by
  simp only [Spec.isRegion, Spec.rep, Bool.or_eq_true, Bool.and_eq_true, decide_eq_true_eq] at h
  unfold allAlnum
  rcases h with ⟨⟨_, _⟩, h⟩ | ⟨⟨_, _⟩, h⟩ <;> refine ⟨by omega, by omega, ?_⟩ <;>
    simp only [List.all_eq_true] at h ⊢ <;> intro b hb <;> simp [isAlnum, h b hb]
theorem isVariant_spec {s : Bytes} (h : Spec.isVariant s = true) :
    4 ≤ s.length ∧ s.length ≤ 8 ∧ allAlnum s = true := by
  unfold Spec.isVariant at h
  rw [Bool.or_eq_true] at h
  rcases h with h | h
  · simp only [Spec.rep, Bool.and_eq_true, decide_eq_true_eq] at h
    exact ⟨by omega, by omega, h.2⟩
  · cases s with
    | nil => simp at h
    | cons d r =>
      simp only [Spec.rep, Bool.and_eq_true, decide_eq_true_eq] at h
      refine ⟨by simp only [List.length_cons]; omega, by simp only [List.length_cons]; omega, ?_⟩
      simp only [allAlnum, List.all_cons, Bool.and_eq_true]
      exact ⟨by simp [isAlnum, h.1], h.2.2⟩

theorem isVariant_len4 {d : Nat} {r : Bytes} (h : (d :: r).length = 4) :
    Spec.isVariant (d :: r) = (isDigit d && r.all isAlnum) := by
  simp only [List.length_cons] at h
  have h3 : r.length = 3 := by omega
  simp [Spec.isVariant, Spec.rep, h3]

theorem isVariant_len_ne4 {v : Bytes} (h : v.length ≠ 4) :
    Spec.isVariant v = (decide (5 ≤ v.length) && decide (v.length ≤ 8) && allAlnum v) := by
  cases v with
  | nil => simp [Spec.isVariant, Spec.rep]
  | cons d r =>
    simp only [List.length_cons] at h
    have h3 : (decide (3 ≤ r.length) && decide (r.length ≤ 3)) = false := by
      simp; omega
    simp [Spec.isVariant, Spec.rep, h3, allAlnum]

theorem mem_range_of_all {p : Nat → Bool} (hp : ∀ b, p b = true → 1 ≤ b ∧ b ≤ 127)
    {s : Bytes} (h : s.all p = true) : ∀ b ∈ s, 1 ≤ b ∧ b ≤ 127 := by
  rw [List.all_eq_true] at h
  exact fun b hb => hp b (h b hb)

end UL
