/-
  Lemmas/BinSearchA.lean — contract of the array binary search `lookupBy` / `bsLoopA`
  (the toolchain's size-halving loop, fuel = size) used by `likelysubtags::maximize`:
  on a strictly sorted table it returns exactly what a linear search for the key returns.
  (C06, C18)
-/
import UnicLocale.Model.Likely
import UnicLocale.Spec.TablesWF

namespace UL

/-! ### facts that need no sortedness -/

theorem lookupBy_some {α} {a : Array α} {cmp : α → Nat} {x : α} (h : lookupBy a cmp = some x) :
    x ∈ a.toList ∧ cmp x = 1 := by
  unfold lookupBy at h
  split at h
  · cases h
  · simp only at h
    split at h
    · rename_i y hy
      split at h
      · rename_i h1
        cases h
        refine ⟨?_, by simpa using h1⟩
        have := Array.mem_of_getElem? hy
        exact Array.mem_toList_iff.2 this
      · cases h
    · cases h

theorem lookupBy_empty {α} (cmp : α → Nat) : lookupBy (#[] : Array α) cmp = none := rfl

/-! ### the abstract order condition

`cmp x` is the ordering of the probe against the key: `0` Less, `1` Equal, `2` Greater.  The table
is sorted for `cmp` when after an Equal or Greater element only Greater elements follow. -/

def CmpSorted {α} (cmp : α → Nat) (l : List α) : Prop :=
  l.Pairwise (fun x y => (cmp x = 1 ∨ cmp x = 2) → cmp y = 2)

theorem CmpSorted.getElem? {α} {cmp : α → Nat} {a : Array α} (hs : CmpSorted cmp a.toList)
    {i j : Nat} {x y : α} (hij : i < j) (hi : a[i]? = some x) (hj : a[j]? = some y)
    (hx : cmp x = 1 ∨ cmp x = 2) : cmp y = 2 := by
  unfold CmpSorted at hs
  rw [List.pairwise_iff_getElem] at hs
  rw [← Array.getElem?_toList] at hi hj
  obtain ⟨hi', rfl⟩ := List.getElem?_eq_some_iff.1 hi
  obtain ⟨hj', rfl⟩ := List.getElem?_eq_some_iff.1 hj
  exact hs i j hi' hj' hij hx

/-- the loop invariant of the size-halving binary search, and what it gives at exit -/
theorem bsLoopA_spec {α} {a : Array α} {cmp : α → Nat} (hs : CmpSorted cmp a.toList) :
    ∀ (fuel base size : Nat), 1 ≤ size → size ≤ fuel → base + size ≤ a.size →
      (base = 0 ∨ ∃ x, a[base]? = some x ∧ cmp x ≠ 2) →
      (∀ j x, base + size ≤ j → a[j]? = some x → cmp x = 2) →
      bsLoopA a (fun x => cmp x == 2) fuel base size < a.size ∧
      (bsLoopA a (fun x => cmp x == 2) fuel base size = 0 ∨
        ∃ x, a[bsLoopA a (fun x => cmp x == 2) fuel base size]? = some x ∧ cmp x ≠ 2) ∧
      (∀ j x, bsLoopA a (fun x => cmp x == 2) fuel base size + 1 ≤ j → a[j]? = some x → cmp x = 2) := by
  intro fuel
  induction fuel with
  | zero => intro base size h1 h2; omega
  | succ fuel ih =>
    intro base size h1 hf hb hlo hhi
    unfold bsLoopA
    by_cases hsz : size > 1
    · simp only [hsz, if_true]
      have hmid : base + size / 2 < a.size := by omega
      rw [Array.getElem?_eq_getElem hmid]
      simp only
      by_cases hgt : (cmp a[base + size / 2] == 2) = true
      · simp only [hgt, if_true]
        apply ih base (size - size / 2) (by omega) (by omega) (by omega) hlo
        intro j x hj hx
        have h2 : cmp a[base + size / 2] = 2 := by simpa using hgt
        rcases Nat.lt_or_eq_of_le (show base + size / 2 ≤ j by omega) with hlt | heq
        · exact hs.getElem? hlt (Array.getElem?_eq_getElem hmid) hx (Or.inr h2)
        · subst heq
          rw [Array.getElem?_eq_getElem hmid] at hx
          cases hx
          exact h2
      · simp only [hgt]
        apply ih (base + size / 2) (size - size / 2) (by omega) (by omega) (by omega)
        · right
          refine ⟨_, Array.getElem?_eq_getElem hmid, ?_⟩
          simpa using hgt
        · intro j x hj hx
          exact hhi j x (by omega) hx
    · have : size = 1 := by omega
      subst this
      simp only [hsz, if_false]
      exact ⟨by omega, hlo, hhi⟩

theorem find?_eq_some_of_first {α} (p : α → Bool) :
    ∀ (l : List α) (r : Nat) (x : α), l[r]? = some x → p x = true →
      (∀ i y, i < r → l[i]? = some y → p y = false) → l.find? p = some x := by
  intro l
  induction l with
  | nil => intro r x h; simp at h
  | cons z zs ih =>
    intro r x h hp hlt
    cases r with
    | zero =>
      simp at h
      subst h
      simp [List.find?, hp]
    | succ r =>
      have hz : p z = false := hlt 0 z (by omega) (by simp)
      simp only [List.find?, hz]
      apply ih r x (by simpa using h) hp
      intro i y hi hy
      exact hlt (i + 1) y (by omega) (by simpa using hy)

/-- binary search on a `cmp`-sorted array = linear search for the (first) Equal element -/
theorem lookupBy_eq_find? {α} (a : Array α) (cmp : α → Nat) (hs : CmpSorted cmp a.toList) :
    lookupBy a cmp = a.toList.find? (fun x => cmp x == 1) := by
  unfold lookupBy
  split
  · rename_i h0
    have : a.toList = [] := by
      have : a.size = 0 := by simpa using h0
      exact List.eq_nil_of_length_eq_zero (by simpa using this)
    rw [this]; rfl
  · rename_i h0
    have hlen : 1 ≤ a.size := by
      have : a.size ≠ 0 := by simpa using h0
      omega
    simp only
    obtain ⟨hr, hlo, hhi⟩ := bsLoopA_spec hs a.size 0 a.size hlen (Nat.le_refl _) (by omega) (Or.inl rfl)
      (by
        intro j x hj hx
        have := (Array.getElem?_eq_some_iff.1 hx).1
        omega)
    generalize bsLoopA a (fun x => cmp x == 2) a.size 0 a.size = r at *
    rw [Array.getElem?_eq_getElem hr]
    simp only
    have hrx : a[r]? = some a[r] := Array.getElem?_eq_getElem hr
    split
    · rename_i h1
      symm
      apply find?_eq_some_of_first _ a.toList r a[r] (by rw [Array.getElem?_toList]; exact hrx) h1
      intro i y hi hy
      rw [Array.getElem?_toList] at hy
      have h1' : cmp a[r] = 1 := by simpa using h1
      cases hc : cmp y == 1 with
      | false => rfl
      | true =>
        have := hs.getElem? hi hy hrx (Or.inl (by simpa using hc))
        omega
    · rename_i h1
      symm
      rw [List.find?_eq_none]
      intro y hy
      obtain ⟨j, hj⟩ := List.mem_iff_getElem?.1 hy
      rw [Array.getElem?_toList] at hj
      intro hc
      have hc' : cmp y = 1 := by simpa using hc
      rcases Nat.lt_trichotomy j r with hlt | heq | hgt
      · have h2 : cmp a[r] = 2 := hs.getElem? hlt hj hrx (Or.inl hc')
        rcases hlo with e | ⟨x, hx, hne⟩
        · omega
        · rw [hrx] at hx; cases hx; exact hne h2
      · subst heq
        rw [hrx] at hj; cases hj
        exact h1 hc
      · have := hhi j y (by omega) hj
        omega

/-! ### the two instances used by the tables -/

theorem cmpNat_eq_one {k x : Nat} : cmpNat k x = 1 ↔ x = k := by
  unfold cmpNat
  by_cases h : x = k
  · simp [h]
  · by_cases h2 : x < k <;> simp [h, h2]

theorem cmpNat_eq_two {k x : Nat} : cmpNat k x = 2 ↔ k < x := by
  unfold cmpNat
  by_cases h : x = k
  · subst h; simp
  · by_cases h2 : x < k
    · simp only [beq_iff_eq, h, if_false, h2, if_true]; omega
    · simp only [beq_iff_eq, h, if_false, h2, true_iff]; omega

theorem cmpPair_eq_one {k1 k2 x1 x2 : Nat} : cmpPair k1 k2 x1 x2 = 1 ↔ x1 = k1 ∧ x2 = k2 := by
  unfold cmpPair
  by_cases h : x1 = k1
  · simp [h, cmpNat_eq_one]
  · by_cases h2 : x1 < k1 <;> simp [h, h2]

theorem cmpPair_eq_two {k1 k2 x1 x2 : Nat} :
    cmpPair k1 k2 x1 x2 = 2 ↔ k1 < x1 ∨ (k1 = x1 ∧ k2 < x2) := by
  unfold cmpPair
  by_cases h : x1 = k1
  · subst h; simp [cmpNat_eq_two]
  · by_cases h2 : x1 < k1
    · simp only [beq_iff_eq, h, if_false, h2, if_true]; omega
    · simp only [beq_iff_eq, h, if_false, h2, true_iff]; omega

theorem sorted1_iff_pairwise {l : List Row1} : sorted1 l = true ↔ l.Pairwise (fun a b => a.k < b.k) := by
  induction l with
  | nil => simp [sorted1]
  | cons x xs ih =>
    cases xs with
    | nil => simp [sorted1]
    | cons y r =>
      rw [sorted1, Bool.and_eq_true, ih, List.pairwise_cons (a := x), decide_eq_true_eq]
      constructor
      · rintro ⟨hxy, hp⟩
        refine ⟨?_, hp⟩
        intro z hz
        rcases List.mem_cons.1 hz with rfl | hz
        · exact hxy
        · exact Nat.lt_trans hxy ((List.pairwise_cons.1 hp).1 z hz)
      · rintro ⟨h, hp⟩
        exact ⟨h y (List.mem_cons_self ..), hp⟩

theorem lt2_iff {a b : Row2} : Spec.lt2 a b = true ↔ a.k1 < b.k1 ∨ (a.k1 = b.k1 ∧ a.k2 < b.k2) := by
  simp [Spec.lt2]

theorem lt2_trans {a b c : Row2} (h1 : Spec.lt2 a b = true) (h2 : Spec.lt2 b c = true) :
    Spec.lt2 a c = true := by
  rw [lt2_iff] at *; omega

theorem sorted2_iff_pairwise {l : List Row2} :
    sorted2 l = true ↔ l.Pairwise (fun a b => Spec.lt2 a b = true) := by
  induction l with
  | nil => simp [sorted2]
  | cons x xs ih =>
    cases xs with
    | nil => simp [sorted2]
    | cons y r =>
      rw [sorted2, Bool.and_eq_true, ih, List.pairwise_cons (a := x)]
      constructor
      · rintro ⟨hxy, hp⟩
        refine ⟨?_, hp⟩
        intro z hz
        rcases List.mem_cons.1 hz with rfl | hz
        · exact hxy
        · exact lt2_trans hxy ((List.pairwise_cons.1 hp).1 z hz)
      · rintro ⟨h, hp⟩
        exact ⟨h y (List.mem_cons_self ..), hp⟩

theorem cmpSorted_of_sorted1 {l : List Row1} (k : Nat) (h : sorted1 l = true) :
    CmpSorted (fun row => cmpNat k row.k) l := by
  rw [sorted1_iff_pairwise] at h
  unfold CmpSorted
  refine h.imp ?_
  intro a b hab
  simp only [cmpNat_eq_one, cmpNat_eq_two]
  omega

theorem cmpSorted_of_sorted2 {l : List Row2} (k1 k2 : Nat) (h : sorted2 l = true) :
    CmpSorted (fun row => cmpPair k1 k2 row.k1 row.k2) l := by
  rw [sorted2_iff_pairwise] at h
  unfold CmpSorted
  refine h.imp ?_
  intro a b hab
  rw [lt2_iff] at hab
  simp only [cmpPair_eq_one, cmpPair_eq_two]
  omega

/-- `binary_search_by_key(&k, |row| row.k)` on a strictly sorted one-key table is the linear search -/
theorem lookup1_eq_find? (a : Array Row1) (k : Nat) (h : sorted1 a.toList = true) :
    lookup1 a k = a.toList.find? (fun row => row.k == k) := by
  unfold lookup1
  rw [lookupBy_eq_find? a _ (cmpSorted_of_sorted1 k h)]
  congr 1
  funext row
  rw [Bool.eq_iff_iff]
  simp [cmpNat_eq_one]

/-- the same for the two-key tables -/
theorem lookup2_eq_find? (a : Array Row2) (k1 k2 : Nat) (h : sorted2 a.toList = true) :
    lookup2 a k1 k2 = a.toList.find? (fun row => row.k1 == k1 && row.k2 == k2) := by
  unfold lookup2
  rw [lookupBy_eq_find? a _ (cmpSorted_of_sorted2 k1 k2 h)]
  congr 1
  funext row
  rw [Bool.eq_iff_iff]
  simp [cmpPair_eq_one]

theorem lookup1_some {a : Array Row1} {k : Nat} {row : Row1} (h : lookup1 a k = some row) :
    row ∈ a.toList ∧ row.k = k := by
  obtain ⟨hm, hc⟩ := lookupBy_some h
  exact ⟨hm, cmpNat_eq_one.1 hc⟩

theorem lookup2_some {a : Array Row2} {k1 k2 : Nat} {row : Row2} (h : lookup2 a k1 k2 = some row) :
    row ∈ a.toList ∧ row.k1 = k1 ∧ row.k2 = k2 := by
  obtain ⟨hm, hc⟩ := lookupBy_some h
  exact ⟨hm, cmpPair_eq_one.1 hc⟩

/-- every row of a strictly sorted table is reachable: looking up its key returns that row -/
theorem lookup1_row {a : Array Row1} (h : sorted1 a.toList = true) {row : Row1} (hm : row ∈ a.toList) :
    lookup1 a row.k = some row := by
  rw [lookup1_eq_find? a _ h]
  have hp := sorted1_iff_pairwise.1 h
  obtain ⟨i, hi⟩ := List.mem_iff_getElem?.1 hm
  apply find?_eq_some_of_first _ _ i row hi (by simp)
  intro j y hj hy
  rw [List.pairwise_iff_getElem] at hp
  obtain ⟨hi', rfl⟩ := List.getElem?_eq_some_iff.1 hi
  obtain ⟨hj', rfl⟩ := List.getElem?_eq_some_iff.1 hy
  have := hp j i hj' hi' hj
  simp only [beq_eq_false_iff_ne, ne_eq]
  omega

theorem lookup2_row {a : Array Row2} (h : sorted2 a.toList = true) {row : Row2} (hm : row ∈ a.toList) :
    lookup2 a row.k1 row.k2 = some row := by
  rw [lookup2_eq_find? a _ _ h]
  have hp := sorted2_iff_pairwise.1 h
  obtain ⟨i, hi⟩ := List.mem_iff_getElem?.1 hm
  apply find?_eq_some_of_first _ _ i row hi (by simp)
  intro j y hj hy
  rw [List.pairwise_iff_getElem] at hp
  obtain ⟨hi', rfl⟩ := List.getElem?_eq_some_iff.1 hi
  obtain ⟨hj', rfl⟩ := List.getElem?_eq_some_iff.1 hy
  have := lt2_iff.1 (hp j i hj' hi' hj)
  simp only [Bool.and_eq_false_iff, beq_eq_false_iff_ne, ne_eq]
  omega

/-! non-vacuity -/
example : sorted1 (#[⟨3, 1, 1, 1⟩, ⟨7, 2, 2, 2⟩, ⟨9, 3, 3, 3⟩] : Array Row1).toList = true := by decide
example : lookup1 (#[⟨3, 1, 1, 1⟩, ⟨7, 2, 2, 2⟩, ⟨9, 3, 3, 3⟩] : Array Row1) 7 = some ⟨7, 2, 2, 2⟩ := by decide
example : lookup1 (#[⟨3, 1, 1, 1⟩, ⟨7, 2, 2, 2⟩, ⟨9, 3, 3, 3⟩] : Array Row1) 8 = none := by decide
example : sorted2 (#[⟨3, 1, 1, 1, 1⟩, ⟨3, 4, 2, 2, 2⟩, ⟨9, 0, 3, 3, 3⟩] : Array Row2).toList = true := by decide
example : lookup2 (#[⟨3, 1, 1, 1, 1⟩, ⟨3, 4, 2, 2, 2⟩, ⟨9, 0, 3, 3, 3⟩] : Array Row2) 3 4 = some ⟨3, 4, 2, 2, 2⟩ := by
  decide

end UL
