/-
  Lemmas/GenDataWF2.lean — data facts (kernel-decided over the complete generated tables):
  strict sortedness of all six tables in the integer key order, and the row conditions of the five
  smaller tables.   (C18, C06)
-/
import UnicLocale.Lemmas.GenDataFast
import UnicLocale.Gen.Tables

namespace UL.Gen

theorem langOnly_sorted : Fast.sorted1 langOnlyL = true := by
  unfold langOnlyL
  try simp only [List.append_assoc]
  decide +kernel
theorem langRegion_sorted : Fast.sorted2 langRegionL = true := by
  unfold langRegionL
  try simp only [List.append_assoc]
  decide +kernel
theorem langScript_sorted : Fast.sorted2 langScriptL = true := by
  unfold langScriptL
  try simp only [List.append_assoc]
  decide +kernel
theorem scriptRegion_sorted : Fast.sorted2 scriptRegionL = true := by
  unfold scriptRegionL
  try simp only [List.append_assoc]
  decide +kernel
theorem scriptOnly_sorted : Fast.sorted1 scriptOnlyL = true := by
  unfold scriptOnlyL
  try simp only [List.append_assoc]
  decide +kernel
theorem regionOnly_sorted : Fast.sorted1 regionOnlyL = true := by
  unfold regionOnlyL
  try simp only [List.append_assoc]
  decide +kernel

theorem langRegion_rows : langRegionL.all Fast.rowLangRegion = true := by
  unfold langRegionL
  try simp only [List.append_assoc]
  decide +kernel
theorem langScript_rows : langScriptL.all Fast.rowLangScript = true := by
  unfold langScriptL
  try simp only [List.append_assoc]
  decide +kernel
theorem scriptRegion_rows : scriptRegionL.all Fast.rowScriptRegion = true := by
  unfold scriptRegionL
  try simp only [List.append_assoc]
  decide +kernel
theorem scriptOnly_rows : scriptOnlyL.all Fast.rowScriptOnly = true := by
  unfold scriptOnlyL
  try simp only [List.append_assoc]
  decide +kernel
theorem regionOnly_rows : regionOnlyL.all Fast.rowRegionOnly = true := by
  unfold regionOnlyL
  try simp only [List.append_assoc]
  decide +kernel

end UL.Gen
