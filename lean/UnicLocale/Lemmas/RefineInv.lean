/-
  Lemmas/RefineInv.lean — every API call other than `maximize` / `minimize` preserves the
  representation invariant (the part of the reachability theorem C10's history induction needs;
  the likely-subtags calls are left as the hypothesis `LikelyPreserves`, their content is C06–C08).
-/
import UnicLocale.Lemmas.RefineStep

namespace UL.Rf

/-! ### normal forms are in their class -/

@[simp] theorem isAttr_lower (s : Bytes) : Spec.isAttr (lower s) = Spec.isAttr s := by
  unfold Spec.isAttr; rw [rep_lower isAlnum_toLower]
@[simp] theorem isPrivate_lower (s : Bytes) : Spec.isPrivate (lower s) = Spec.isPrivate s := by
  unfold Spec.isPrivate; rw [rep_lower isAlnum_toLower]
@[simp] theorem isKey_lower (s : Bytes) : Spec.isKey (lower s) = Spec.isKey s := by
  match s with
  | [] => rfl
  | [_] => rfl
  | _ :: _ :: _ :: _ => rfl
  | [a, b] => simp [Spec.isKey, lower]
@[simp] theorem isTKey_lower (s : Bytes) : Spec.isTKey (lower s) = Spec.isTKey s := by
  match s with
  | [] => rfl
  | [_] => rfl
  | _ :: _ :: _ :: _ => rfl
  | [a, b] => simp [Spec.isTKey, lower]

theorem okLanguage_canon {v : Bytes} (h : Spec.isLanguage v = true) :
    okLanguage (Spec.canonLanguage v) = true := by
  unfold Spec.canonLanguage
  by_cases hu : (lower v == Spec.und) = true
  · rw [if_pos hu]; rfl
  · rw [if_neg hu]
    simp only [Bool.not_eq_true] at hu
    simp [okLanguage, h, bne, hu]
theorem okScript_title {v : Bytes} (h : Spec.isScript v = true) : okScript (some (title v)) = true := by
  simp [okScript, h]
theorem okRegion_upper {v : Bytes} (h : Spec.isRegion v = true) : okRegion (some (upper v)) = true := by
  simp [okRegion, h]
theorem okVariant_lower {v : Bytes} (h : Spec.isVariant v = true) : okVariant (lower v) = true := by
  simp [okVariant, h]
theorem okAttr_lower {v : Bytes} (h : Spec.isAttr v = true) : okAttr (lower v) = true := by
  simp [okAttr, h]
theorem okKey_lower {v : Bytes} (h : Spec.isKey v = true) : okKey (lower v) = true := by
  simp [okKey, h]
theorem okTKey_lower {v : Bytes} (h : Spec.isTKey v = true) : okTKey (lower v) = true := by
  simp [okTKey, h]
theorem okTag_lower {v : Bytes} (h : Spec.isPrivate v = true) : okTag (lower v) = true := by
  simp [okTag, h]

theorem okType_of_normValues {vs l : List Bytes} (h : Spec.normValues vs = some l) :
    l.all okType = true := by
  unfold Spec.normValues at h
  by_cases ha : vs.all Spec.isAttr = true
  · rw [if_pos ha] at h
    cases h
    rw [List.all_eq_true] at ha ⊢
    intro t ht
    obtain ⟨ht1, ht2⟩ := List.mem_filter.1 ht
    obtain ⟨v, hv, rfl⟩ := List.mem_map.1 ht1
    simp only [okType, isAttr_lower, ha v hv, lower_lower, beq_self_eq_true, Bool.and_self, Bool.true_and]
    exact ht2
  · rw [if_neg ha] at h; cases h

theorem okVariants_finish {vs : List Bytes} (h : vs.all Spec.isVariant = true) :
    okVariants (LangId.finishVariants (vs.map lower)) = true := by
  rw [LangId.finishVariants_eq]
  cases he : (Spec.toSet (vs.map lower)).isEmpty with
  | true => rfl
  | false =>
    simp only [Bool.false_eq_true, ↓reduceIte, okVariants, he, Bool.not_false, strictSorted_toSet,
      Bool.and_self, Bool.true_and]
    rw [List.all_eq_true] at h ⊢
    intro t ht
    obtain ⟨v, hv, rfl⟩ := List.mem_map.1 (mem_toSet.1 ht)
    exact okVariant_lower (h v hv)

/-! ### maps -/

theorem AMap.mem_insert {kv : Bytes × List Bytes} {k : Bytes} {v : List Bytes} {m : AMap}
    (h : kv ∈ AMap.insert k v m) : kv = (k, v) ∨ kv ∈ m := by
  induction m with
  | nil => simpa [AMap.insert] using h
  | cons p m ih =>
    obtain ⟨k₀, v₀⟩ := p
    unfold AMap.insert at h
    split at h
    · rcases List.mem_cons.1 h with h | h
      · exact Or.inl h
      · exact Or.inr (List.mem_cons_of_mem _ h)
    · split at h
      · rcases List.mem_cons.1 h with h | h
        · exact Or.inl h
        · exact Or.inr h
      · rcases List.mem_cons.1 h with h | h
        · exact Or.inr (h ▸ List.mem_cons_self ..)
        · rcases ih h with h | h
          · exact Or.inl h
          · exact Or.inr (List.mem_cons_of_mem _ h)

theorem okMap_insert {okK : Bytes → Bool} {m : AMap} {k : Bytes} {v : List Bytes}
    (hm : okMap okK m = true) (hk : okK k = true) (hv : v.all okType = true) :
    okMap okK (AMap.insert k v m) = true := by
  simp only [okMap, Bool.and_eq_true] at hm ⊢
  refine ⟨AMap.sortedKeys_insert hm.1, ?_⟩
  rw [List.all_eq_true] at *
  intro kv hkv
  rcases AMap.mem_insert hkv with rfl | h
  · simp only [hk, Bool.true_and]; exact List.all_eq_true.2 hv
  · exact hm.2 kv h

theorem okMap_remove {okK : Bytes → Bool} {m : AMap} (k : Bytes) (hm : okMap okK m = true) :
    okMap okK (AMap.remove k m) = true := by
  simp only [okMap, Bool.and_eq_true] at hm ⊢
  have hs : AMap.sortedKeys m = true := hm.1
  refine ⟨AMap.sortedKeys_remove hs, ?_⟩
  rw [AMap.remove_eq_mapRemove hs]
  rw [List.all_eq_true] at *
  intro kv hkv
  exact hm.2 kv (List.mem_filter.1 hkv).1

/-! ### the tlang read by the spec reader is a valid identifier -/

theorem takeOpt_some {p : Bytes → Bool} {ts r : List Bytes} {t : Bytes}
    (h : Spec.takeOpt p ts = (some t, r)) : p t = true := by
  cases ts with
  | nil => simp [Spec.takeOpt] at h
  | cons a as =>
    by_cases hp : p a = true
    · simp only [Spec.takeOpt, hp, ↓reduceIte, Prod.mk.injEq, Option.some.injEq] at h
      rw [← h.1]; exact hp
    · simp [Spec.takeOpt, hp] at h

theorem all_takeWhile {α} (p : α → Bool) (l : List α) : (l.takeWhile p).all p = true := by
  induction l with
  | nil => rfl
  | cons a t ih =>
    rw [List.takeWhile_cons]
    split
    · rename_i h; simp [h, ih]
    · rfl

theorem concreteLi_inv_of_read {ts rest : List Bytes} {v : Spec.LangIdV}
    (h : Spec.readLangIdPrefix ts = some (v, rest)) : (concreteLi v).inv = true := by
  unfold Spec.readLangIdPrefix Spec.readLangIdPrefixD at h
  cases ts with
  | nil => simp at h
  | cons l r0 =>
    by_cases hl : Spec.isLanguage l = true
    · simp only [hl, Bool.not_true, Bool.false_eq_true, ↓reduceIte, Option.map_some, Option.some.injEq,
        Prod.mk.injEq] at h
      obtain ⟨hv, _⟩ := h
      subst hv
      simp only [LangId.inv, concreteLi, Bool.and_eq_true]
      refine ⟨⟨⟨okLanguage_canon hl, ?_⟩, ?_⟩, ?_⟩
      · cases hs : (Spec.takeOpt Spec.isScript r0) with
        | mk o r1 =>
          cases o with
          | none => rfl
          | some s => exact okScript_title (takeOpt_some hs)
      · cases hs : (Spec.takeOpt Spec.isRegion (Spec.takeOpt Spec.isScript r0).2) with
        | mk o r1 =>
          cases o with
          | none => rfl
          | some s => exact okRegion_upper (takeOpt_some hs)
      · generalize (Spec.takeOpt Spec.isRegion (Spec.takeOpt Spec.isScript r0).2).2 = r2
        have hall : (r2.takeWhile Spec.isVariant).all Spec.isVariant = true := all_takeWhile _ _
        have := okVariants_finish hall
        rw [LangId.finishVariants_eq] at this
        exact this
    · simp [hl] at h

theorem langId_inv_of_fromBytes {l : Bytes} {li : LangId} (h : LangId.fromBytes l = .ok li) :
    li.inv = true := by
  rw [Props.C02.fromBytes_exact] at h
  unfold Spec.langIdResult at h
  cases hr : Spec.readLangIdPrefix (splitSep l) with
  | none => rw [hr] at h; cases h
  | some p =>
    obtain ⟨v, rest⟩ := p
    rw [hr] at h
    by_cases he : rest.isEmpty = true
    · simp only [he, ↓reduceIte] at h
      cases h
      exact concreteLi_inv_of_read hr
    · simp only [he, Bool.false_eq_true, ↓reduceIte] at h
      cases h

/-! ### every call other than `maximize` / `minimize` preserves the invariant -/

def tlangOk (t : Option LangId) : Bool :=
  match t with
  | none => true
  | some l => l.inv

theorem Locale.inv_iff (x : Locale) :
    x.inv = true ↔
      (okLanguage x.id.language = true ∧ okScript x.id.script = true ∧ okRegion x.id.region = true ∧
        okVariants x.id.variants = true) ∧
      (strictSorted x.ext.unicode.attributes = true ∧ x.ext.unicode.attributes.all okAttr = true ∧
        okMap okKey x.ext.unicode.keywords = true) ∧
      (tlangOk x.ext.transform.tlang = true ∧ okMap okTKey x.ext.transform.tfields = true) ∧
      (weakSorted x.ext.priv = true ∧ x.ext.priv.all okTag = true) := by
  have hid : x.id.inv = (okLanguage x.id.language && okScript x.id.script && okRegion x.id.region &&
      okVariants x.id.variants) := rfl
  unfold Locale.inv
  rw [hid]
  simp only [ExtMap.inv, UExt.inv, TExt.inv, PExt.inv, tlangOk, Bool.and_eq_true, and_assoc]
  exact Iff.rfl

/-- the likely-subtags calls keep a valid identifier valid (this is C06–C08 / table
    well-formedness; not proved here) -/
def LikelyPreserves (T : Tables) : Prop :=
  ∀ i : LangId, i.inv = true →
    (∀ i' b, i.maximize T = .ok (i', b) → i'.inv = true) ∧
    (∀ i' b, i.minimize T = .ok (i', b) → i'.inv = true)

theorem all_eraseIdx {p : Bytes → Bool} {a : List Bytes} (i : Nat) (h : a.all p = true) :
    (a.eraseIdx i).all p = true := by
  rw [List.all_eq_true] at *
  intro t ht
  exact h t ((List.eraseIdx_sublist a i).subset ht)

theorem weakSorted_eraseIdx {a : List Bytes} (i : Nat) (hs : weakSorted a = true) :
    weakSorted (a.eraseIdx i) = true := by
  rw [weakSorted_iff_pairwise] at *
  exact hs.sublist (List.eraseIdx_sublist a i)

/-- invariant preservation with the likely-subtags obligation localised to the call at hand -/
theorem step_inv_core (T : Tables) (x : Locale) (o : Op) (hx : x.inv = true)
    (hmax : o = .maximize → ∀ i' b, x.id.maximize T = .ok (i', b) → i'.inv = true)
    (hmin : o = .minimize → ∀ i' b, x.id.minimize T = .ok (i', b) → i'.inv = true) :
    (step T x o).1.inv = true := by
  have hx0 := hx
  rw [Locale.inv_iff] at hx
  obtain ⟨⟨hl, hs, hr, hv⟩, ⟨haS, haA, hkw⟩, ⟨htl, htf⟩, ⟨hpS, hpA⟩⟩ := hx
  cases o with
  | setLanguage v =>
    simp only [step, Props.C15.language_exact]
    by_cases h : Spec.isLanguage v = true
    · simp only [h, ↓reduceIte, outOfUnit]
      rw [Locale.inv_iff]
      exact ⟨⟨okLanguage_canon h, hs, hr, hv⟩, ⟨haS, haA, hkw⟩, ⟨htl, htf⟩, ⟨hpS, hpA⟩⟩
    · simp only [h, ↓reduceIte, outOfUnit, Bool.false_eq_true]; exact hx0
  | setScript v =>
    cases v with
    | none =>
      simp only [step]; rw [Locale.inv_iff]
      exact ⟨⟨hl, rfl, hr, hv⟩, ⟨haS, haA, hkw⟩, ⟨htl, htf⟩, ⟨hpS, hpA⟩⟩
    | some v =>
      simp only [step, Props.C15.script_exact]
      by_cases h : Spec.isScript v = true
      · simp only [h, ↓reduceIte, outOfUnit]
        rw [Locale.inv_iff]
        exact ⟨⟨hl, okScript_title h, hr, hv⟩, ⟨haS, haA, hkw⟩, ⟨htl, htf⟩, ⟨hpS, hpA⟩⟩
      · simp only [h, ↓reduceIte, outOfUnit, Bool.false_eq_true]; exact hx0
  | setRegion v =>
    cases v with
    | none =>
      simp only [step]; rw [Locale.inv_iff]
      exact ⟨⟨hl, hs, rfl, hv⟩, ⟨haS, haA, hkw⟩, ⟨htl, htf⟩, ⟨hpS, hpA⟩⟩
    | some v =>
      simp only [step, Props.C15.region_exact]
      by_cases h : Spec.isRegion v = true
      · simp only [h, ↓reduceIte, outOfUnit]
        rw [Locale.inv_iff]
        exact ⟨⟨hl, hs, okRegion_upper h, hv⟩, ⟨haS, haA, hkw⟩, ⟨htl, htf⟩, ⟨hpS, hpA⟩⟩
      · simp only [h, ↓reduceIte, outOfUnit, Bool.false_eq_true]; exact hx0
  | setVariants vs =>
    simp only [step, collectRes_variant_exact]
    by_cases h : vs.all Spec.isVariant = true
    · simp only [h, ↓reduceIte, outOfUnit]
      rw [Locale.inv_iff]
      exact ⟨⟨hl, hs, hr, okVariants_finish h⟩, ⟨haS, haA, hkw⟩, ⟨htl, htf⟩, ⟨hpS, hpA⟩⟩
    · simp only [h, ↓reduceIte, outOfUnit, Bool.false_eq_true]; exact hx0
  | clearVariants =>
    simp only [step]; rw [Locale.inv_iff]
    exact ⟨⟨hl, hs, hr, rfl⟩, ⟨haS, haA, hkw⟩, ⟨htl, htf⟩, ⟨hpS, hpA⟩⟩
  | hasVariant v => simp only [step, outOfQuery_unchanged]; exact hx0
  | setKeyword k vs =>
    simp only [step, UExt.setKeyword, parseKey_exact, collectTypes_exact parseType_exact]
    by_cases h : Spec.isKey k = true
    · simp only [h, ↓reduceIte, Res.bind]
      cases hn : Spec.normValues vs with
      | none => exact hx0
      | some l =>
        simp only [Res.map, outOfUnit]
        rw [Locale.inv_iff]
        exact ⟨⟨hl, hs, hr, hv⟩, ⟨haS, haA, okMap_insert hkw (okKey_lower h) (okType_of_normValues hn)⟩,
          ⟨htl, htf⟩, ⟨hpS, hpA⟩⟩
    · simp only [h, ↓reduceIte, Res.bind, outOfUnit, Bool.false_eq_true]; exact hx0
  | removeKeyword k =>
    simp only [step, UExt.removeKeyword, parseKey_exact]
    by_cases h : Spec.isKey k = true
    · simp only [h, ↓reduceIte, Res.map, outOfBool]
      rw [Locale.inv_iff]
      exact ⟨⟨hl, hs, hr, hv⟩, ⟨haS, haA, okMap_remove _ hkw⟩, ⟨htl, htf⟩, ⟨hpS, hpA⟩⟩
    · simp only [h, ↓reduceIte, Res.map, outOfBool, Bool.false_eq_true]; exact hx0
  | clearKeywords =>
    simp only [step]; rw [Locale.inv_iff]
    exact ⟨⟨hl, hs, hr, hv⟩, ⟨haS, haA, rfl⟩, ⟨htl, htf⟩, ⟨hpS, hpA⟩⟩
  | keyword k => simp only [step, outOfList_unchanged]; exact hx0
  | setAttribute a =>
    simp only [step, UExt.setAttribute, parseAttribute_exact]
    by_cases h : Spec.isAttr a = true
    · simp only [h, ↓reduceIte, Res.map, outOfUnit]
      cases hb : binarySearchBy x.ext.unicode.attributes (cmpBytes (lower a)) with
      | inl i => exact hx0
      | inr i =>
        obtain ⟨h1, h2⟩ := insert_at_err_sorted haS hb
        rw [Locale.inv_iff]
        refine ⟨⟨hl, hs, hr, hv⟩, ⟨h1, ?_, hkw⟩, ⟨htl, htf⟩, ⟨hpS, hpA⟩⟩
        rw [List.all_eq_true] at haA ⊢
        intro t ht
        rcases (h2 t).1 ht with rfl | ht
        · exact okAttr_lower h
        · exact haA t ht
    · simp only [h, ↓reduceIte, Res.map, outOfUnit, Bool.false_eq_true]; exact hx0
  | removeAttribute a =>
    simp only [step, UExt.removeAttribute, parseAttribute_exact]
    by_cases h : Spec.isAttr a = true
    · simp only [h, ↓reduceIte, Res.map, outOfBool]
      cases hb : binarySearchBy x.ext.unicode.attributes (cmpBytes (lower a)) with
      | inl i =>
        rw [Locale.inv_iff]
        exact ⟨⟨hl, hs, hr, hv⟩, ⟨strictSorted_eraseIdx i haS, all_eraseIdx i haA, hkw⟩, ⟨htl, htf⟩, ⟨hpS, hpA⟩⟩
      | inr i => exact hx0
    · simp only [h, ↓reduceIte, Res.map, outOfBool, Bool.false_eq_true]; exact hx0
  | clearAttributes =>
    simp only [step]; rw [Locale.inv_iff]
    exact ⟨⟨hl, hs, hr, hv⟩, ⟨rfl, rfl, hkw⟩, ⟨htl, htf⟩, ⟨hpS, hpA⟩⟩
  | hasAttribute a => simp only [step, outOfQuery_unchanged]; exact hx0
  | setTLang l =>
    simp only [step]
    cases hr' : LangId.fromBytes l with
    | ok li =>
      simp only [outOfUnit]
      rw [Locale.inv_iff]
      exact ⟨⟨hl, hs, hr, hv⟩, ⟨haS, haA, hkw⟩, ⟨langId_inv_of_fromBytes hr', htf⟩, ⟨hpS, hpA⟩⟩
    | err e => exact hx0
    | panic => exact hx0
  | clearTLang =>
    simp only [step]; rw [Locale.inv_iff]
    exact ⟨⟨hl, hs, hr, hv⟩, ⟨haS, haA, hkw⟩, ⟨rfl, htf⟩, ⟨hpS, hpA⟩⟩
  | setTField k vs =>
    simp only [step, TExt.setTField, parseTKey_exact, collectTypes_exact parseTValue_exact]
    by_cases h : Spec.isTKey k = true
    · simp only [h, ↓reduceIte, Res.bind]
      cases hn : Spec.normValues vs with
      | none => exact hx0
      | some l =>
        simp only [Res.map, outOfUnit]
        rw [Locale.inv_iff]
        exact ⟨⟨hl, hs, hr, hv⟩, ⟨haS, haA, hkw⟩,
          ⟨htl, okMap_insert htf (okTKey_lower h) (okType_of_normValues hn)⟩, ⟨hpS, hpA⟩⟩
    · simp only [h, ↓reduceIte, Res.bind, outOfUnit, Bool.false_eq_true]; exact hx0
  | removeTField k =>
    simp only [step, TExt.removeTField, parseTKey_exact]
    by_cases h : Spec.isTKey k = true
    · simp only [h, ↓reduceIte, Res.map, outOfBool]
      rw [Locale.inv_iff]
      exact ⟨⟨hl, hs, hr, hv⟩, ⟨haS, haA, hkw⟩, ⟨htl, okMap_remove _ htf⟩, ⟨hpS, hpA⟩⟩
    · simp only [h, ↓reduceIte, Res.map, outOfBool, Bool.false_eq_true]; exact hx0
  | clearTFields =>
    simp only [step]; rw [Locale.inv_iff]
    exact ⟨⟨hl, hs, hr, hv⟩, ⟨haS, haA, hkw⟩, ⟨htl, rfl⟩, ⟨hpS, hpA⟩⟩
  | tfield k => simp only [step, outOfList_unchanged]; exact hx0
  | addTag t =>
    simp only [step, PExt.addTag, parsePrivate_exact]
    by_cases h : Spec.isPrivate t = true
    · simp only [h, ↓reduceIte, Res.map, outOfUnit]
      rw [Locale.inv_iff]
      refine ⟨⟨hl, hs, hr, hv⟩, ⟨haS, haA, hkw⟩, ⟨htl, htf⟩, ⟨weakSorted_sortBytes _, ?_⟩⟩
      rw [List.all_eq_true] at hpA ⊢
      intro u hu
      rcases List.mem_append.1 (mem_sortBytes.1 hu) with hu | hu
      · exact hpA u hu
      · rw [List.mem_singleton.1 hu]; exact okTag_lower h
    · simp only [h, ↓reduceIte, Res.map, outOfUnit, Bool.false_eq_true]; exact hx0
  | removeTag t =>
    simp only [step, PExt.removeTag, parsePrivate_exact]
    by_cases h : Spec.isPrivate t = true
    · simp only [h, ↓reduceIte, Res.map, outOfBool]
      cases hb : binarySearchBy x.ext.priv (cmpBytes (lower t)) with
      | inl i =>
        rw [Locale.inv_iff]
        exact ⟨⟨hl, hs, hr, hv⟩, ⟨haS, haA, hkw⟩, ⟨htl, htf⟩, ⟨weakSorted_eraseIdx i hpS, all_eraseIdx i hpA⟩⟩
      | inr i => exact hx0
    · simp only [h, ↓reduceIte, Res.map, outOfBool, Bool.false_eq_true]; exact hx0
  | clearTags =>
    simp only [step]; rw [Locale.inv_iff]
    exact ⟨⟨hl, hs, hr, hv⟩, ⟨haS, haA, hkw⟩, ⟨htl, htf⟩, ⟨rfl, rfl⟩⟩
  | hasTag t => simp only [step, outOfQuery_unchanged]; exact hx0
  | maximize =>
    simp only [step]
    cases hm : x.id.maximize T with
    | ok p =>
      obtain ⟨i', b⟩ := p
      have hi' := hmax rfl i' b hm
      simp only [outOfBool]
      simp only [LangId.inv, Bool.and_eq_true] at hi'
      rw [Locale.inv_iff]
      exact ⟨⟨hi'.1.1.1, hi'.1.1.2, hi'.1.2, hi'.2⟩, ⟨haS, haA, hkw⟩, ⟨htl, htf⟩, ⟨hpS, hpA⟩⟩
    | err e => exact hx0
    | panic => exact hx0
  | minimize =>
    simp only [step]
    cases hm : x.id.minimize T with
    | ok p =>
      obtain ⟨i', b⟩ := p
      have hi' := hmin rfl i' b hm
      simp only [outOfBool]
      simp only [LangId.inv, Bool.and_eq_true] at hi'
      rw [Locale.inv_iff]
      exact ⟨⟨hi'.1.1.1, hi'.1.1.2, hi'.1.2, hi'.2⟩, ⟨haS, haA, hkw⟩, ⟨htl, htf⟩, ⟨hpS, hpA⟩⟩
    | err e => exact hx0
    | panic => exact hx0

theorem step_inv (T : Tables) (hlk : LikelyPreserves T) (x : Locale) (o : Op) (hx : x.inv = true) :
    (step T x o).1.inv = true :=
  step_inv_core T x o hx (fun _ => (hlk x.id (Locale.inv_parts hx).1).1)
    (fun _ => (hlk x.id (Locale.inv_parts hx).1).2)

/-- a call other than `maximize` / `minimize` -/
def noLikely (o : Op) : Bool :=
  match o with
  | .maximize => false
  | .minimize => false
  | _ => true

theorem step_inv_noLikely (T : Tables) (x : Locale) (o : Op) (hx : x.inv = true)
    (ho : noLikely o = true) : (step T x o).1.inv = true :=
  step_inv_core T x o hx (fun e => by subst e; cases ho) (fun e => by subst e; cases ho)

theorem absStep_noLikely (L L' : Spec.LikelyFns) (a : Spec.AbsLoc) (o : Op) (ho : noLikely o = true) :
    Spec.absStep L a o = Spec.absStep L' a o := by
  cases o <;> first | rfl | cases ho
  all_goals rename_i v; cases v <;> rfl

/-! ### gluing with C06–C08 -/

/-- the stored triple of a valid identifier is a valid triple in the sense of `Spec/TablesWF` -/
theorem validTriple_of_inv {i : LangId} (h : i.inv = true) :
    validTriple i.language i.script i.region = true := by
  simp only [LangId.inv, Bool.and_eq_true] at h
  obtain ⟨⟨⟨hl, hs⟩, hr⟩, _⟩ := h
  simp only [validTriple, Bool.and_eq_true]
  refine ⟨⟨?_, ?_⟩, ?_⟩
  · cases hll : i.language with
    | none => rfl
    | some b =>
      rw [hll] at hl
      simp only [okLanguage, Bool.and_eq_true, beq_iff_eq, bne_iff_ne, ne_eq] at hl
      obtain ⟨⟨h1, h2⟩, h3⟩ := hl
      have hne : (b == Spec.und) = false := by simpa using h3
      simp [validLang, Props.C15.language_exact, h1, Spec.canonLanguage, h2, hne]
  · cases hss : i.script with
    | none => rfl
    | some b =>
      rw [hss] at hs
      simp only [okScript, Bool.and_eq_true, beq_iff_eq] at hs
      simp only [validScript, Props.C15.script_exact, hs.1, if_true, hs.2, beq_self_eq_true]
  · cases hrr : i.region with
    | none => rfl
    | some b =>
      rw [hrr] at hr
      simp only [okRegion, Bool.and_eq_true, beq_iff_eq] at hr
      simp only [validRegion, Props.C15.region_exact, hr.1, if_true, hr.2, beq_self_eq_true]

/-- if the code's `maximize` / `minimize` compute the dictionary formulation on valid triples
    (C06 / C08), the reference model may use the dictionary formulation -/
theorem likelyAgrees_specLikely (T : Tables)
    (hmax : ∀ l s r, validTriple l s r = true →
      Likely.maximize T l s r = .ok (Spec.maximize (Spec.findTables T) l s r))
    (hmin : ∀ l s r, validTriple l s r = true →
      Likely.minimize T l s r = .ok (Spec.minimize (Spec.findTables T) l s r)) :
    LikelyAgrees T (Spec.specLikely T) := fun _ hi =>
  ⟨hmax _ _ _ (validTriple_of_inv hi), hmin _ _ _ (validTriple_of_inv hi)⟩

/-! ### empty tables: `maximize` / `minimize` change nothing (used for non-vacuity examples) -/

def T0 : Tables := ⟨#[], #[], #[], #[], #[], #[]⟩

theorem maximize_T0 (l : Language) (s r : Option Bytes) : Likely.maximize T0 l s r = .ok none := by
  cases l <;> cases s <;> cases r <;> rfl
theorem minimize_T0 (l : Language) (s r : Option Bytes) : Likely.minimize T0 l s r = .ok none := by
  cases l <;> cases s <;> cases r <;> rfl
theorem likelyPreserves_T0 : LikelyPreserves T0 := by
  intro i hi
  constructor
  · intro i' b h
    simp only [LangId.maximize, maximize_T0, LangId.applyTriple, Res.ok.injEq, Prod.mk.injEq] at h
    rw [← h.1]; exact hi
  · intro i' b h
    simp only [LangId.minimize, minimize_T0, LangId.applyTriple, Res.ok.injEq, Prod.mk.injEq] at h
    rw [← h.1]; exact hi

/-! ### the likely-subtags functions report `Ok` or panic, never `Err` -/

theorem Likely.langFromParts_ne_err (l s r : Nat) (sc rg : Option Bytes) (e : Err) :
    Likely.langFromParts l s r sc rg ≠ .err e := by
  unfold Likely.langFromParts
  split <;> simp

theorem Likely.maximize_ne_err (T : Tables) (l : Language) (s r : Option Bytes) (e : Err) :
    Likely.maximize T l s r ≠ .err e := by
  intro h
  unfold Likely.maximize at h
  simp only at h
  repeat' split at h
  all_goals first | exact absurd h (Likely.langFromParts_ne_err _ _ _ _ _ _) | cases h

theorem Likely.trial_ne_err (T : Tables) (mx : Triple) (s r : Option Bytes) (e : Err) :
    Likely.trial T mx s r ≠ .err e := by
  unfold Likely.trial
  split
  · rename_i e' h; exact absurd h (Likely.maximize_ne_err _ _ _ _ _)
  all_goals simp

theorem Likely.minimize_ne_err (T : Tables) (l : Language) (s r : Option Bytes) (e : Err) :
    Likely.minimize T l s r ≠ .err e := by
  intro h
  unfold Likely.minimize at h
  simp only at h
  split at h
  · rename_i e' h'
    split at h'
    · cases h'
    · exact absurd h' (Likely.maximize_ne_err _ _ _ _ _)
  · cases h
  · cases h
  · repeat' split at h
    all_goals first | exact (Likely.trial_ne_err _ _ _ _ _ (by assumption)).elim | cases h

/-! ### a call reports an error exactly when an argument is malformed -/

theorem applyLikely_err_iff (a : Spec.AbsLoc) (r : Res (Option Triple)) :
    (Spec.applyLikely a r).2 = .err ↔ ∃ e, r = .err e := by
  cases r with
  | ok o =>
    cases o with
    | none => simp [Spec.applyLikely]
    | some t => obtain ⟨l, s, rg⟩ := t; simp [Spec.applyLikely]
  | err e => simp [Spec.applyLikely]
  | panic => simp [Spec.applyLikely]

theorem absStep_err_iff (L : Spec.LikelyFns) (a : Spec.AbsLoc) (o : Op)
    (hmax : ∀ e, L.maxi a.language a.script a.region ≠ .err e)
    (hmin : ∀ e, L.mini a.language a.script a.region ≠ .err e) :
    (Spec.absStep L a o).2 = .err ↔ Spec.argOk o = false := by
  cases o with
  | setLanguage v => by_cases h : Spec.isLanguage v = true <;> simp [Spec.absStep, Spec.argOk, h]
  | setScript v =>
    cases v with
    | none => simp [Spec.absStep, Spec.argOk]
    | some v => by_cases h : Spec.isScript v = true <;> simp [Spec.absStep, Spec.argOk, h]
  | setRegion v =>
    cases v with
    | none => simp [Spec.absStep, Spec.argOk]
    | some v => by_cases h : Spec.isRegion v = true <;> simp [Spec.absStep, Spec.argOk, h]
  | setVariants vs => by_cases h : vs.all Spec.isVariant = true <;> simp [Spec.absStep, Spec.argOk, h]
  | clearVariants => simp [Spec.absStep, Spec.argOk]
  | hasVariant v => by_cases h : Spec.isVariant v = true <;> simp [Spec.absStep, Spec.argOk, h]
  | setKeyword k vs =>
    by_cases h : Spec.isKey k = true <;> by_cases h' : vs.all Spec.isAttr = true <;>
      simp [Spec.absStep, Spec.argOk, Spec.normValues, h, h']
  | removeKeyword k => by_cases h : Spec.isKey k = true <;> simp [Spec.absStep, Spec.argOk, h]
  | clearKeywords => simp [Spec.absStep, Spec.argOk]
  | keyword k => by_cases h : Spec.isKey k = true <;> simp [Spec.absStep, Spec.argOk, h]
  | setAttribute t => by_cases h : Spec.isAttr t = true <;> simp [Spec.absStep, Spec.argOk, h]
  | removeAttribute t => by_cases h : Spec.isAttr t = true <;> simp [Spec.absStep, Spec.argOk, h]
  | clearAttributes => simp [Spec.absStep, Spec.argOk]
  | hasAttribute t => by_cases h : Spec.isAttr t = true <;> simp [Spec.absStep, Spec.argOk, h]
  | setTLang l => cases h : Spec.langIdResult l <;> simp [Spec.absStep, Spec.argOk, h]
  | clearTLang => simp [Spec.absStep, Spec.argOk]
  | setTField k vs =>
    by_cases h : Spec.isTKey k = true <;> by_cases h' : vs.all Spec.isAttr = true <;>
      simp [Spec.absStep, Spec.argOk, Spec.normValues, h, h']
  | removeTField k => by_cases h : Spec.isTKey k = true <;> simp [Spec.absStep, Spec.argOk, h]
  | clearTFields => simp [Spec.absStep, Spec.argOk]
  | tfield k => by_cases h : Spec.isTKey k = true <;> simp [Spec.absStep, Spec.argOk, h]
  | addTag t => by_cases h : Spec.isPrivate t = true <;> simp [Spec.absStep, Spec.argOk, h]
  | removeTag t => by_cases h : Spec.isPrivate t = true <;> simp [Spec.absStep, Spec.argOk, h]
  | clearTags => simp [Spec.absStep, Spec.argOk]
  | hasTag t => by_cases h : Spec.isPrivate t = true <;> simp [Spec.absStep, Spec.argOk, h]
  | maximize =>
    simp only [Spec.absStep, Spec.argOk, applyLikely_err_iff]
    constructor
    · rintro ⟨e, he⟩; exact absurd he (hmax e)
    · intro h; cases h
  | minimize =>
    simp only [Spec.absStep, Spec.argOk, applyLikely_err_iff]
    constructor
    · rintro ⟨e, he⟩; exact absurd he (hmin e)
    · intro h; cases h

theorem step_err_iff (T : Tables) (x : Locale) (o : Op) (hx : x.inv = true) :
    (step T x o).2 = .err ↔ Spec.argOk o = false := by
  rw [(step_refines T (modelLikely T) (modelLikely_agrees T) x o hx).2]
  exact absStep_err_iff _ _ _ (fun e => Likely.maximize_ne_err _ _ _ _ e)
    (fun e => Likely.minimize_ne_err _ _ _ _ e)

end UL.Rf
