/-
  Lemmas/TablesAssoc.lean — the dictionary of the six tables IS the CLDR association list.
  Generic in the tables `T` and the entry list `es`: if each table is the one `Spec.derive…` determines
  from `es`, no entry is unplaced and the keys of `es` are distinct, then for every key other than
  the bare `und` key `(0,0,0)` and the key `(undInt,0,0)` (language spelled "und", which no valid
  language has and under which the generator files the bare `und` entry in LANG_ONLY)
  `Spec.findTables T k = Spec.findAssoc es k`.   (C06, C18)
-/
import UnicLocale.Lemmas.LikelySpec

set_option linter.unusedSimpArgs false

namespace UL
namespace Spec

def ckey (e : CEntry) : Key := (e.kl, e.ks, e.kr)
def cval (e : CEntry) : Key := (e.vl, e.vs, e.vr)

/-- no two entries of the list (at different positions) have the same key -/
def KeysDistinct (es : List CEntry) : Prop := es.Pairwise (fun a b => ckey a ≠ ckey b)

theorem findAssoc_cons (e : CEntry) (r : List CEntry) (k : Key) :
    findAssoc (e :: r) k = if ckey e == k then some (cval e) else findAssoc r k := rfl

theorem findAssoc_some_mem {es : List CEntry} {k v : Key} (h : findAssoc es k = some v) :
    ∃ e ∈ es, ckey e = k ∧ cval e = v := by
  induction es with
  | nil => cases h
  | cons e r ih =>
    rw [findAssoc_cons] at h
    split at h
    · rename_i hk
      exact ⟨e, List.mem_cons_self .., by simpa using hk, Option.some.inj h⟩
    · obtain ⟨e', hm, h1, h2⟩ := ih h
      exact ⟨e', List.mem_cons_of_mem _ hm, h1, h2⟩

theorem findAssoc_eq_none_iff {es : List CEntry} {k : Key} :
    findAssoc es k = none ↔ ∀ e ∈ es, ckey e ≠ k := by
  induction es with
  | nil => simp [findAssoc]
  | cons e r ih =>
    rw [findAssoc_cons]
    by_cases hk : ckey e = k
    · simp [hk]
    · have : (ckey e == k) = false := by simpa using hk
      simp [this, ih, hk]

theorem findAssoc_eq_some_iff {es : List CEntry} (hd : KeysDistinct es) {k v : Key} :
    findAssoc es k = some v ↔ ∃ e ∈ es, ckey e = k ∧ cval e = v := by
  constructor
  · exact findAssoc_some_mem
  · rintro ⟨e', hm, h1, h2⟩
    induction es with
    | nil => cases hm
    | cons e r ih =>
      rw [findAssoc_cons]
      unfold KeysDistinct at hd
      rw [List.pairwise_cons] at hd
      rcases List.mem_cons.1 hm with rfl | hm
      · simp [h1, h2]
      · have hne : ckey e ≠ k := fun e0 => hd.1 e' hm (e0.trans h1.symm)
        have : (ckey e == k) = false := by simpa using hne
        rw [this]
        exact ih hd.2 hm

theorem keys_inj {es : List CEntry} (hd : KeysDistinct es) {a b : CEntry} (ha : a ∈ es) (hb : b ∈ es)
    (h : ckey a = ckey b) : a = b := by
  induction es with
  | nil => cases ha
  | cons e r ih =>
    unfold KeysDistinct at hd
    rw [List.pairwise_cons] at hd
    rcases List.mem_cons.1 ha with rfl | ha' <;> rcases List.mem_cons.1 hb with rfl | hb'
    · rfl
    · exact absurd h (hd.1 b hb')
    · exact absurd h.symm (hd.1 a ha')
    · exact ih hd.2 ha' hb'

/-! ### insertion sort keeps the elements -/

theorem mem_insertBy {α} (lt : α → α → Bool) (x a : α) (l : List α) :
    x ∈ insertBy lt a l ↔ x = a ∨ x ∈ l := by
  induction l with
  | nil => simp [insertBy]
  | cons y ys ih =>
    unfold insertBy
    split
    · simp
    · rw [List.mem_cons, ih, List.mem_cons]
      constructor
      · rintro (h | h | h)
        · exact Or.inr (Or.inl h)
        · exact Or.inl h
        · exact Or.inr (Or.inr h)
      · rintro (h | h | h)
        · exact Or.inr (Or.inl h)
        · exact Or.inl h
        · exact Or.inr (Or.inr h)

theorem mem_sortBy {α} (lt : α → α → Bool) (x : α) (l : List α) : x ∈ sortBy lt l ↔ x ∈ l := by
  induction l with
  | nil => simp [sortBy]
  | cons y ys ih =>
    show x ∈ insertBy lt y (sortBy lt ys) ↔ _
    rw [mem_insertBy, ih, List.mem_cons]

theorem find?_eq_some_iff_of_unique {α} {l : List α} {q : α → Bool}
    (hu : ∀ x ∈ l, ∀ y ∈ l, q x = true → q y = true → x = y) {x : α} :
    l.find? q = some x ↔ x ∈ l ∧ q x = true := by
  constructor
  · exact find?_mem_pred
  · rintro ⟨hm, hq⟩
    cases hf : l.find? q with
    | none =>
      rw [List.find?_eq_none] at hf
      exact absurd hq (hf x hm)
    | some y =>
      obtain ⟨hm', hq'⟩ := find?_mem_pred hf
      rw [hu y hm' x hm hq' hq]

theorem dec_optEnc (n : Nat) : dec (optEnc n) = n := by
  unfold dec optEnc
  split
  · rename_i h; simp at h; omega
  · omega

/-! ### one table against the association list -/

/-- one-key table: the rows selected by `p`, keyed by `kf` -/
theorem table1_eq_findAssoc {es : List CEntry} (hd : KeysDistinct es) (p : CEntry → Bool) (kf : CEntry → Nat)
    (K : Nat) (key : Key) (hkey : ∀ e ∈ es, (p e = true ∧ kf e = K) ↔ ckey e = key) :
    ((sortBy lt1 ((es.filter p).map fun e => row1 (kf e) e)).find? (fun row => row.k == K)).map
      (fun row => (dec row.l, dec row.s, dec row.r)) = findAssoc es key := by
  have hmem : ∀ row, row ∈ sortBy lt1 ((es.filter p).map fun e => row1 (kf e) e) ↔
      ∃ e ∈ es, p e = true ∧ row1 (kf e) e = row := by
    intro row
    rw [mem_sortBy, List.mem_map]
    simp only [List.mem_filter, and_assoc]
  have huniq : ∀ x ∈ sortBy lt1 ((es.filter p).map fun e => row1 (kf e) e),
      ∀ y ∈ sortBy lt1 ((es.filter p).map fun e => row1 (kf e) e),
      (x.k == K) = true → (y.k == K) = true → x = y := by
    intro x hx y hy qx qy
    obtain ⟨e, he, pe, rfl⟩ := (hmem x).1 hx
    obtain ⟨e', he', pe', rfl⟩ := (hmem y).1 hy
    have k1 : kf e = K := by simpa [row1] using qx
    have k2 : kf e' = K := by simpa [row1] using qy
    have := keys_inj hd he he' (((hkey e he).1 ⟨pe, k1⟩).trans ((hkey e' he').1 ⟨pe', k2⟩).symm)
    rw [this]
  apply Option.ext
  intro v
  rw [Option.map_eq_some_iff, findAssoc_eq_some_iff hd]
  constructor
  · rintro ⟨row, hf, hv⟩
    obtain ⟨hm, hq⟩ := (find?_eq_some_iff_of_unique huniq).1 hf
    obtain ⟨e, he, pe, rfl⟩ := (hmem row).1 hm
    have k1 : kf e = K := by simpa [row1] using hq
    refine ⟨e, he, (hkey e he).1 ⟨pe, k1⟩, ?_⟩
    rw [← hv]
    simp only [row1, dec_optEnc, cval]
  · rintro ⟨e, he, hk, hv⟩
    obtain ⟨pe, k1⟩ := (hkey e he).2 hk
    refine ⟨row1 (kf e) e, (find?_eq_some_iff_of_unique huniq).2 ⟨(hmem _).2 ⟨e, he, pe, rfl⟩, ?_⟩, ?_⟩
    · simp [row1, k1]
    · rw [← hv]
      simp only [row1, dec_optEnc, cval]

/-- two-key table -/
theorem table2_eq_findAssoc {es : List CEntry} (hd : KeysDistinct es) (p : CEntry → Bool)
    (kf1 kf2 : CEntry → Nat) (K1 K2 : Nat) (key : Key)
    (hkey : ∀ e ∈ es, (p e = true ∧ kf1 e = K1 ∧ kf2 e = K2) ↔ ckey e = key) :
    ((sortBy lt2 ((es.filter p).map fun e => row2 (kf1 e) (kf2 e) e)).find?
        (fun row => row.k1 == K1 && row.k2 == K2)).map
      (fun row => (dec row.l, dec row.s, dec row.r)) = findAssoc es key := by
  have hmem : ∀ row, row ∈ sortBy lt2 ((es.filter p).map fun e => row2 (kf1 e) (kf2 e) e) ↔
      ∃ e ∈ es, p e = true ∧ row2 (kf1 e) (kf2 e) e = row := by
    intro row
    rw [mem_sortBy, List.mem_map]
    simp only [List.mem_filter, and_assoc]
  have huniq : ∀ x ∈ sortBy lt2 ((es.filter p).map fun e => row2 (kf1 e) (kf2 e) e),
      ∀ y ∈ sortBy lt2 ((es.filter p).map fun e => row2 (kf1 e) (kf2 e) e),
      (x.k1 == K1 && x.k2 == K2) = true → (y.k1 == K1 && y.k2 == K2) = true → x = y := by
    intro x hx y hy qx qy
    obtain ⟨e, he, pe, rfl⟩ := (hmem x).1 hx
    obtain ⟨e', he', pe', rfl⟩ := (hmem y).1 hy
    have k1 : kf1 e = K1 ∧ kf2 e = K2 := by simpa [row2] using qx
    have k2 : kf1 e' = K1 ∧ kf2 e' = K2 := by simpa [row2] using qy
    have := keys_inj hd he he' (((hkey e he).1 ⟨pe, k1⟩).trans ((hkey e' he').1 ⟨pe', k2⟩).symm)
    rw [this]
  apply Option.ext
  intro v
  rw [Option.map_eq_some_iff, findAssoc_eq_some_iff hd]
  constructor
  · rintro ⟨row, hf, hv⟩
    obtain ⟨hm, hq⟩ := (find?_eq_some_iff_of_unique huniq).1 hf
    obtain ⟨e, he, pe, rfl⟩ := (hmem row).1 hm
    have k1 : kf1 e = K1 ∧ kf2 e = K2 := by simpa [row2] using hq
    refine ⟨e, he, (hkey e he).1 ⟨pe, k1⟩, ?_⟩
    rw [← hv]
    simp only [row2, dec_optEnc, cval]
  · rintro ⟨e, he, hk, hv⟩
    obtain ⟨pe, k1⟩ := (hkey e he).2 hk
    refine ⟨row2 (kf1 e) (kf2 e) e,
      (find?_eq_some_iff_of_unique huniq).2 ⟨(hmem _).2 ⟨e, he, pe, rfl⟩, ?_⟩, ?_⟩
    · simp [row2, k1.1, k1.2]
    · rw [← hv]
      simp only [row2, dec_optEnc, cval]

/-- the tables of `T` are the ones `es` determines -/
structure Derived (T : Tables) (es : List CEntry) : Prop where
  h1 : T.langOnly.toList = deriveLangOnly es
  h2 : T.langRegion.toList = deriveLangRegion es
  h3 : T.langScript.toList = deriveLangScript es
  h4 : T.scriptRegion.toList = deriveScriptRegion es
  h5 : T.scriptOnly.toList = deriveScriptOnly es
  h6 : T.regionOnly.toList = deriveRegionOnly es
  hu : unplaced es = []
  hd : KeysDistinct es

/-- **the dictionary of the tables is the CLDR association list**, for every key except the bare
    `und` key `(0,0,0)` (which the lookup code never asks for) and `(undInt,0,0)` (the slot the bare
    `und` entry occupies in LANG_ONLY; no valid language is the text "und"). -/
theorem findTables_eq_findAssoc {T : Tables} {es : List CEntry} (D : Derived T es) (k : Key)
    (hk0 : k ≠ (0, 0, 0)) (hku : k ≠ (undInt, 0, 0)) : findTables T k = findAssoc es k := by
  obtain ⟨kl, ks, kr⟩ := k
  by_cases hl : kl = 0 <;> by_cases hs : ks = 0 <;> by_cases hr : kr = 0
  · subst hl hs hr; exact absurd rfl hk0
  · -- region only
    subst hl hs
    rw [findTables_R T hr, D.h6]
    apply table1_eq_findAssoc D.hd
    intro e _
    simp only [ckey, Prod.mk.injEq, Bool.and_eq_true, beq_iff_eq, bne_iff_ne, ne_eq]
    constructor
    · rintro ⟨⟨⟨a, b⟩, _⟩, c⟩; exact ⟨a, b, c⟩
    · rintro ⟨a, b, c⟩; exact ⟨⟨⟨a, b⟩, c ▸ hr⟩, c⟩
  · -- script only
    subst hl hr
    rw [findTables_S T hs, D.h5]
    apply table1_eq_findAssoc D.hd
    intro e _
    simp only [ckey, Prod.mk.injEq, Bool.and_eq_true, beq_iff_eq, bne_iff_ne, ne_eq]
    constructor
    · rintro ⟨⟨⟨a, _⟩, b⟩, c⟩; exact ⟨a, c, b⟩
    · rintro ⟨a, b, c⟩; exact ⟨⟨⟨a, b ▸ hs⟩, c⟩, b⟩
  · -- script, region
    subst hl
    rw [findTables_SR T hs hr, D.h4]
    apply table2_eq_findAssoc D.hd
    intro e _
    simp only [ckey, Prod.mk.injEq, Bool.and_eq_true, beq_iff_eq, bne_iff_ne, ne_eq]
    constructor
    · rintro ⟨⟨⟨a, _⟩, _⟩, b, c⟩; exact ⟨a, b, c⟩
    · rintro ⟨a, b, c⟩; exact ⟨⟨⟨a, b ▸ hs⟩, c ▸ hr⟩, b, c⟩
  · -- language only
    subst hs hr
    have hund : kl ≠ undInt := fun e => hku (by rw [e])
    rw [findTables_L T hl, D.h1]
    apply table1_eq_findAssoc D.hd
    intro e _
    simp only [ckey, Prod.mk.injEq, Bool.and_eq_true, beq_iff_eq]
    constructor
    · rintro ⟨⟨b, c⟩, a⟩
      refine ⟨?_, b, c⟩
      by_cases h0 : e.kl = 0
      · simp only [h0, if_true] at a; exact absurd a.symm hund
      · simpa only [h0, if_false] using a
    · rintro ⟨a, b, c⟩
      refine ⟨⟨b, c⟩, ?_⟩
      simp only [a, hl, if_false]
  · -- language, region
    subst hs
    rw [findTables_LR T hl hr, D.h2]
    apply table2_eq_findAssoc D.hd
    intro e _
    simp only [ckey, Prod.mk.injEq, Bool.and_eq_true, beq_iff_eq, bne_iff_ne, ne_eq]
    constructor
    · rintro ⟨⟨⟨_, b⟩, _⟩, a, c⟩; exact ⟨a, b, c⟩
    · rintro ⟨a, b, c⟩; exact ⟨⟨⟨a ▸ hl, b⟩, c ▸ hr⟩, a, c⟩
  · -- language, script
    subst hr
    rw [findTables_LS T hl hs, D.h3]
    apply table2_eq_findAssoc D.hd
    intro e _
    simp only [ckey, Prod.mk.injEq, Bool.and_eq_true, beq_iff_eq, bne_iff_ne, ne_eq]
    constructor
    · rintro ⟨⟨⟨_, _⟩, c⟩, a, b⟩; exact ⟨a, b, c⟩
    · rintro ⟨a, b, c⟩; exact ⟨⟨⟨a ▸ hl, b ▸ hs⟩, c⟩, a, b⟩
  · -- all three: no table, and no CLDR entry
    have hnone : findTables T (kl, ks, kr) = none := by simp [findTables, hl, hs, hr]
    rw [hnone, eq_comm, findAssoc_eq_none_iff]
    intro e he hk
    have : e ∈ unplaced es := by
      simp only [unplaced, List.mem_filter, Bool.and_eq_true, bne_iff_ne, ne_eq]
      simp only [ckey, Prod.mk.injEq] at hk
      exact ⟨he, ⟨hk.1 ▸ hl, hk.2.1 ▸ hs⟩, hk.2.2 ▸ hr⟩
    rw [D.hu] at this
    cases this

/-- the bare `und` entry is filed in LANG_ONLY under the integer of "und" -/
theorem findTables_und {T : Tables} {es : List CEntry} (D : Derived T es) (hnu : ∀ e ∈ es, e.kl ≠ undInt) :
    findTables T (undInt, 0, 0) = findAssoc es (0, 0, 0) := by
  rw [findTables_L T (by decide), D.h1]
  apply table1_eq_findAssoc D.hd
  intro e he
  simp only [ckey, Prod.mk.injEq, Bool.and_eq_true, beq_iff_eq]
  constructor
  · rintro ⟨⟨b, c⟩, a⟩
    refine ⟨?_, b, c⟩
    by_cases h0 : e.kl = 0
    · exact h0
    · simp only [h0, if_false] at a; exact absurd a (hnu e he)
  · rintro ⟨a, b, c⟩
    exact ⟨⟨b, c⟩, by simp only [a, if_true]⟩

/-! ### one row per entry: the seven shapes partition the entries -/

theorem length_insertBy {α} (lt : α → α → Bool) (a : α) (l : List α) : (insertBy lt a l).length = l.length + 1 := by
  induction l with
  | nil => rfl
  | cons y ys ih =>
    unfold insertBy
    split
    · rfl
    · simp only [List.length_cons, ih]

theorem length_sortBy {α} (lt : α → α → Bool) (l : List α) : (sortBy lt l).length = l.length := by
  induction l with
  | nil => rfl
  | cons y ys ih =>
    show (insertBy lt y (sortBy lt ys)).length = _
    rw [length_insertBy, ih]; rfl

theorem length_shapes (es : List CEntry) :
    (deriveLangOnly es).length + (deriveLangRegion es).length + (deriveLangScript es).length +
      (deriveScriptRegion es).length + (deriveScriptOnly es).length + (deriveRegionOnly es).length +
      (unplaced es).length = es.length := by
  simp only [deriveLangOnly, deriveLangRegion, deriveLangScript, deriveScriptRegion, deriveScriptOnly,
    deriveRegionOnly, unplaced, length_sortBy, List.length_map]
  induction es with
  | nil => rfl
  | cons e r ih =>
    simp only [List.filter_cons]
    by_cases a : e.kl = 0 <;> by_cases b : e.ks = 0 <;> by_cases c : e.kr = 0 <;>
      simp [a, b, c] <;> omega

/-- as many rows in the six tables together as entries in the list -/
theorem length_tables {T : Tables} {es : List CEntry} (D : Derived T es) :
    T.langOnly.toList.length + T.langRegion.toList.length + T.langScript.toList.length +
      T.scriptRegion.toList.length + T.scriptOnly.toList.length + T.regionOnly.toList.length = es.length := by
  have := length_shapes es
  rw [D.hu] at this
  rw [D.h1, D.h2, D.h3, D.h4, D.h5, D.h6]
  simpa using this

/-! ### keys sorted ⇒ keys distinct (how the data fact is decided) -/

def keyLt (a b : CEntry) : Bool :=
  Nat.blt a.kl b.kl || (Nat.beq a.kl b.kl && (Nat.blt a.ks b.ks || (Nat.beq a.ks b.ks && Nat.blt a.kr b.kr)))

def keysSorted : List CEntry → Bool
  | [] => true
  | [_] => true
  | a :: b :: r => keyLt a b && keysSorted (b :: r)

theorem keyLt_iff {a b : CEntry} :
    keyLt a b = true ↔ a.kl < b.kl ∨ (a.kl = b.kl ∧ (a.ks < b.ks ∨ (a.ks = b.ks ∧ a.kr < b.kr))) := by
  simp [keyLt, Nat.blt_eq, Nat.beq_eq]

theorem keyLt_trans {a b c : CEntry} (h1 : keyLt a b = true) (h2 : keyLt b c = true) : keyLt a c = true := by
  rw [keyLt_iff] at *; omega

theorem keysSorted_pairwise {l : List CEntry} (h : keysSorted l = true) :
    l.Pairwise (fun a b => keyLt a b = true) := by
  induction l with
  | nil => exact List.Pairwise.nil
  | cons x xs ih =>
    cases xs with
    | nil => simp
    | cons y r =>
      simp only [keysSorted, Bool.and_eq_true] at h
      have hp := ih h.2
      rw [List.pairwise_cons]
      refine ⟨?_, hp⟩
      intro z hz
      rcases List.mem_cons.1 hz with rfl | hz
      · exact h.1
      · exact keyLt_trans h.1 ((List.pairwise_cons.1 hp).1 z hz)

theorem keysDistinct_of_sorted {l : List CEntry} (h : keysSorted l = true) : KeysDistinct l := by
  refine (keysSorted_pairwise h).imp ?_
  intro a b hab hk
  rw [keyLt_iff] at hab
  simp only [ckey, Prod.mk.injEq] at hk
  omega

/-! ### `maximize` / `minimize` over the tables = over the association list -/

theorem firstHit_congr {f g : Find} {ks : List Key} (h : ∀ k ∈ ks, f k = g k) : firstHit f ks = firstHit g ks := by
  induction ks with
  | nil => rfl
  | cons k ks ih =>
    unfold firstHit
    rw [h k (List.mem_cons_self ..), ih (fun k' hm => h k' (List.mem_cons_of_mem _ hm))]

/-- the candidate keys of a valid triple are never the two excluded keys -/
theorem cands_ok {l : Language} {s r : Option Bytes} (hv : validTriple l s r = true) :
    ∀ k ∈ cands l s r, k ≠ (0, 0, 0) ∧ k ≠ (undInt, 0, 0) := by
  simp only [validTriple, Bool.and_eq_true] at hv
  obtain ⟨⟨hl, hs⟩, hr⟩ := hv
  intro k hk
  cases l with
  | some lb =>
    obtain ⟨hL0, _, hLu⟩ := lang_facts hl
    have key : k.1 = pack lb := by
      cases s <;> cases r <;>
        simp only [cands, packOpt, Option.isSome_some, Option.isSome_none, if_true, if_false,
          Bool.false_eq_true, List.append_nil, List.nil_append, List.cons_append, List.mem_cons,
          List.not_mem_nil, or_false] at hk <;>
        (rcases hk with rfl | rfl | rfl <;> rfl) <;> skip
    constructor
    · intro e; rw [e] at key; exact hL0 key.symm
    · intro e; rw [e] at key; exact hLu key.symm
  | none =>
    cases s with
    | some sb =>
      obtain ⟨hS0, _⟩ := script_facts hs
      have key : k.1 = 0 ∧ k.2.1 = pack sb := by
        cases r <;>
          simp only [cands, packOpt, Option.isSome_some, Option.isSome_none, if_true, if_false,
            Bool.false_eq_true, List.append_nil, List.nil_append, List.cons_append, List.mem_cons,
            List.not_mem_nil, or_false] at hk <;>
          (rcases hk with rfl | rfl <;> exact ⟨rfl, rfl⟩) <;> skip
      constructor
      · intro e; rw [e] at key; exact hS0 key.2.symm
      · intro e; rw [e] at key; exact absurd key.1 (by decide)
    | none =>
      cases r with
      | some rb =>
        obtain ⟨hR0, _⟩ := region_facts hr
        simp only [cands, packOpt, Option.isSome_some, Option.isSome_none, if_true, if_false,
          Bool.false_eq_true, List.mem_cons, List.not_mem_nil, or_false] at hk
        subst hk
        constructor
        · intro e; simp only [Prod.mk.injEq] at e; exact hR0 e.2.2
        · intro e; simp only [Prod.mk.injEq] at e; exact absurd e.1.symm (by decide)
      | none => simp [cands] at hk

theorem maximize_findTables_eq {T : Tables} {es : List CEntry} (D : Derived T es)
    (l : Language) (s r : Option Bytes) (hv : validTriple l s r = true) :
    maximize (findTables T) l s r = maximize (findAssoc es) l s r := by
  rw [maximize_shape, maximize_shape]
  rw [firstHit_congr (f := findTables T) (g := findAssoc es)]
  intro k hk
  obtain ⟨h0, hu⟩ := cands_ok hv k hk
  exact findTables_eq_findAssoc D k h0 hu

theorem minimize_findTables_eq {T : Tables} {es : List CEntry} (w : WF T) (D : Derived T es)
    (l : Language) (s r : Option Bytes) (hv : validTriple l s r = true) :
    minimize (findTables T) l s r = minimize (findAssoc es) l s r := by
  have hmax : maxOf (findTables T) l s r = maxOf (findAssoc es) l s r := by
    unfold maxOf
    rw [maximize_findTables_eq D l s r hv]
  unfold minimize
  rw [← hmax]
  cases hm : maxOf (findTables T) l s r with
  | none => rfl
  | some mx =>
    have hvm := maxOf_valid w hv hm
    obtain ⟨v1, v2, v3⟩ := validTriple_parts hvm
    obtain ⟨ml, ms, mr⟩ := mx
    simp only at v1 v2 v3 ⊢
    rw [maximize_findTables_eq D ml none none v1, maximize_findTables_eq D ml none mr v2,
      maximize_findTables_eq D ml ms none v3]

/-- **every CLDR entry maximizes to its value** (generic form): for an entry `K → V` of `es` other than
    the bare `und` one, on tables that are well formed and derived from `es`, maximizing the decoded
    `K` returns the decoded `V`. -/
theorem maximize_entry {T : Tables} {es : List CEntry} (w : WF T) (D : Derived T es)
    (hnu : ∀ e ∈ es, e.kl ≠ undInt) (e : CEntry) (he : e ∈ es) (h0 : ckey e ≠ (0, 0, 0)) :
    Likely.maximize T (unpackOpt e.kl) (unpackOpt e.ks) (unpackOpt e.kr) =
      .ok (some (unpackOpt e.vl, unpackOpt e.vs, unpackOpt e.vr)) := by
  have hassoc : findAssoc es (ckey e) = some (cval e) := (findAssoc_eq_some_iff D.hd).2 ⟨e, he, rfl, rfl⟩
  have hku : ckey e ≠ (undInt, 0, 0) := by
    intro h; simp only [ckey, Prod.mk.injEq] at h; exact hnu e he h.1
  have hfind : findTables T (e.kl, e.ks, e.kr) = some (e.vl, e.vs, e.vr) := by
    have := findTables_eq_findAssoc D (ckey e) h0 hku
    rw [hassoc] at this
    exact this
  obtain ⟨v1, v2, v3, kL, kS, kR, _, hnot3⟩ := findTables_hit w hfind
  have hnuL : e.kl ≠ undInt := hnu e he
  -- validity of the decoded key, and packing it back
  have hvl : validLang (unpackOpt e.kl) = true := by
    unfold unpackOpt
    by_cases h : e.kl = 0
    · simp [h, validLang]
    · have : (e.kl == 0) = false := by simpa using h
      rw [this]
      rcases kL h with ⟨e0, _⟩ | ⟨hv, _⟩
      · exact absurd e0 hnuL
      · exact validLangInt_decodes hv
  have hvs : validScript (unpackOpt e.ks) = true := by
    unfold unpackOpt
    by_cases h : e.ks = 0
    · simp [h, validScript]
    · have : (e.ks == 0) = false := by simpa using h
      rw [this]
      exact validScriptInt_decodes (kS h).1
  have hvr : validRegion (unpackOpt e.kr) = true := by
    unfold unpackOpt
    by_cases h : e.kr = 0
    · simp [h, validRegion]
    · have : (e.kr == 0) = false := by simpa using h
      rw [this]
      exact validRegionInt_decodes (kR h).1
  have hv : validTriple (unpackOpt e.kl) (unpackOpt e.ks) (unpackOpt e.kr) = true := by
    simp only [validTriple, hvl, hvs, hvr, Bool.and_self]
  have pl : packOpt (unpackOpt e.kl) = e.kl := by
    unfold unpackOpt
    by_cases h : e.kl = 0
    · simp [h, packOpt]
    · have : (e.kl == 0) = false := by simpa using h
      rw [this]
      rcases kL h with ⟨e0, _⟩ | ⟨hv, _⟩
      · exact absurd e0 hnuL
      · simp only [validLangInt, Bool.and_eq_true, beq_iff_eq] at hv
        simpa [packOpt] using hv.2
  have ps : packOpt (unpackOpt e.ks) = e.ks := by
    unfold unpackOpt
    by_cases h : e.ks = 0
    · simp [h, packOpt]
    · have : (e.ks == 0) = false := by simpa using h
      rw [this]
      have hv := (kS h).1
      simp only [validScriptInt, Bool.and_eq_true, beq_iff_eq] at hv
      simpa [packOpt] using hv.2
  have pr : packOpt (unpackOpt e.kr) = e.kr := by
    unfold unpackOpt
    by_cases h : e.kr = 0
    · simp [h, packOpt]
    · have : (e.kr == 0) = false := by simpa using h
      rw [this]
      have hv := (kR h).1
      simp only [validRegionInt, Bool.and_eq_true, beq_iff_eq] at hv
      simpa [packOpt] using hv.2
  have isL : (unpackOpt e.kl).isSome = !(e.kl == 0) := by
    unfold unpackOpt; cases e.kl == 0 <;> rfl
  have isS : (unpackOpt e.ks).isSome = !(e.ks == 0) := by
    unfold unpackOpt; cases e.ks == 0 <;> rfl
  have isR : (unpackOpt e.kr).isSome = !(e.kr == 0) := by
    unfold unpackOpt; cases e.kr == 0 <;> rfl
  rw [maximize_eq_spec_of_WF T w _ _ _ hv, maximize_shape]
  -- the first candidate is the key itself
  have hc : ∃ rest, cands (unpackOpt e.kl) (unpackOpt e.ks) (unpackOpt e.kr) = (e.kl, e.ks, e.kr) :: rest := by
    simp only [cands, pl, ps, pr, isL, isS, isR]
    simp only [ckey, ne_eq, Prod.mk.injEq] at h0
    by_cases a : e.kl = 0 <;> by_cases b : e.ks = 0 <;> by_cases c : e.kr = 0 <;>
      simp [a, b, c] <;> omega
  obtain ⟨rest, hc⟩ := hc
  have hall : ((unpackOpt e.kl).isSome && (unpackOpt e.ks).isSome && (unpackOpt e.kr).isSome) = false := by
    rw [isL, isS, isR]
    by_cases a : e.kl = 0 <;> by_cases b : e.ks = 0 <;> by_cases c : e.kr = 0 <;>
      simp [a, b, c] <;> omega
  rw [hall, hc]
  simp only [Bool.false_eq_true, if_false, firstHit, hfind, Option.map_some]
  -- the filled triple is the decoded value, because the value extends the key
  congr 2
  unfold fill
  have eL : e.kl ≠ 0 → e.vl = e.kl := fun h => by
    rcases kL h with ⟨e0, _⟩ | ⟨_, e1⟩
    · exact absurd e0 hnuL
    · exact e1
  refine Prod.ext ?_ (Prod.ext ?_ ?_)
  · by_cases h : e.kl = 0
    · simp [unpackOpt, h]
    · rw [eL h]
      have : (e.kl == 0) = false := by simpa using h
      simp [unpackOpt, this]
  · by_cases h : e.ks = 0
    · simp [unpackOpt, h]
    · rw [(kS h).2]
      have : (e.ks == 0) = false := by simpa using h
      simp [unpackOpt, this]
  · by_cases h : e.kr = 0
    · simp [unpackOpt, h]
    · rw [(kR h).2]
      have : (e.kr == 0) = false := by simpa using h
      simp [unpackOpt, this]

end Spec
end UL
