/-
  Lemmas/C08Witness.lean — the clause "minimize(maximize(x)) equals minimize(x)" of C08 fails on the
  tables compiled into the crate (CLDR 44), kernel-checked by evaluation (no `tablesWF Gen.tables`
  needed).  x = und-Hant-DE:
    maximize(x)            = zh-Hant-DE, true
    minimize(zh-Hant-DE)   = zh-Hant-DE, false   (zh → zh-Hans-CN, zh-DE → zh-Hans-DE, zh-Hant → zh-Hant-TW)
    minimize(und-Hant-DE)  = und-Hant-DE, false
  Generic statement and the strongest true version: Props/C08.lean.
-/
import UnicLocale.Gen.Tables
import UnicLocale.Lemmas.MaxMin

namespace UL.C08Witness
open UL UL.Mm UL.Mm.MaxMin

def x : LangId := { script := some hant, region := some de }
def y : LangId := { language := some zh, script := some hant, region := some de }

theorem x_valid : validTriple x.language x.script x.region = true := by decide

theorem maximize_x : LangId.maximize Gen.tables x = .ok (y, true) := by decide +kernel
theorem minimize_y : LangId.minimize Gen.tables y = .ok (y, false) := by decide +kernel
theorem minimize_x : LangId.minimize Gen.tables x = .ok (x, false) := by decide +kernel

/-- the literal clause, instantiated at the shipped tables, is false -/
theorem minimize_maximize_false_on_shipped_tables :
    ¬ (∀ (x y z z' : LangId) (b c c' : Bool),
        validTriple x.language x.script x.region = true →
        LangId.maximize Gen.tables x = .ok (y, b) → LangId.minimize Gen.tables y = .ok (z, c) →
        LangId.minimize Gen.tables x = .ok (z', c') → z = z') := by
  intro hall
  have := hall x y y x true false false x_valid maximize_x minimize_y minimize_x
  revert this
  decide

/-- the trials, for the record -/
example : Likely.maximize Gen.tables (some zh) none none = .ok (some (some zh, some hans, some cn)) := by
  decide +kernel
example : Likely.maximize Gen.tables (some zh) none (some de) = .ok (some (some zh, some hans, some de)) := by
  decide +kernel
example : Likely.maximize Gen.tables (some zh) (some hant) none = .ok (some (some zh, some hant, some tw)) := by
  decide +kernel

end UL.C08Witness
