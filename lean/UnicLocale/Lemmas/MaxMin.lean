/-
  Lemmas/MaxMin.lean — helper lemmas for C07 / C08 (`likelysubtags::maximize` / `minimize`).

  Everything here is generic in the tables `T` and uses only `tablesWF T = true`.  Nothing depends on
  the *completeness* of the binary search: only on the fact, true by definition of `lookupBy`, that a
  row that is returned is a member of the table and compares equal to the key.
-/
import UnicLocale.Spec.TablesWF
import UnicLocale.Lemmas.Raw
import UnicLocale.Model.Ops

namespace UL.Mm

/-! ### what a successful look-up tells (soundness half of the binary search; by definition) -/

theorem lookupBy_some {α} {a : Array α} {cmp : α → Nat} {x : α} (h : lookupBy a cmp = some x) :
    x ∈ a.toList ∧ cmp x = 1 := by
  unfold lookupBy at h
  split at h
  · cases h
  · simp only at h
    split at h
    · rename_i y hy
      split at h
      · rename_i hc
        injection h with h
        subst h
        refine ⟨?_, ?_⟩
        · exact Array.mem_toList_iff.mpr (Array.mem_of_getElem? hy)
        · simpa using hc
      · cases h
    · cases h

theorem cmpNat_eq_one {k x : Nat} (h : cmpNat k x = 1) : x = k := by
  unfold cmpNat at h
  split at h
  · rename_i hx; simpa using hx
  · split at h <;> cases h

theorem cmpPair_eq_one {k1 k2 x1 x2 : Nat} (h : cmpPair k1 k2 x1 x2 = 1) : x1 = k1 ∧ x2 = k2 := by
  unfold cmpPair at h
  split at h
  · rename_i hx
    exact ⟨by simpa using hx, cmpNat_eq_one h⟩
  · split at h <;> cases h

theorem lookup1_some {a : Array Row1} {k : Nat} {row : Row1} (h : lookup1 a k = some row) :
    row ∈ a.toList ∧ row.k = k := by
  obtain ⟨hm, hc⟩ := lookupBy_some h
  exact ⟨hm, cmpNat_eq_one hc⟩

theorem lookup2_some {a : Array Row2} {k1 k2 : Nat} {row : Row2} (h : lookup2 a k1 k2 = some row) :
    row ∈ a.toList ∧ row.k1 = k1 ∧ row.k2 = k2 := by
  obtain ⟨hm, hc⟩ := lookupBy_some h
  exact ⟨hm, cmpPair_eq_one hc⟩

/-! ### the per-row facts contained in `tablesWF` -/

section WF
variable {T : Tables} (hT : tablesWF T = true)
include hT

theorem wf_langOnly {k : Nat} {row : Row1} (h : lookup1 T.langOnly k = some row) :
    valOk row.l row.s row.r = true ∧ row.k = k ∧
      (k = Spec.undInt ∨ (validLangInt k = true ∧ row.l = k + 1)) := by
  obtain ⟨hm, hk⟩ := lookup1_some h
  simp only [tablesWF, Bool.and_eq_true, List.all_eq_true, Bool.or_eq_true, beq_iff_eq] at hT
  obtain ⟨⟨⟨⟨⟨⟨_, h1⟩, _⟩, _⟩, _⟩, _⟩, _⟩ := hT
  have := h1 row hm
  rw [hk] at this
  exact ⟨this.1, hk, this.2⟩

theorem wf_langRegion {k1 k2 : Nat} {row : Row2} (h : lookup2 T.langRegion k1 k2 = some row) :
    valOk row.l row.s row.r = true ∧ validLangInt k1 = true ∧ validRegionInt k2 = true ∧
      row.l = k1 + 1 ∧ row.r = k2 + 1 := by
  obtain ⟨hm, hk1, hk2⟩ := lookup2_some h
  simp only [tablesWF, Bool.and_eq_true, List.all_eq_true, Bool.or_eq_true, beq_iff_eq] at hT
  obtain ⟨⟨⟨⟨⟨_, h1⟩, _⟩, _⟩, _⟩, _⟩ := hT
  have := h1 row hm
  rw [hk1, hk2] at this
  exact ⟨this.1.1.1.1, this.1.1.1.2, this.1.1.2, this.1.2, this.2⟩

theorem wf_langScript {k1 k2 : Nat} {row : Row2} (h : lookup2 T.langScript k1 k2 = some row) :
    valOk row.l row.s row.r = true ∧ validLangInt k1 = true ∧ validScriptInt k2 = true ∧
      row.l = k1 + 1 ∧ row.s = k2 + 1 := by
  obtain ⟨hm, hk1, hk2⟩ := lookup2_some h
  simp only [tablesWF, Bool.and_eq_true, List.all_eq_true, Bool.or_eq_true, beq_iff_eq] at hT
  obtain ⟨⟨⟨⟨_, h1⟩, _⟩, _⟩, _⟩ := hT
  have := h1 row hm
  rw [hk1, hk2] at this
  exact ⟨this.1.1.1.1, this.1.1.1.2, this.1.1.2, this.1.2, this.2⟩

theorem wf_scriptRegion {k1 k2 : Nat} {row : Row2} (h : lookup2 T.scriptRegion k1 k2 = some row) :
    valOk row.l row.s row.r = true ∧ validScriptInt k1 = true ∧ validRegionInt k2 = true ∧
      row.s = k1 + 1 ∧ row.r = k2 + 1 := by
  obtain ⟨hm, hk1, hk2⟩ := lookup2_some h
  simp only [tablesWF, Bool.and_eq_true, List.all_eq_true, Bool.or_eq_true, beq_iff_eq] at hT
  obtain ⟨⟨⟨_, h1⟩, _⟩, _⟩ := hT
  have := h1 row hm
  rw [hk1, hk2] at this
  exact ⟨this.1.1.1.1, this.1.1.1.2, this.1.1.2, this.1.2, this.2⟩

theorem wf_scriptOnly {k : Nat} {row : Row1} (h : lookup1 T.scriptOnly k = some row) :
    valOk row.l row.s row.r = true ∧ validScriptInt k = true ∧ row.s = k + 1 := by
  obtain ⟨hm, hk⟩ := lookup1_some h
  simp only [tablesWF, Bool.and_eq_true, List.all_eq_true, Bool.or_eq_true, beq_iff_eq] at hT
  obtain ⟨⟨_, h1⟩, _⟩ := hT
  have := h1 row hm
  rw [hk] at this
  exact ⟨this.1.1, this.1.2, this.2⟩

theorem wf_regionOnly {k : Nat} {row : Row1} (h : lookup1 T.regionOnly k = some row) :
    valOk row.l row.s row.r = true ∧ validRegionInt k = true ∧ row.r = k + 1 := by
  obtain ⟨hm, hk⟩ := lookup1_some h
  simp only [tablesWF, Bool.and_eq_true, List.all_eq_true, Bool.or_eq_true, beq_iff_eq] at hT
  obtain ⟨_, h1⟩ := hT
  have := h1 row hm
  rw [hk] at this
  exact ⟨this.1.1, this.1.2, this.2⟩

end WF

/-! ### values of the tables -/

theorem valOk_parts {l s r : Nat} (h : valOk l s r = true) :
    l ≠ 0 ∧ s ≠ 0 ∧ r ≠ 0 ∧ validLangInt (l - 1) = true ∧ validScriptInt (s - 1) = true ∧
      validRegionInt (r - 1) = true := by
  simp only [valOk, Bool.and_eq_true, bne_iff_ne, ne_eq] at h
  obtain ⟨⟨⟨⟨⟨h1, h2⟩, h3⟩, h4⟩, h5⟩, h6⟩ := h
  exact ⟨h1, h2, h3, h4, h5, h6⟩

theorem optOf_of_ne_zero {n : Nat} (h : n ≠ 0) : optOf n = some (n - 1) := by
  unfold optOf
  have : (n == 0) = false := by simpa using h
  rw [this]; rfl

/-- a well-formed table value never panics, and always yields all three subtags -/
theorem langFromParts_eq {l s r : Nat} (h : valOk l s r = true) (sc rg : Option Bytes) :
    Likely.langFromParts l s r sc rg =
      .ok (some (some (unpack (l - 1)), some (sc.getD (unpack (s - 1))), some (rg.getD (unpack (r - 1))))) := by
  obtain ⟨hl, hs, hr, _⟩ := valOk_parts h
  unfold Likely.langFromParts
  rw [optOf_of_ne_zero hl, optOf_of_ne_zero hs, optOf_of_ne_zero hr]
  cases sc <;> cases rg <;> rfl

theorem validLang_of_int {n : Nat} (h : validLangInt n = true) : validLang (some (unpack n)) = true := by
  simp only [validLangInt, Bool.and_eq_true, beq_iff_eq] at h
  simp only [validLang, beq_iff_eq]
  exact h.1
theorem validScript_of_int {n : Nat} (h : validScriptInt n = true) : validScript (some (unpack n)) = true := by
  simp only [validScriptInt, Bool.and_eq_true, beq_iff_eq] at h
  simp only [validScript, beq_iff_eq]
  exact h.1
theorem validRegion_of_int {n : Nat} (h : validRegionInt n = true) : validRegion (some (unpack n)) = true := by
  simp only [validRegionInt, Bool.and_eq_true, beq_iff_eq] at h
  simp only [validRegion, beq_iff_eq]
  exact h.1

theorem unpack_pack_lang {b : Bytes} (h : validLang (some b) = true) : unpack (pack b) = b := by
  simp only [validLang, beq_iff_eq] at h
  exact raw_roundtrip_language b b h
theorem unpack_pack_script {b : Bytes} (h : validScript (some b) = true) : unpack (pack b) = b := by
  simp only [validScript, beq_iff_eq] at h
  exact raw_roundtrip_script b b h
theorem unpack_pack_region {b : Bytes} (h : validRegion (some b) = true) : unpack (pack b) = b := by
  simp only [validRegion, beq_iff_eq] at h
  exact raw_roundtrip_region b b h

/-- a stored language is never the text `und` (that is `Language::default()`, stored as `None`) -/
theorem pack_ne_undInt {b : Bytes} (h : validLang (some b) = true) : pack b ≠ Spec.undInt := by
  intro hp
  simp only [validLang, beq_iff_eq] at h
  obtain ⟨_, h8, hb⟩ := language_bytes_ok b b h
  have hund : b = [117, 110, 100] := by
    apply pack_injective b [117, 110, 100] h8 (by decide)
      (fun c hc => ⟨(hb c hc).1, by have := (hb c hc).2; omega⟩) (by decide)
    rw [hp]; decide
  subst hund
  revert h; decide

theorem validTriple_parts {l : Language} {s r : Option Bytes} (h : validTriple l s r = true) :
    validLang l = true ∧ validScript s = true ∧ validRegion r = true := by
  simp only [validTriple, Bool.and_eq_true] at h
  exact ⟨h.1.1, h.1.2, h.2⟩

/-! ### the cascade of `maximize` as a case-analysis principle -/

/-- `maximize` returns either `Ok(None)` or `lang_from_parts` of a row that a look-up returned, in
    the six situations below (this is just the shape of the function; no table hypothesis). -/
theorem maximize_cases (T : Tables) (l : Language) (s r : Option Bytes)
    (P : Res (Option Triple) → Prop)
    (hnone : P (.ok none))
    (hLR : ∀ lb rb row, l = some lb → s = none → r = some rb →
        lookup2 T.langRegion (pack lb) (pack rb) = some row →
        P (Likely.langFromParts row.l row.s row.r none none))
    (hLS : ∀ lb sb row, l = some lb → s = some sb → r = none →
        lookup2 T.langScript (pack lb) (pack sb) = some row →
        P (Likely.langFromParts row.l row.s row.r none none))
    (hL : ∀ lb row, l = some lb → (s = none ∨ r = none) →
        lookup1 T.langOnly (pack lb) = some row →
        P (Likely.langFromParts row.l row.s row.r s r))
    (hSR : ∀ sb rb row, l = none → s = some sb → r = some rb →
        lookup2 T.scriptRegion (pack sb) (pack rb) = some row →
        P (Likely.langFromParts row.l row.s row.r none none))
    (hS : ∀ sb row, l = none → s = some sb →
        lookup1 T.scriptOnly (pack sb) = some row →
        P (Likely.langFromParts row.l row.s row.r none r))
    (hR : ∀ rb row, l = none → s = none → r = some rb →
        lookup1 T.regionOnly (pack rb) = some row →
        P (Likely.langFromParts row.l row.s row.r none none)) :
    P (Likely.maximize T l s r) := by
  unfold Likely.maximize
  cases l <;> cases s <;> cases r <;>
    simp only [Option.isSome_some, Option.isSome_none, Bool.and_true, Bool.and_false,
      Bool.false_eq_true, if_true, if_false] <;>
    repeat' split
  all_goals
    first
      | exact hnone
      | exact hLR _ _ _ rfl rfl rfl ‹_›
      | exact hLS _ _ _ rfl rfl rfl ‹_›
      | exact hL _ _ rfl (Or.inl rfl) ‹_›
      | exact hL _ _ rfl (Or.inr rfl) ‹_›
      | exact hSR _ _ _ rfl rfl rfl ‹_›
      | exact hS _ _ rfl rfl ‹_›
      | exact hR _ _ rfl rfl rfl ‹_›

/-! ### consequences for `maximize` -/

def isFull (l : Language) (s r : Option Bytes) : Bool := l.isSome && s.isSome && r.isSome

theorem maximize_of_full {T : Tables} {l : Language} {s r : Option Bytes} (h : isFull l s r = true) :
    Likely.maximize T l s r = .ok none := by
  unfold isFull at h
  unfold Likely.maximize
  rw [h]; rfl

/-- under `tablesWF` alone: no panic, no error -/
theorem maximize_ok {T : Tables} (hT : tablesWF T = true) (l : Language) (s r : Option Bytes) :
    ∃ o, Likely.maximize T l s r = .ok o := by
  apply maximize_cases T l s r (fun x => ∃ o, x = .ok o)
  · exact ⟨_, rfl⟩
  · intro lb rb row _ _ _ h
    exact ⟨_, langFromParts_eq (wf_langRegion hT h).1 _ _⟩
  · intro lb sb row _ _ _ h
    exact ⟨_, langFromParts_eq (wf_langScript hT h).1 _ _⟩
  · intro lb row _ _ h
    exact ⟨_, langFromParts_eq (wf_langOnly hT h).1 _ _⟩
  · intro sb rb row _ _ _ h
    exact ⟨_, langFromParts_eq (wf_scriptRegion hT h).1 _ _⟩
  · intro sb row _ _ h
    exact ⟨_, langFromParts_eq (wf_scriptOnly hT h).1 _ _⟩
  · intro rb row _ _ _ h
    exact ⟨_, langFromParts_eq (wf_regionOnly hT h).1 _ _⟩

/-- under `tablesWF` alone: a `Some` result has all three subtags, and the input did not -/
theorem maximize_some_full {T : Tables} (hT : tablesWF T = true) {l : Language} {s r : Option Bytes}
    {t : Triple} (h : Likely.maximize T l s r = .ok (some t)) :
    isFull l s r = false ∧ isFull t.1 t.2.1 t.2.2 = true := by
  refine ⟨?_, ?_⟩
  · cases hf : isFull l s r
    · rfl
    · rw [maximize_of_full hf] at h; cases h
  · revert h
    apply maximize_cases T l s r (fun x => x = .ok (some t) → isFull t.1 t.2.1 t.2.2 = true)
    · intro h; cases h
    · intro lb rb row _ _ _ h
      rw [langFromParts_eq (wf_langRegion hT h).1]; intro e; injection e with e; injection e with e; subst e; rfl
    · intro lb sb row _ _ _ h
      rw [langFromParts_eq (wf_langScript hT h).1]; intro e; injection e with e; injection e with e; subst e; rfl
    · intro lb row _ _ h
      rw [langFromParts_eq (wf_langOnly hT h).1]; intro e; injection e with e; injection e with e; subst e; rfl
    · intro sb rb row _ _ _ h
      rw [langFromParts_eq (wf_scriptRegion hT h).1]; intro e; injection e with e; injection e with e; subst e; rfl
    · intro sb row _ _ h
      rw [langFromParts_eq (wf_scriptOnly hT h).1]; intro e; injection e with e; injection e with e; subst e; rfl
    · intro rb row _ _ _ h
      rw [langFromParts_eq (wf_regionOnly hT h).1]; intro e; injection e with e; injection e with e; subst e; rfl

/-- what C07 (i) says about one result -/
structure Extends (l : Language) (s r : Option Bytes) (t : Triple) : Prop where
  lang : l.isSome = true → t.1 = l
  script : s.isSome = true → t.2.1 = s
  region : r.isSome = true → t.2.2 = r
  valid : validTriple t.1 t.2.1 t.2.2 = true

theorem validTriple_mk {l : Language} {s r : Option Bytes} (h1 : validLang l = true)
    (h2 : validScript s = true) (h3 : validRegion r = true) : validTriple l s r = true := by
  simp only [validTriple, Bool.and_eq_true]; exact ⟨⟨h1, h2⟩, h3⟩

/-- with a valid input: given subtags are kept and the result is valid -/
theorem maximize_extends {T : Tables} (hT : tablesWF T = true) {l : Language} {s r : Option Bytes}
    (hv : validTriple l s r = true) {t : Triple} (h : Likely.maximize T l s r = .ok (some t)) :
    Extends l s r t := by
  obtain ⟨hvl, hvs, hvr⟩ := validTriple_parts hv
  revert h
  apply maximize_cases T l s r (fun x => x = .ok (some t) → Extends l s r t)
  · intro h; cases h
  · intro lb rb row hl hs hr h
    subst hl hs hr
    obtain ⟨hval, _, _, e1, e2⟩ := wf_langRegion hT h
    obtain ⟨_, _, _, v1, v2, v3⟩ := valOk_parts hval
    rw [langFromParts_eq hval]; intro e; injection e with e; injection e with e; subst e
    have a1 : unpack (row.l - 1) = lb := by rw [e1, Nat.add_sub_cancel]; exact unpack_pack_lang hvl
    have a2 : unpack (row.r - 1) = rb := by rw [e2, Nat.add_sub_cancel]; exact unpack_pack_region hvr
    refine ⟨fun _ => ?_, (fun hh => nomatch hh), fun _ => ?_, ?_⟩
    · simp only [a1]
    · simp only [Option.getD_none, a2]
    · exact validTriple_mk (validLang_of_int v1) (validScript_of_int v2) (validRegion_of_int v3)
  · intro lb sb row hl hs hr h
    subst hl hs hr
    obtain ⟨hval, _, _, e1, e2⟩ := wf_langScript hT h
    obtain ⟨_, _, _, v1, v2, v3⟩ := valOk_parts hval
    rw [langFromParts_eq hval]; intro e; injection e with e; injection e with e; subst e
    have a1 : unpack (row.l - 1) = lb := by rw [e1, Nat.add_sub_cancel]; exact unpack_pack_lang hvl
    have a2 : unpack (row.s - 1) = sb := by rw [e2, Nat.add_sub_cancel]; exact unpack_pack_script hvs
    refine ⟨fun _ => ?_, fun _ => ?_, (fun hh => nomatch hh), ?_⟩
    · simp only [a1]
    · simp only [Option.getD_none, a2]
    · exact validTriple_mk (validLang_of_int v1) (validScript_of_int v2) (validRegion_of_int v3)
  · intro lb row hl _ h
    subst hl
    obtain ⟨hval, _, hk⟩ := wf_langOnly hT h
    obtain ⟨_, _, _, v1, v2, v3⟩ := valOk_parts hval
    rw [langFromParts_eq hval]; intro e; injection e with e; injection e with e; subst e
    have e1 : row.l = pack lb + 1 := by
      cases hk with
      | inl hu => exact absurd hu (pack_ne_undInt hvl)
      | inr hk => exact hk.2
    have a1 : unpack (row.l - 1) = lb := by rw [e1, Nat.add_sub_cancel]; exact unpack_pack_lang hvl
    refine ⟨fun _ => ?_, fun hh => ?_, fun hh => ?_, ?_⟩
    · simp only [a1]
    · cases s with
      | none => cases hh
      | some sb => rfl
    · cases r with
      | none => cases hh
      | some rb => rfl
    · refine validTriple_mk (validLang_of_int v1) ?_ ?_
      · cases s with
        | none => exact validScript_of_int v2
        | some sb => exact hvs
      · cases r with
        | none => exact validRegion_of_int v3
        | some rb => exact hvr
  · intro sb rb row hl hs hr h
    subst hl hs hr
    obtain ⟨hval, _, _, e1, e2⟩ := wf_scriptRegion hT h
    obtain ⟨_, _, _, v1, v2, v3⟩ := valOk_parts hval
    rw [langFromParts_eq hval]; intro e; injection e with e; injection e with e; subst e
    have a1 : unpack (row.s - 1) = sb := by rw [e1, Nat.add_sub_cancel]; exact unpack_pack_script hvs
    have a2 : unpack (row.r - 1) = rb := by rw [e2, Nat.add_sub_cancel]; exact unpack_pack_region hvr
    refine ⟨(fun hh => nomatch hh), fun _ => ?_, fun _ => ?_, ?_⟩
    · simp only [Option.getD_none, a1]
    · simp only [Option.getD_none, a2]
    · exact validTriple_mk (validLang_of_int v1) (validScript_of_int v2) (validRegion_of_int v3)
  · intro sb row hl hs h
    subst hl hs
    obtain ⟨hval, _, e1⟩ := wf_scriptOnly hT h
    obtain ⟨_, _, _, v1, v2, v3⟩ := valOk_parts hval
    rw [langFromParts_eq hval]; intro e; injection e with e; injection e with e; subst e
    have a1 : unpack (row.s - 1) = sb := by rw [e1, Nat.add_sub_cancel]; exact unpack_pack_script hvs
    refine ⟨(fun hh => nomatch hh), fun _ => ?_, fun hh => ?_, ?_⟩
    · simp only [Option.getD_none, a1]
    · cases r with
      | none => cases hh
      | some rb => rfl
    · refine validTriple_mk (validLang_of_int v1) (validScript_of_int v2) ?_
      cases r with
      | none => exact validRegion_of_int v3
      | some rb => exact hvr
  · intro rb row hl hs hr h
    subst hl hs hr
    obtain ⟨hval, _, e1⟩ := wf_regionOnly hT h
    obtain ⟨_, _, _, v1, v2, v3⟩ := valOk_parts hval
    rw [langFromParts_eq hval]; intro e; injection e with e; injection e with e; subst e
    have a1 : unpack (row.r - 1) = rb := by rw [e1, Nat.add_sub_cancel]; exact unpack_pack_region hvr
    refine ⟨(fun hh => nomatch hh), (fun hh => nomatch hh), fun _ => ?_, ?_⟩
    · simp only [Option.getD_none, a1]
    · exact validTriple_mk (validLang_of_int v1) (validScript_of_int v2) (validRegion_of_int v3)

/-! ### `minimize` -/

/-- what an identifier maximizes to: itself when already full (mod.rs:110-114) -/
def maxOf (T : Tables) (l : Language) (s r : Option Bytes) : Res (Option Triple) :=
  if isFull l s r then .ok (some (l, s, r)) else Likely.maximize T l s r

/-- "(`mx.1`, s, r) maximizes back to `mx`" -/
def back (T : Tables) (mx : Triple) (s r : Option Bytes) : Bool :=
  decide (Likely.maximize T mx.1 s r = .ok (some mx))

/-- the first of [language], [language, region], [language, script] that maximizes back to `mx` -/
def firstOf (T : Tables) (mx : Triple) : Option Triple :=
  if back T mx none none then some (mx.1, none, none)
  else if mx.2.2.isSome && back T mx none mx.2.2 then some (mx.1, none, mx.2.2)
  else if mx.2.1.isSome && back T mx mx.2.1 none then some (mx.1, mx.2.1, none)
  else none

theorem maxOf_ok {T : Tables} (hT : tablesWF T = true) (l : Language) (s r : Option Bytes) :
    ∃ o, maxOf T l s r = .ok o := by
  unfold maxOf
  split
  · exact ⟨_, rfl⟩
  · exact maximize_ok hT l s r

theorem maxOf_of_full {T : Tables} {l : Language} {s r : Option Bytes} (h : isFull l s r = true) :
    maxOf T l s r = .ok (some (l, s, r)) := by
  unfold maxOf; rw [h]; rfl

theorem maxOf_of_not_full {T : Tables} {l : Language} {s r : Option Bytes} (h : isFull l s r = false) :
    maxOf T l s r = Likely.maximize T l s r := by
  unfold maxOf; rw [h]; rfl

/-- the result of `maxOf` is full (tablesWF only) -/
theorem maxOf_full {T : Tables} (hT : tablesWF T = true) {l : Language} {s r : Option Bytes} {mx : Triple}
    (h : maxOf T l s r = .ok (some mx)) : isFull mx.1 mx.2.1 mx.2.2 = true := by
  cases hf : isFull l s r
  · rw [maxOf_of_not_full hf] at h
    exact (maximize_some_full hT h).2
  · rw [maxOf_of_full hf] at h
    injection h with h; injection h with h; subst h
    exact hf

theorem trial_eq {T : Tables} (hT : tablesWF T = true) (mx : Triple) (s r : Option Bytes) :
    Likely.trial T mx s r = .ok (back T mx s r) := by
  obtain ⟨o, ho⟩ := maximize_ok hT mx.1 s r
  unfold Likely.trial back
  rw [ho]
  cases o with
  | none => simp
  | some t =>
    by_cases h : t = mx
    · subst h; simp
    · have : (t == mx) = false := by simpa using h
      simp [this, h]

theorem minimize_of_maxOf_none {T : Tables} {l : Language} {s r : Option Bytes}
    (h : maxOf T l s r = .ok none) : Likely.minimize T l s r = .ok none := by
  unfold maxOf isFull at h
  unfold Likely.minimize
  simp only [h]

theorem minimize_of_maxOf_some {T : Tables} (hT : tablesWF T = true) {l : Language} {s r : Option Bytes}
    {mx : Triple} (h : maxOf T l s r = .ok (some mx)) :
    Likely.minimize T l s r = .ok (firstOf T mx) := by
  unfold maxOf isFull at h
  unfold Likely.minimize
  simp only [h, trial_eq hT]
  unfold firstOf
  cases back T mx none none <;> cases back T mx none mx.2.2 <;> cases back T mx mx.2.1 none <;>
    cases mx.2.1.isSome <;> cases mx.2.2.isSome <;> rfl

/-- under `tablesWF` alone: no panic, no error -/
theorem minimize_ok {T : Tables} (hT : tablesWF T = true) (l : Language) (s r : Option Bytes) :
    ∃ o, Likely.minimize T l s r = .ok o := by
  obtain ⟨o, ho⟩ := maxOf_ok hT l s r
  cases o with
  | none => exact ⟨_, minimize_of_maxOf_none ho⟩
  | some mx => exact ⟨_, minimize_of_maxOf_some hT ho⟩

/-- `minimize` returned `Some(m)`: there is the maximized form `mx`, and `m` is the first trial -/
theorem minimize_some_inv {T : Tables} (hT : tablesWF T = true) {l : Language} {s r : Option Bytes}
    {m : Triple} (h : Likely.minimize T l s r = .ok (some m)) :
    ∃ mx, maxOf T l s r = .ok (some mx) ∧ firstOf T mx = some m := by
  obtain ⟨o, ho⟩ := maxOf_ok hT l s r
  cases o with
  | none => rw [minimize_of_maxOf_none ho] at h; cases h
  | some mx =>
    rw [minimize_of_maxOf_some hT ho] at h
    injection h with h
    exact ⟨mx, ho, h⟩

/-- every possible value of `firstOf` -/
theorem firstOf_some {T : Tables} {mx m : Triple} (h : firstOf T mx = some m) :
    (m = (mx.1, none, none) ∨ m = (mx.1, none, mx.2.2) ∨ m = (mx.1, mx.2.1, none)) ∧
      Likely.maximize T m.1 m.2.1 m.2.2 = .ok (some mx) := by
  unfold firstOf at h
  split at h
  · rename_i hb
    injection h with h; subst h
    exact ⟨Or.inl rfl, by simpa [back] using hb⟩
  · split at h
    · rename_i hb
      injection h with h; subst h
      simp only [Bool.and_eq_true] at hb
      exact ⟨Or.inr (Or.inl rfl), by simpa [back] using hb.2⟩
    · split at h
      · rename_i hb
        injection h with h; subst h
        simp only [Bool.and_eq_true] at hb
        exact ⟨Or.inr (Or.inr rfl), by simpa [back] using hb.2⟩
      · cases h

theorem firstOf_not_full {T : Tables} {mx m : Triple} (h : firstOf T mx = some m) :
    isFull m.1 m.2.1 m.2.2 = false := by
  obtain ⟨hm, _⟩ := firstOf_some h
  rcases hm with rfl | rfl | rfl <;> simp [isFull]

/-- the minimized form maximizes to the same thing -/
theorem firstOf_maxOf {T : Tables} {mx m : Triple} (h : firstOf T mx = some m) :
    maxOf T m.1 m.2.1 m.2.2 = .ok (some mx) := by
  rw [maxOf_of_not_full (firstOf_not_full h)]
  exact (firstOf_some h).2

/-! ### `LanguageIdentifier` / `Locale` level -/

/-- writing a triple into the three subtag fields (lib.rs:366-375, 391-401) -/
def _root_.UL.LangId.withTriple (x : LangId) (t : Triple) : LangId :=
  { x with language := t.1, script := t.2.1, region := t.2.2 }

theorem applyTriple_none (x : LangId) : LangId.applyTriple x (.ok none) = .ok (x, false) := rfl
theorem applyTriple_some (x : LangId) (t : Triple) :
    LangId.applyTriple x (.ok (some t)) = .ok (x.withTriple t, true) := rfl

theorem applyTriple_ok_inv {x y : LangId} {r : Res (Option Triple)} {b : Bool}
    (h : LangId.applyTriple x r = .ok (y, b)) :
    (r = .ok none ∧ y = x ∧ b = false) ∨ (∃ t, r = .ok (some t) ∧ y = x.withTriple t ∧ b = true) := by
  cases r with
  | err e => cases h
  | panic => cases h
  | ok o =>
    cases o with
    | none =>
      rw [applyTriple_none] at h
      injection h with h; injection h with h1 h2
      exact Or.inl ⟨rfl, h1.symm, h2.symm⟩
    | some t =>
      rw [applyTriple_some] at h
      injection h with h; injection h with h1 h2
      exact Or.inr ⟨t, rfl, h1.symm, h2.symm⟩

theorem withTriple_self (x : LangId) : x.withTriple (x.language, x.script, x.region) = x := rfl
theorem withTriple_withTriple (x : LangId) (t u : Triple) : (x.withTriple t).withTriple u = x.withTriple u := rfl
theorem withTriple_variants (x : LangId) (t : Triple) : (x.withTriple t).variants = x.variants := rfl

theorem step_maximize (T : Tables) (x : Locale) :
    step T x .maximize = outOfBool x (x.id.maximize T) (setId x) := rfl
theorem step_minimize (T : Tables) (x : Locale) :
    step T x .minimize = outOfBool x (x.id.minimize T) (setId x) := rfl

/-! ### a small hand-made table for the non-vacuity examples

  LANG_ONLY: zh → zh-Hans-CN, en → en-Latn-US, und → en-Latn-US;  LANG_REGION: en-GB → en-Latn-GB;
  LANG_SCRIPT: zh-Hant → zh-Hant-TW;  SCRIPT_REGION: und-Latn-GB → en-Latn-GB;
  SCRIPT_ONLY: und-Latn → en-Latn-US, und-Hant → zh-Hant-TW;  REGION_ONLY: und-US → en-Latn-US, und-TW → zh-Hant-TW. -/
namespace MaxMin

def en : Bytes := [101, 110]
def zh : Bytes := [122, 104]
def xx : Bytes := [120, 120]
def latn : Bytes := [76, 97, 116, 110]
def hant : Bytes := [72, 97, 110, 116]
def hans : Bytes := [72, 97, 110, 115]
def us : Bytes := [85, 83]
def gb : Bytes := [71, 66]
def tw : Bytes := [84, 87]
def cn : Bytes := [67, 78]
def de : Bytes := [68, 69]

def tiny : Tables where
  langOnly := #[⟨26746, 26747, 1936613705, 20036⟩, ⟨28261, 28262, 1853120845, 21334⟩,
    ⟨6581877, 28262, 1853120845, 21334⟩]
  langRegion := #[⟨28261, 16967, 28262, 1853120845, 16968⟩]
  langScript := #[⟨26746, 1953390920, 26747, 1953390921, 22357⟩]
  scriptRegion := #[⟨1853120844, 16967, 28262, 1853120845, 16968⟩]
  scriptOnly := #[⟨1853120844, 28262, 1853120845, 21334⟩, ⟨1953390920, 26747, 1953390921, 22357⟩]
  regionOnly := #[⟨21333, 28262, 1853120845, 21334⟩, ⟨22356, 26747, 1953390921, 22357⟩]

theorem tiny_wf : tablesWF tiny = true := by decide

end MaxMin

/-! ### more on `minimize` (used by C08) -/

/-- `firstOf` with the trials written out -/
theorem firstOf_explicit (T : Tables) (mx : Triple) :
    firstOf T mx =
      if Likely.maximize T mx.1 none none = .ok (some mx) then some (mx.1, none, none)
      else if mx.2.2.isSome = true ∧ Likely.maximize T mx.1 none mx.2.2 = .ok (some mx) then some (mx.1, none, mx.2.2)
      else if mx.2.1.isSome = true ∧ Likely.maximize T mx.1 mx.2.1 none = .ok (some mx) then some (mx.1, mx.2.1, none)
      else none := by
  unfold firstOf back
  simp only [Bool.and_eq_true, decide_eq_true_eq]

/-- when `mx` is full the presence tests are redundant -/
theorem firstOf_explicit_full (T : Tables) (mx : Triple) (hf : isFull mx.1 mx.2.1 mx.2.2 = true) :
    firstOf T mx =
      if Likely.maximize T mx.1 none none = .ok (some mx) then some (mx.1, none, none)
      else if Likely.maximize T mx.1 none mx.2.2 = .ok (some mx) then some (mx.1, none, mx.2.2)
      else if Likely.maximize T mx.1 mx.2.1 none = .ok (some mx) then some (mx.1, mx.2.1, none)
      else none := by
  simp only [isFull, Bool.and_eq_true] at hf
  rw [firstOf_explicit]
  simp only [hf.1.2, hf.2, true_and]

/-- the maximized form extends a valid input and is valid -/
theorem maxOf_extends {T : Tables} (hT : tablesWF T = true) {l : Language} {s r : Option Bytes}
    (hv : validTriple l s r = true) {mx : Triple} (h : maxOf T l s r = .ok (some mx)) :
    Extends l s r mx := by
  cases hf : isFull l s r
  · rw [maxOf_of_not_full hf] at h
    exact maximize_extends hT hv h
  · rw [maxOf_of_full hf] at h
    injection h with h; injection h with h; subst h
    exact ⟨fun _ => rfl, fun _ => rfl, fun _ => rfl, hv⟩

/-- minimizing the minimized form gives it back -/
theorem minimize_firstOf {T : Tables} (hT : tablesWF T = true) {mx m : Triple} (h : firstOf T mx = some m) :
    Likely.minimize T m.1 m.2.1 m.2.2 = .ok (some m) := by
  rw [minimize_of_maxOf_some hT (firstOf_maxOf h), h]

theorem validTriple_of_firstOf {T : Tables} {mx m : Triple} (h : firstOf T mx = some m)
    (hv : validTriple mx.1 mx.2.1 mx.2.2 = true) : validTriple m.1 m.2.1 m.2.2 = true := by
  obtain ⟨v1, v2, v3⟩ := validTriple_parts hv
  obtain ⟨hm, _⟩ := firstOf_some h
  rcases hm with rfl | rfl | rfl
  · exact validTriple_mk v1 rfl rfl
  · exact validTriple_mk v1 rfl v3
  · exact validTriple_mk v1 v2 rfl

/-- number of {script, region} subtags present -/
def cntSR (s r : Option Bytes) : Nat := s.isSome.toNat + r.isSome.toNat

/-- a second well-formed table (en → en-Latn-GB, und → en-Latn-US), for the witness that the
    "never lengthens" clause of C08 needs a stored language value -/
def MaxMin.tiny2 : Tables where
  langOnly := #[⟨28261, 28262, 1853120845, 16968⟩, ⟨6581877, 28262, 1853120845, 21334⟩]
  langRegion := #[]
  langScript := #[]
  scriptRegion := #[]
  scriptOnly := #[]
  regionOnly := #[]

theorem MaxMin.tiny2_wf : tablesWF MaxMin.tiny2 = true := by decide

end UL.Mm
