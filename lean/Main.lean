import UnicLocale.Driver
import UnicLocale.CldrCheck

partial def loop (hin : IO.FS.Stream) (hout : IO.FS.Stream) : IO Unit := do
  let line ← hin.getLine
  if line.isEmpty then return ()
  let l := if line.endsWith "\n" then (line.dropEnd 1).toString else line
  hout.putStrLn (UL.Driver.answer l)
  loop hin hout

def main (args : List String) : IO UInt32 := do
  match args with
  | ["cldrcheck", root] => UL.CldrCheck.run root
  | _ =>
    let hin ← IO.getStdin
    let hout ← IO.getStdout
    loop hin hout
    return 0
