import UnicLocale.Driver

partial def loop (hin : IO.FS.Stream) (hout : IO.FS.Stream) : IO Unit := do
  let line ← hin.getLine
  if line.isEmpty then return ()
  let l := if line.endsWith "\n" then (line.dropEnd 1).toString else line
  hout.putStrLn (UL.Driver.answer l)
  loop hin hout

def main : IO Unit := do
  let hin ← IO.getStdin
  let hout ← IO.getStdout
  loop hin hout
