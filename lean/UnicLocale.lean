-- Root of the `UnicLocale` library.
import UnicLocale.Model.Basic
import UnicLocale.Model.Subtags
import UnicLocale.Model.LangId
import UnicLocale.Model.Ext
import UnicLocale.Model.Locale
import UnicLocale.Model.Likely
import UnicLocale.Model.Ops
import UnicLocale.Model.Cmp
import UnicLocale.Spec.Inv
import UnicLocale.Spec.TablesWF
