//! Generator streams.  Every random choice derives from one PRNG state (the seed), so a stream is
//! reproducible; the exhaustive streams do not depend on the seed.
//!
//! A stream prints complete request lines.  Streams that produce plain inputs take the list of ops
//! to apply to each input from the environment variable `GEN_OPS` (comma separated).

use crate::proto::*;
use std::io::Write;

pub struct Rng(u64);
impl Rng {
    pub fn new(seed: u64) -> Self {
        Rng(seed.wrapping_mul(0x9E3779B97F4A7C15).wrapping_add(0x1234_5678_9ABC_DEF1))
    }
    pub fn next(&mut self) -> u64 {
        // splitmix64
        self.0 = self.0.wrapping_add(0x9E3779B97F4A7C15);
        let mut z = self.0;
        z = (z ^ (z >> 30)).wrapping_mul(0xBF58476D1CE4E5B9);
        z = (z ^ (z >> 27)).wrapping_mul(0x94D049BB133111EB);
        z ^ (z >> 31)
    }
    pub fn below(&mut self, n: usize) -> usize {
        (self.next() % (n as u64)) as usize
    }
    pub fn chance(&mut self, num: u64, den: u64) -> bool {
        self.next() % den < num
    }
    pub fn pick<'a, T>(&mut self, v: &'a [T]) -> &'a T {
        &v[self.below(v.len())]
    }
}

// ------------------------------------------------------------------------------------------
// dictionary: literals of the library sources that the baseline tree did not have (checklib/srcdict.py writes the
// file named by GEN_DICT: `t <hex token>` / `n <integer>` lines).  Empty on the unchanged tree: then no generator
// below consumes a random number more or prints a line more than it did without the dictionary.

static DICT: std::sync::OnceLock<(Vec<Vec<u8>>, Vec<usize>)> = std::sync::OnceLock::new();

pub fn dict() -> &'static (Vec<Vec<u8>>, Vec<usize>) {
    DICT.get_or_init(|| {
        let mut toks = vec![];
        let mut ints = vec![];
        if let Ok(p) = std::env::var("GEN_DICT") {
            if let Ok(text) = std::fs::read_to_string(&p) {
                for line in text.lines() {
                    if let Some(h) = line.strip_prefix("t ") {
                        if let Some(b) = unhex(h.trim()) {
                            toks.push(b);
                        }
                    } else if let Some(n) = line.strip_prefix("n ") {
                        if let Ok(n) = n.trim().parse::<usize>() {
                            ints.push(n);
                        }
                    }
                }
            }
        }
        (toks, ints)
    })
}

/// dictionary tokens with their upper-case and title-case spellings
fn dict_spellings() -> Vec<Vec<u8>> {
    let mut v = vec![];
    for t in &dict().0 {
        v.push(t.clone());
        v.push(t.to_ascii_uppercase());
        v.push(t.to_ascii_lowercase());
        let mut ti = t.to_ascii_lowercase();
        if let Some(c) = ti.first_mut() {
            *c = c.to_ascii_uppercase();
        }
        v.push(ti);
    }
    v.sort();
    v.dedup();
    v
}

fn dict_strs() -> Vec<String> {
    dict().0.iter().filter_map(|t| String::from_utf8(t.clone()).ok()).collect()
}

/// with probability 1/5 a dictionary token of the wanted shape (never consumes randomness when the dictionary is empty)
fn dict_tok(r: &mut Rng, ok: fn(&[u8]) -> bool) -> Option<Vec<u8>> {
    let d = &dict().0;
    if d.is_empty() || !r.chance(1, 5) {
        return None;
    }
    let c: Vec<&Vec<u8>> = d.iter().filter(|t| ok(t)).collect();
    if c.is_empty() {
        None
    } else {
        Some((*r.pick(&c)).clone())
    }
}

fn sh_alpha(t: &[u8]) -> bool {
    t.iter().all(|c| c.is_ascii_alphabetic())
}
fn sh_alnum(t: &[u8]) -> bool {
    t.iter().all(|c| c.is_ascii_alphanumeric())
}
fn sh_lang(t: &[u8]) -> bool {
    sh_alpha(t) && (2..=8).contains(&t.len()) && t.len() != 4
}
fn sh_script(t: &[u8]) -> bool {
    sh_alpha(t) && t.len() == 4
}
fn sh_region(t: &[u8]) -> bool {
    (t.len() == 2 && sh_alpha(t)) || (t.len() == 3 && t.iter().all(|c| c.is_ascii_digit()))
}
fn sh_variant(t: &[u8]) -> bool {
    sh_alnum(t) && ((5..=8).contains(&t.len()) || (t.len() == 4 && t[0].is_ascii_digit()))
}
fn sh_type(t: &[u8]) -> bool {
    sh_alnum(t) && (3..=8).contains(&t.len())
}
fn sh_key(t: &[u8]) -> bool {
    t.len() == 2 && t[0].is_ascii_alphanumeric() && t[1].is_ascii_alphabetic()
}
fn sh_tkey(t: &[u8]) -> bool {
    t.len() == 2 && t[0].is_ascii_alphabetic() && t[1].is_ascii_digit()
}
fn sh_tag(t: &[u8]) -> bool {
    sh_alnum(t) && (1..=8).contains(&t.len())
}

fn ops_env() -> Vec<String> {
    std::env::var("GEN_OPS")
        .unwrap_or_else(|_| "loc".to_string())
        .split(',')
        .map(|s| s.to_string())
        .collect()
}

fn emit_input(out: &mut dyn Write, ops: &[String], input: &[u8]) {
    // the ops applied to one input are asked in a rotated order for every second input, so that each op gets to be the
    // last call before the next input (a failing call that leaves something behind is then followed by a fresh input)
    static COUNT: std::sync::atomic::AtomicUsize = std::sync::atomic::AtomicUsize::new(0);
    let i = COUNT.fetch_add(1, std::sync::atomic::Ordering::Relaxed);
    let rot = if i % 2 == 1 && !ops.is_empty() { (i / 2) % ops.len() } else { 0 };
    let h = hex(input);
    for k in 0..ops.len() {
        writeln!(out, "{} {}", ops[(k + rot) % ops.len()], h).unwrap();
    }
}

// ------------------------------------------------------------------------------------------
// S1: boundary-class token alphabet

pub fn token_alphabet(full: bool) -> Vec<Vec<u8>> {
    let mut t: Vec<Vec<u8>> = vec![];
    let letters = b"abcdefghi";
    let digits = b"123456789";
    let mixed = b"AbCdEfGhI";
    for n in 0..=9usize {
        t.push(letters[..n].to_vec());
        if n >= 1 {
            t.push(digits[..n].to_vec());
            if full || n <= 5 {
                t.push(mixed[..n].to_vec());
            }
        }
        if n >= 2 {
            let mut dl = letters[..n].to_vec();
            dl[0] = b'1';
            t.push(dl); // digit + letters
            let mut ld = letters[..n].to_vec();
            ld[n - 1] = b'9';
            t.push(ld); // letters + digit
            if full {
                let mut dot = letters[..n].to_vec();
                dot[n / 2] = b'.';
                t.push(dot);
            }
        }
    }
    for w in [&b"und"[..], b"true", b"root", b"UND", b"True", b"en", b"US", b"Latn", b"419", b"macos", b"h0", b"ca", b"1a"] {
        t.push(w.to_vec());
    }
    let singles: &[u8] = if full {
        b"abcdefghijklmnopqrstuvwxyzABCDEFGHIJKLMNOPQRSTUVWXYZ0123456789"
    } else {
        b"atuxTUX01z"
    };
    for &c in singles {
        t.push(vec![c]);
    }
    for w in [&b"*"[..], b" ", b"\0", b"\x7f", b"\x80", b"\xff", b"a*c", b"ab cd", b"ab\0", b"\xc3\x81\xc3\x81", b"abc\xffe", b"$"] {
        t.push(w.to_vec());
    }
    t.extend(dict_spellings());
    t.sort();
    t.dedup();
    t
}

fn join(tokens: &[&Vec<u8>], sep: u8) -> Vec<u8> {
    let mut v = vec![];
    for (i, t) in tokens.iter().enumerate() {
        if i > 0 {
            v.push(sep);
        }
        v.extend_from_slice(t);
    }
    v
}

/// one prefix per control state of the parsers
pub const STATE_PREFIXES: &[&str] = &[
    "", "en", "und", "en-Latn", "en-US", "en-Latn-US", "en-macos", "en-Latn-US-macos-1996",
    "en-u", "en-u-foo", "en-u-ca", "en-u-ca-foo", "en-u-foo-ca-bar-nu", "en-t", "en-t-es", "en-t-es-AR",
    "en-t-es-Latn-AR-macos", "en-t-h0", "en-t-es-h0", "en-t-es-h0-foo", "en-t-h0-foo", "en-t-h0-foo-m0-bar",
    "en-x", "en-x-a", "en-x-foo-bar", "en-u-ca-t", "en-u-ca-foo-t-es", "en-u-ca-foo-t-h0-bar", "en-t-es-u",
    "en-t-h0-foo-u", "en-t-h0-foo-u-ca", "en-t-es-u-ca-x", "en-u-ca-x", "en-t-h0-x", "en-", "en--", "en-u-",
    "en-u-ca-", "en-t-", "en-t-h0-", "-", "en-u-ca-foo-t-h0-bar-x-a",
];

/// one representative per class the parsers distinguish (the third / fourth position of the thorough enumerations)
fn mini_alphabet() -> Vec<Vec<u8>> {
    [
        &b""[..], b"a", b"u", b"t", b"x", b"1", b"ab", b"a1", b"1a", b"abc", b"123", b"abcd", b"1abc", b"abcde", b"abcdefgh", b"abcdefghi",
        b"true", b"und", b"US", b"Latn", b"h0", b"*", b"\xff",
    ]
    .iter()
    .map(|t| t.to_vec())
    .chain(dict().0.iter().cloned())
    .collect()
}

fn stream_tokens(thorough: bool, out: &mut dyn Write) {
    let ops = ops_env();
    let full = token_alphabet(true);
    let red = token_alphabet(false);
    let mini = mini_alphabet();
    // (i) all sequences up to length 2 over the full alphabet, 3 over the reduced (4 in thorough)
    emit_input(out, &ops, b"");
    for a in &full {
        emit_input(out, &ops, a);
        for b in &full {
            emit_input(out, &ops, &join(&[a, b], b'-'));
        }
    }
    for a in &red {
        for b in &red {
            for c in &red {
                emit_input(out, &ops, &join(&[a, b, c], b'-'));
            }
            if thorough {
                for c in &mini {
                    for d in &mini {
                        emit_input(out, &ops, &join(&[a, b, c, d], b'-'));
                    }
                }
            }
        }
    }
    // (ii) state cover x continuations
    for p in STATE_PREFIXES {
        let pv = p.as_bytes().to_vec();
        for a in &full {
            emit_input(out, &ops, &join(&[&pv, a], b'-'));
            for b in &red {
                emit_input(out, &ops, &join(&[&pv, a, b], b'-'));
                if thorough {
                    for c in &mini {
                        emit_input(out, &ops, &join(&[&pv, a, b, c], b'-'));
                    }
                }
            }
        }
    }
}

// ------------------------------------------------------------------------------------------
// S2: grammar-directed well-formed locales (structured, so that C09 can permute the parts)

#[derive(Clone, Debug, Default)]
pub struct Shape {
    pub lang: Vec<u8>,
    pub script: Option<Vec<u8>>,
    pub region: Option<Vec<u8>>,
    pub variants: Vec<Vec<u8>>,
    pub u: Option<(Vec<Vec<u8>>, Vec<(Vec<u8>, Vec<Vec<u8>>)>)>,
    pub t: Option<(Option<Vec<Vec<u8>>>, Vec<(Vec<u8>, Vec<Vec<u8>>)>)>,
    pub u_first: bool,
    pub x: Option<Vec<Vec<u8>>>,
}

fn rand_word(r: &mut Rng, alphabet: &[u8], lo: usize, hi: usize) -> Vec<u8> {
    let n = lo + r.below(hi - lo + 1);
    (0..n).map(|_| *r.pick(alphabet)).collect()
}

const ALPHA: &[u8] = b"abcdefghijklmnopqrstuvwxyz";
const DIGIT: &[u8] = b"0123456789";
const ALNUM: &[u8] = b"abcdefghijklmnopqrstuvwxyz0123456789";

fn w<S: AsRef<[u8]>>(s: S) -> Vec<u8> {
    s.as_ref().to_vec()
}

fn gen_lang(r: &mut Rng) -> Vec<u8> {
    if let Some(t) = dict_tok(r, sh_lang) {
        return t;
    }
    if r.chance(2, 3) {
        w(r.pick(&["en", "fr", "und", "zh", "sr", "ar", "de", "abc", "abcde", "abcdefgh", "he", "uz", "az", "ku", "mul", "mis", "zxx", "yue", "mn", "pa", "ms", "ha", "eo", "iw", "in", "ji", "jw", "mo", "sh", "tl", "no"]))
    } else if r.chance(1, 2) {
        rand_word(r, ALPHA, 2, 3)
    } else {
        rand_word(r, ALPHA, 5, 8)
    }
}
fn gen_script(r: &mut Rng) -> Vec<u8> {
    if let Some(t) = dict_tok(r, sh_script) {
        return t;
    }
    if r.chance(2, 3) {
        w(r.pick(&["Latn", "Cyrl", "Arab", "Hant", "Hebr", "Mong", "Zzzz", "Zyyy", "Zinh", "Hans", "Jpan", "Adlm", "Thaa", "Grek", "Deva"]))
    } else {
        rand_word(r, ALPHA, 4, 4)
    }
}
fn gen_region(r: &mut Rng) -> Vec<u8> {
    if let Some(t) = dict_tok(r, sh_region) {
        return t;
    }
    if r.chance(2, 3) {
        w(r.pick(&["US", "GB", "419", "001", "RS", "AF", "CN", "ZZ", "XX", "AA", "QO", "EU", "999", "000", "150", "TW", "MN", "EG", "ME", "BU", "DD", "YU", "ZR", "UK", "SU"]))
    } else if r.chance(1, 2) {
        rand_word(r, ALPHA, 2, 2)
    } else {
        rand_word(r, DIGIT, 3, 3)
    }
}
fn gen_variant(r: &mut Rng) -> Vec<u8> {
    if let Some(t) = dict_tok(r, sh_variant) {
        return t;
    }
    if r.chance(2, 3) {
        w(r.pick(&["macos", "valencia", "1996", "1abc", "posix", "abcde", "abcdefgh", "fonipa", "12345", "rozaj", "1606nict", "ekavsk", "zzzzz"]))
    } else if r.chance(1, 2) {
        rand_word(r, ALNUM, 5, 8)
    } else {
        let mut v = rand_word(r, ALNUM, 4, 4);
        v[0] = *r.pick(DIGIT);
        v
    }
}
fn gen_type(r: &mut Rng) -> Vec<u8> {
    if let Some(t) = dict_tok(r, sh_type) {
        return t;
    }
    if r.chance(3, 4) {
        w(r.pick(&["buddhist", "gregory", "true", "latn", "h12", "abc", "foo", "bar", "hybrid", "abc12345", "123", "false", "yes", "und", "root", "zzzzzzzz", "000"]))
    } else {
        rand_word(r, ALNUM, 3, 8)
    }
}
fn gen_key(r: &mut Rng) -> Vec<u8> {
    if let Some(t) = dict_tok(r, sh_key) {
        return t;
    }
    if r.chance(3, 4) {
        return w(r.pick(&["ca", "nu", "hc", "co", "1a", "kf", "zz", "ta"]));
    }
    vec![*r.pick(ALNUM), *r.pick(ALPHA)]
}
fn gen_tkey(r: &mut Rng) -> Vec<u8> {
    if let Some(t) = dict_tok(r, sh_tkey) {
        return t;
    }
    if r.chance(3, 4) {
        return w(r.pick(&["h0", "m0", "d0", "s1", "k9", "t0", "x0", "u1"]));
    }
    vec![*r.pick(ALPHA), *r.pick(DIGIT)]
}
fn gen_langid_tokens(r: &mut Rng) -> Vec<Vec<u8>> {
    let mut v = vec![gen_lang(r)];
    if r.chance(1, 3) {
        v.push(gen_script(r));
    }
    if r.chance(1, 2) {
        v.push(gen_region(r));
    }
    for _ in 0..[0, 0, 0, 1, 2][r.below(5)] {
        v.push(gen_variant(r));
    }
    v
}

pub fn gen_shape(r: &mut Rng, allow_dup_keys: bool) -> Shape {
    let mut s = Shape::default();
    s.lang = gen_lang(r);
    if r.chance(1, 3) {
        s.script = Some(gen_script(r));
    }
    if r.chance(1, 2) {
        s.region = Some(gen_region(r));
    }
    let nv = [0, 0, 0, 1, 1, 2, 3][r.below(7)];
    for _ in 0..nv {
        s.variants.push(gen_variant(r));
    }
    if nv > 0 && r.chance(1, 6) {
        let d = s.variants[0].clone();
        s.variants.push(d);
    }
    if r.chance(1, 2) {
        let na = [0, 0, 1, 2, 3][r.below(5)];
        let mut attrs: Vec<Vec<u8>> = (0..na).map(|_| gen_type(r)).collect();
        if na > 0 && r.chance(1, 6) {
            let d = attrs[0].clone();
            attrs.push(d);
        }
        let nk = [0, 1, 1, 2, 3][r.below(5)];
        let mut kws: Vec<(Vec<u8>, Vec<Vec<u8>>)> = vec![];
        for _ in 0..nk {
            let k = gen_key(r);
            if !allow_dup_keys && kws.iter().any(|(k2, _)| k2.eq_ignore_ascii_case(&k)) {
                continue;
            }
            let nt = [0, 1, 1, 1, 2, 3][r.below(6)];
            kws.push((k, (0..nt).map(|_| gen_type(r)).collect()));
        }
        s.u = Some((attrs, kws));
    }
    if r.chance(1, 2) {
        let tl = if r.chance(1, 2) { Some(gen_langid_tokens(r)) } else { None };
        let nf = [0, 1, 1, 2, 3][r.below(5)];
        let mut fs: Vec<(Vec<u8>, Vec<Vec<u8>>)> = vec![];
        for _ in 0..nf {
            let k = gen_tkey(r);
            if !allow_dup_keys && fs.iter().any(|(k2, _)| k2.eq_ignore_ascii_case(&k)) {
                continue;
            }
            let nt = [0, 1, 1, 1, 2, 3][r.below(6)];
            fs.push((k, (0..nt).map(|_| gen_type(r)).collect()));
        }
        s.t = Some((tl, fs));
    }
    s.u_first = r.chance(1, 2);
    if r.chance(1, 3) {
        let n = 1 + r.below(3);
        s.x = Some(
            (0..n)
                .map(|_| {
                    if let Some(t) = dict_tok(r, sh_tag) {
                        t
                    } else if r.chance(1, 2) {
                        w(r.pick(&["a", "foo", "priv", "1", "abcdefgh", "u", "t", "x", "true", "h0", "ca"]))
                    } else {
                        rand_word(r, ALNUM, 1, 8)
                    }
                })
                .collect(),
        );
    }
    s
}

impl Shape {
    pub fn tokens(&self) -> Vec<Vec<u8>> {
        let mut v = vec![self.lang.clone()];
        if let Some(s) = &self.script {
            v.push(s.clone());
        }
        if let Some(s) = &self.region {
            v.push(s.clone());
        }
        v.extend(self.variants.iter().cloned());
        let mut ut: Vec<Vec<u8>> = vec![];
        if let Some((attrs, kws)) = &self.u {
            ut.push(w("u"));
            ut.extend(attrs.iter().cloned());
            for (k, ts) in kws {
                ut.push(k.clone());
                ut.extend(ts.iter().cloned());
            }
        }
        let mut tt: Vec<Vec<u8>> = vec![];
        if let Some((tl, fs)) = &self.t {
            tt.push(w("t"));
            if let Some(tl) = tl {
                tt.extend(tl.iter().cloned());
            }
            for (k, ts) in fs {
                tt.push(k.clone());
                tt.extend(ts.iter().cloned());
            }
        }
        if self.u_first {
            v.extend(ut);
            v.extend(tt);
        } else {
            v.extend(tt);
            v.extend(ut);
        }
        if let Some(x) = &self.x {
            v.push(w("x"));
            v.extend(x.iter().cloned());
        }
        v
    }
}

/// join with random separators and a random case mask
pub fn render(r: &mut Rng, tokens: &[Vec<u8>], style: u8) -> Vec<u8> {
    let mut out = vec![];
    for (i, t) in tokens.iter().enumerate() {
        if i > 0 {
            out.push(match style {
                0 => b'-',
                1 => b'_',
                _ => {
                    if r.chance(1, 2) {
                        b'-'
                    } else {
                        b'_'
                    }
                }
            });
        }
        for &c in t {
            out.push(match style {
                0 => c,
                1 => c.to_ascii_uppercase(),
                _ => {
                    if r.chance(1, 2) {
                        c.to_ascii_uppercase()
                    } else {
                        c.to_ascii_lowercase()
                    }
                }
            });
        }
    }
    out
}

fn shuffle<T>(r: &mut Rng, v: &mut Vec<T>) {
    for i in (1..v.len()).rev() {
        let j = r.below(i + 1);
        v.swap(i, j);
    }
}

/// a language identifier (canonical spelling: sorted distinct variants) whose text is exactly `n` bytes long, n >= 8
fn langid_of_len(r: &mut Rng, n: usize) -> Option<Vec<Vec<u8>>> {
    for (sc, rg) in [(false, false), (false, true), (true, false), (true, true)] {
        let fixed = 2 + if sc { 5 } else { 0 } + if rg { 3 } else { 0 };
        if n < fixed {
            continue;
        }
        let rem = n - fixed;
        // k variants of 5..=8 letters, each preceded by a separator: 6k <= rem <= 9k
        let k = (rem + 8) / 9;
        if rem != 0 && (6 * k > rem || rem > 9 * k) {
            continue;
        }
        let mut lens = vec![6usize; k];
        let mut extra = rem - 6 * k;
        for l in lens.iter_mut() {
            let a = extra.min(3);
            *l += a;
            extra -= a;
        }
        let mut vs: Vec<Vec<u8>> = vec![];
        for l in lens {
            loop {
                let v = rand_word(r, ALNUM, l - 1, l - 1);
                if !vs.contains(&v) {
                    vs.push(v);
                    break;
                }
            }
        }
        vs.sort();
        let mut toks = vec![w("en")];
        if sc {
            toks.push(w("Latn"));
        }
        if rg {
            toks.push(w("US"));
        }
        toks.extend(vs);
        return Some(toks);
    }
    None
}

/// inputs whose byte length / subtag count sits at a size the sources mention (dictionary integers): n-1, n, n+1
fn stream_sizes(ops: &[String], r: &mut Rng, out: &mut dyn Write) {
    for &n in &dict().1 {
        for m in [n.saturating_sub(1), n, n + 1] {
            if m < 8 {
                continue;
            }
            for style in 0..3u8 {
                if let Some(toks) = langid_of_len(r, m) {
                    emit_input(out, ops, &render(r, &toks, style));
                    // the same length reached with a private-use tail
                    let mut t2 = vec![w("en"), w("x")];
                    let mut rem = m - 4;
                    while rem > 0 {
                        let l = if rem >= 11 { 9 } else if rem >= 2 && rem <= 9 { rem } else { rem - 2 };
                        t2.push(rand_word(r, ALNUM, l - 1, l - 1));
                        rem -= l;
                    }
                    emit_input(out, ops, &render(r, &t2, style));
                }
            }
            // m subtags of each repeatable kind
            for kind in 0..5usize {
                let mut s = Shape::default();
                s.lang = w("en");
                match kind {
                    0 => s.variants = (0..m).map(|_| gen_variant(r)).collect(),
                    1 => s.u = Some(((0..m).map(|_| rand_word(r, ALNUM, 3, 8)).collect(), vec![])),
                    2 => s.u = Some((vec![], vec![(w("ca"), (0..m).map(|_| rand_word(r, ALNUM, 3, 8)).collect())])),
                    3 => s.t = Some((None, vec![(w("h0"), (0..m).map(|_| rand_word(r, ALNUM, 3, 8)).collect())])),
                    _ => s.x = Some((0..m).map(|_| rand_word(r, ALNUM, 1, 8)).collect()),
                }
                if m <= 600 {
                    emit_input(out, ops, &render(r, &s.tokens(), 0));
                }
            }
        }
    }
}

fn stream_wf(thorough: bool, seed: u64, out: &mut dyn Write) {
    let ops = ops_env();
    let mut r = Rng::new(seed ^ 0x5745_4C4C);
    let n = if thorough { 400_000 } else { 60_000 };
    if !dict().1.is_empty() {
        let mut r2 = Rng::new(seed ^ 0x53_495A_45);
        stream_sizes(&ops, &mut r2, out);
    }
    for i in 0..n {
        let mut s = gen_shape(&mut r, i % 10 == 0);
        if i % 97 == 5 {
            lengthen(&mut r, &mut s, i / 97);
        }
        let style = (i % 3) as u8;
        let input = render(&mut r, &s.tokens(), style);
        emit_input(out, &ops, &input);
    }
}

/// long inputs: many variants / attributes / keywords / tfields / private tags (sizes around powers of two)
fn lengthen(r: &mut Rng, s: &mut Shape, k: usize) {
    let sizes = [9usize, 17, 33, 65, 129, 257, 300];
    let n = sizes[k % sizes.len()];
    match (k / sizes.len()) % 5 {
        0 => {
            for _ in 0..n {
                s.variants.push(gen_variant(r));
            }
        }
        1 => {
            let (attrs, kws) = s.u.take().unwrap_or_default();
            let mut attrs = attrs;
            for _ in 0..n {
                attrs.push(rand_word(r, ALNUM, 3, 8));
            }
            s.u = Some((attrs, kws));
        }
        2 => {
            let (attrs, mut kws) = s.u.take().unwrap_or_default();
            for _ in 0..n.min(120) {
                let k = gen_key(r);
                if kws.iter().any(|(k2, _)| k2.eq_ignore_ascii_case(&k)) {
                    continue;
                }
                let nt = r.below(12);
                kws.push((k, (0..nt).map(|_| gen_type(r)).collect()));
            }
            s.u = Some((attrs, kws));
        }
        3 => {
            let (tl, mut fs) = s.t.take().unwrap_or_default();
            for _ in 0..n.min(120) {
                let k = gen_tkey(r);
                if fs.iter().any(|(k2, _)| k2.eq_ignore_ascii_case(&k)) {
                    continue;
                }
                let nt = 1 + r.below(12);
                fs.push((k, (0..nt).map(|_| gen_type(r)).collect()));
            }
            s.t = Some((tl, fs));
        }
        _ => {
            let mut x = s.x.take().unwrap_or_default();
            for _ in 0..n {
                x.push(rand_word(r, ALNUM, 1, 8));
            }
            s.x = Some(x);
        }
    }
}

/// token- and byte-level near misses of well-formed locales
pub fn mutate(r: &mut Rng, tokens: &mut Vec<Vec<u8>>) {
    let bad: &[&[u8]] = &[
        b"", b"a", b"u", b"t", b"x", b"ab", b"abc", b"abcd", b"abcde", b"abcdefghi", b"1", b"12", b"123", b"1234", b"1abc", b"h0",
        b"0h", b"a.b", b"true", b"und", b"Latn", b"US", b"*", b"\xff\xfe", b"a\0c", b"toolongxx", b"ca", b"es", b"t1", b"1t",
    ];
    let mut bad: Vec<&[u8]> = bad.to_vec();
    for t in &dict().0 {
        bad.push(t);
        bad.push(t);
    }
    let bad: &[&[u8]] = &bad;
    let k = 1 + r.below(3);
    for _ in 0..k {
        let n = tokens.len();
        match r.below(6) {
            0 if n > 0 => {
                let i = r.below(n);
                tokens.remove(i);
            }
            1 => {
                let i = r.below(n + 1);
                tokens.insert(i, r.pick(bad).to_vec());
            }
            2 if n > 0 => {
                let i = r.below(n);
                tokens[i] = r.pick(bad).to_vec();
            }
            3 if n > 0 => {
                let i = r.below(n);
                if !tokens[i].is_empty() {
                    let j = r.below(tokens[i].len());
                    tokens[i][j] = *r.pick(b"aZ09.-_ \0\x7f\x80\xff*");
                }
            }
            4 if n > 0 => {
                let i = r.below(n);
                let c = *r.pick(b"az09");
                tokens[i].push(c);
            }
            5 if n > 1 => {
                let i = r.below(n - 1);
                tokens.swap(i, i + 1);
            }
            _ => {
                let i = r.below(n + 1);
                tokens.insert(i, r.pick(bad).to_vec());
            }
        }
    }
}

fn stream_near(thorough: bool, seed: u64, out: &mut dyn Write) {
    let ops = ops_env();
    let mut r = Rng::new(seed ^ 0x4E45_4152);
    let n = if thorough { 400_000 } else { 80_000 };
    for i in 0..n {
        let s = gen_shape(&mut r, i % 10 == 0);
        let mut toks = s.tokens();
        if i % 2 == 1 {
            // the well-formed identifier itself first, answered by the same process just before its near miss: an answer
            // that depends on the previous call (a memo, a scratch buffer) shows as a wrong answer for the near miss
            emit_input(out, &ops, &join(&toks.iter().collect::<Vec<_>>(), if i % 4 == 1 { b'-' } else { b'_' }));
        }
        if i % 5 != 4 {
            mutate(&mut r, &mut toks);
        }
        let mut input = render(&mut r, &toks, (i % 3) as u8);
        if i % 10 == 9 && !input.is_empty() {
            emit_input(out, &ops, &input);
        }
        if i % 5 >= 3 && !input.is_empty() {
            // byte-level aliases of one position of the rendered text (separators included): the high-bit twin, the
            // other-case twin of a non-letter, the neighbours in the code chart
            let j = r.below(input.len());
            input[j] = match r.below(5) {
                0 | 1 => input[j] | 0x80,
                2 => input[j] ^ 0x20,
                3 => input[j].wrapping_add(1),
                _ => input[j].wrapping_sub(1),
            };
        }
        emit_input(out, &ops, &input);
    }
}

fn stream_raw(thorough: bool, seed: u64, out: &mut dyn Write) {
    let ops = ops_env();
    let mut r = Rng::new(seed ^ 0x5241_5721);
    let n = if thorough { 200_000 } else { 30_000 };
    let pool: &[u8] = b"aAzZ09-_-_-_utxUTX.\0 \x7f\x80\xffenlatnus1h";
    for i in 0..n {
        let len = r.below(if i % 4 == 0 { 40 } else { 14 });
        let v: Vec<u8> = if i % 3 == 0 {
            (0..len).map(|_| (r.next() & 0xff) as u8).collect()
        } else {
            (0..len).map(|_| *r.pick(pool)).collect()
        };
        emit_input(out, &ops, &v);
    }
}

// ------------------------------------------------------------------------------------------
// C15: subtag byte strings

fn stream_subtag(thorough: bool, seed: u64, out: &mut dyn Write) {
    let ops = ops_env();
    // boundary bytes: first/last of each class, neighbours of each range, separators, specials
    let boundary: Vec<u8> = vec![
        0, b' ', b'*', b'-', b'.', b'/', b'0', b'1', b'5', b'9', b':', b'@', b'A', b'B', b'M', b'Z', b'[', b'_', b'`', b'a', b'b',
        b'd', b'e', b'n', b'r', b't', b'u', b'z', b'{', 0x7f, 0x80, 0xff,
    ];
    emit_input(out, &ops, b"");
    if thorough {
        for a in 0..=255u8 {
            emit_input(out, &ops, &[a]);
            for b in 0..=255u8 {
                emit_input(out, &ops, &[a, b]);
            }
        }
        // length 3 over all bytes is 16.8M strings: sharded by the first byte through GEN_SHARD
        let shard: Option<(u32, u32)> = std::env::var("GEN_SHARD").ok().and_then(|s| {
            let mut p = s.split('/');
            Some((p.next()?.parse().ok()?, p.next()?.parse().ok()?))
        });
        for a in 0..=255u8 {
            if let Some((i, n)) = shard {
                if (a as u32) % n != i {
                    continue;
                }
            }
            for b in 0..=255u8 {
                for c in 0..=255u8 {
                    emit_input(out, &ops, &[a, b, c]);
                }
            }
        }
    } else {
        for a in 0..=255u8 {
            emit_input(out, &ops, &[a]);
            for b in 0..=255u8 {
                emit_input(out, &ops, &[a, b]);
            }
        }
        for &a in &boundary {
            for &b in &boundary {
                for &c in &boundary {
                    emit_input(out, &ops, &[a, b, c]);
                }
            }
        }
    }
    // boundary-class strings of length 4..9: per position one of a few class representatives
    let reps: &[u8] = b"aZ09.";
    for n in 4..=9usize {
        // all strings over reps for n <= 5 (quick) / n <= 7 (thorough); beyond: homogeneous + one odd position
        let limit = if thorough { 7 } else { 5 };
        if n <= limit {
            let total = reps.len().pow(n as u32);
            for mut idx in 0..total {
                let mut v = Vec::with_capacity(n);
                for _ in 0..n {
                    v.push(reps[idx % reps.len()]);
                    idx /= reps.len();
                }
                emit_input(out, &ops, &v);
            }
        }
        for &base in b"azAZ09" {
            let v = vec![base; n];
            emit_input(out, &ops, &v);
            for pos in 0..n {
                for &odd in &boundary {
                    let mut x = v.clone();
                    x[pos] = odd;
                    emit_input(out, &ops, &x);
                }
            }
        }
    }
    // every single-byte substitution of valid subtags of every length
    let valid: &[&[u8]] = &[
        b"en", b"und", b"abcde", b"abcdef", b"abcdefg", b"abcdefgh", b"Latn", b"US", b"419", b"macos", b"1996", b"valencia", b"1abc",
        b"fonipa1", b"true", b"root",
    ];
    for v in valid {
        for pos in 0..v.len() {
            for c in 0..=255u8 {
                let mut x = v.to_vec();
                x[pos] = c;
                emit_input(out, &ops, &x);
            }
        }
    }
    for v in dict_spellings() {
        emit_input(out, &ops, &v);
        emit_input(out, &ops, &v[..v.len() - 1]);
        for &c in b"a1-\0" {
            let mut x = v.clone();
            x.push(c);
            emit_input(out, &ops, &x);
        }
        for pos in 0..v.len().min(12) {
            for c in 0..=255u8 {
                let mut x = v.clone();
                x[pos] = c;
                emit_input(out, &ops, &x);
            }
        }
    }
    // random beyond
    let mut r = Rng::new(seed ^ 0x5355_4254);
    let n = if thorough { 300_000 } else { 40_000 };
    for _ in 0..n {
        let len = r.below(11);
        let v: Vec<u8> = (0..len)
            .map(|_| if r.chance(1, 8) { (r.next() & 0xff) as u8 } else { *r.pick(b"abcxyzABCXYZ0123456789") })
            .collect();
        emit_input(out, &ops, &v);
    }
}

// ------------------------------------------------------------------------------------------
// C09: metamorphic pairs

fn stream_pairs(thorough: bool, seed: u64, out: &mut dyn Write) {
    let mut r = Rng::new(seed ^ 0x5041_4952);
    let n = if thorough { 300_000 } else { 50_000 };
    for i in 0..n {
        let mut s = gen_shape(&mut r, false);
        let mut t = s.clone();
        // transformations: order / repetition of variants and attributes, order of keywords and
        // tfields (keys are distinct), relative order of -u- and -t-, case, separators
        shuffle(&mut r, &mut t.variants);
        if !t.variants.is_empty() && r.chance(1, 3) {
            let d = r.pick(&t.variants).clone();
            let at = r.below(t.variants.len() + 1);
            t.variants.insert(at, d);
        }
        if let Some(u) = &mut t.u {
            shuffle(&mut r, &mut u.0);
            if !u.0.is_empty() && r.chance(1, 3) {
                let d = r.pick(&u.0).clone();
                let at = r.below(u.0.len() + 1);
                u.0.insert(at, d);
            }
            shuffle(&mut r, &mut u.1);
        }
        if let Some(tt) = &mut t.t {
            shuffle(&mut r, &mut tt.1);
        }
        if r.chance(1, 2) {
            t.u_first = !t.u_first;
        }
        // a corruption applied to BOTH spellings at the same structural place, after the re-ordering (so that
        // rejected inputs are paired too).  It is placed where it is not itself one of the re-ordered parts: at
        // the end of the variant / attribute group, or (tokens that are not type-shaped only) at the end of the
        // keyword / tfield section, or among the private-use subtags.
        if i % 4 == 0 {
            let bad: &[&[u8]] = &[b"abcd", b"a.b", b"toolongxx", b"", b"12", b"\xff"];
            let bad_nt: &[&[u8]] = &[b"a.b", b"toolongxx", b"", b"12", b"\xff"];
            match r.below(5) {
                0 => {
                    let x = r.pick(bad).to_vec();
                    s.variants.push(x.clone());
                    t.variants.push(x);
                }
                1 => {
                    let x = r.pick(bad).to_vec();
                    if let (Some(u), Some(u2)) = (&mut s.u, &mut t.u) {
                        u.0.push(x.clone());
                        u2.0.push(x);
                    }
                }
                2 => {
                    let x = r.pick(bad_nt).to_vec();
                    if let (Some(u), Some(u2)) = (&mut s.u, &mut t.u) {
                        if let (Some(k), Some(k2)) = (u.1.last_mut(), u2.1.last_mut()) {
                            k.1.push(x.clone());
                            k2.1.push(x);
                        }
                    }
                }
                3 => {
                    let x = r.pick(bad_nt).to_vec();
                    if let (Some(tt), Some(tt2)) = (&mut s.t, &mut t.t) {
                        if let (Some(k), Some(k2)) = (tt.1.last_mut(), tt2.1.last_mut()) {
                            k.1.push(x.clone());
                            k2.1.push(x);
                        }
                    }
                }
                _ => {
                    let x = r.pick(bad).to_vec();
                    if let (Some(p), Some(p2)) = (&mut s.x, &mut t.x) {
                        p.push(x.clone());
                        p2.push(x);
                    }
                }
            }
        }
        let a = render(&mut r, &s.tokens(), 0);
        let b = render(&mut r, &t.tokens(), 2);
        writeln!(out, "pair {} {}", hex(&a), hex(&b)).unwrap();
        // the same pair at the two other entry points: the language-identifier part alone, and the extensions alone
        // (an extension string as `into_parts` / the locale! macro hand it over: it starts with a separator)
        let (sa, sb) = (s.tokens(), t.tokens());
        let (na, nb) = (1 + s.script.iter().count() + s.region.iter().count() + s.variants.len(), 1 + t.script.iter().count() + t.region.iter().count() + t.variants.len());
        if i % 3 == 0 {
            let a = render(&mut r, &sa[..na], 0);
            let b = render(&mut r, &sb[..nb], 2);
            writeln!(out, "lipair {} {}", hex(&a), hex(&b)).unwrap();
        }
        if sa.len() > na && sb.len() > nb {
            let mut ea = vec![vec![]];
            ea.extend(sa[na..].iter().cloned());
            let mut eb = vec![vec![]];
            eb.extend(sb[nb..].iter().cloned());
            let a = render(&mut r, &ea, 0);
            let b = render(&mut r, &eb, 2);
            writeln!(out, "extpair {} {}", hex(&a), hex(&b)).unwrap();
        }
    }
}

// ------------------------------------------------------------------------------------------
// C10: operation histories

fn hl(v: &[&str]) -> String {
    if v.is_empty() {
        "[]".to_string()
    } else {
        v.iter().map(|s| hex(s.as_bytes())).collect::<Vec<_>>().join(",")
    }
}

pub fn op_alphabet(full: bool, likely: bool) -> Vec<String> {
    let mut o: Vec<String> = vec![];
    let h = |s: &str| hex(s.as_bytes());
    // dictionary words (source literals the baseline tree did not have) as arguments of every kind of op
    let dstr = dict_strs();
    let dwords: Vec<&str> = dstr.iter().map(|s| s.as_str()).take(if full { 8 } else { 3 }).collect();
    for d in &dwords {
        for v in [&[][..], &[*d][..], &["abc", *d][..]] {
            o.push(format!("sk:{}:{}", h(d), hl(v)));
            o.push(format!("sk:{}:{}", h("ca"), hl(v)));
            o.push(format!("stf:{}:{}", h(d), hl(v)));
            o.push(format!("stf:{}:{}", h("h0"), hl(v)));
        }
        for op in ["rk", "kw", "sa", "ra", "ha", "rtf", "tf", "stl", "at", "rt", "ht", "sl", "ss", "sr", "hv"] {
            o.push(format!("{}:{}", op, h(d)));
        }
        o.push(format!("sv:{}", hl(&[*d])));
        o.push(format!("sv:{}", hl(&["macos", *d])));
    }
    let keys: &[&str] = if full { &["ca", "nu", "CA", "1a", "a1", "c", "cal", "", "c.", "\u{e9}"] } else { &["ca", "nu", "a1"] };
    let vals: &[&[&str]] = if full {
        &[&[], &["buddhist"], &["true"], &["TRUE", "abc"], &["abc", "h12"], &["ab"], &["toolongxx"], &["a-b"], &["foo", ""], &["abc", "abc"]]
    } else {
        &[&[], &["buddhist"], &["true", "abc"], &["ab"]]
    };
    for k in keys {
        for v in vals.iter() {
            o.push(format!("sk:{}:{}", h(k), hl(v)));
        }
        o.push(format!("rk:{}", h(k)));
        o.push(format!("kw:{}", h(k)));
    }
    o.push("ck".into());
    let attrs: &[&str] = if full { &["foo", "bar", "FOO", "true", "ab", "abcdefghi", "f.o", "", "zzz", "aaa", "abc12345"] } else { &["foo", "bar", "aaa", "ab"] };
    for a in attrs {
        o.push(format!("sa:{}", h(a)));
        o.push(format!("ra:{}", h(a)));
        o.push(format!("ha:{}", h(a)));
    }
    o.push("ca".into());
    let tkeys: &[&str] = if full { &["h0", "m0", "H0", "0h", "hh", "h", "", "h00"] } else { &["h0", "m0", "0h"] };
    let tvals: &[&[&str]] = if full {
        &[&[], &["hybrid"], &["true"], &["TRUE", "abc"], &["foo", "bar"], &["ab"], &["toolongxx"], &["a_b"]]
    } else {
        &[&[], &["hybrid"], &["true", "abc"], &["ab"]]
    };
    for k in tkeys {
        for v in tvals.iter() {
            o.push(format!("stf:{}:{}", h(k), hl(v)));
        }
        o.push(format!("rtf:{}", h(k)));
        o.push(format!("tf:{}", h(k)));
    }
    o.push("ctf".into());
    let tlangs: &[&str] = if full { &["es-AR", "und", "es_latn-MACOS-macos", "e-s", "en-u-ca", "", "es-1996-Latn", "UND-latn", "abcdefgh", "abcde-419", "abcdefghi"] } else { &["es-AR", "und", "e-s", "Und", "abcdefgh"] };
    for t in tlangs {
        o.push(format!("stl:{}", h(t)));
    }
    o.push("ctl".into());
    let tags: &[&str] = if full { &["a", "foo", "FOO", "abcdefgh", "abcdefghi", "", "a.b", "u", "1", "zzz", "aaa"] } else { &["foo", "aaa", "zzz", ""] };
    for t in tags {
        o.push(format!("at:{}", h(t)));
        o.push(format!("rt:{}", h(t)));
        o.push(format!("ht:{}", h(t)));
    }
    o.push("ct".into());
    let langs: &[&str] = if full { &["en", "und", "EN", "zzzz", "e", "sr", "", "abcde", "ar", "uz", "UND", "Und"] } else { &["en", "und", "zzzz", "ar", "Und"] };
    for l in langs {
        o.push(format!("sl:{}", h(l)));
    }
    let scripts: &[&str] = if full { &["Latn", "latn", "Cyrl", "Lat", "", "Arab", "L4tn"] } else { &["Latn", "Arab", "Lat"] };
    for s in scripts {
        o.push(format!("ss:{}", h(s)));
    }
    o.push("ss:~".into());
    let regions: &[&str] = if full { &["US", "us", "419", "USA", "", "AF", "41"] } else { &["US", "419", "USA"] };
    for s in regions {
        o.push(format!("sr:{}", h(s)));
    }
    o.push("sr:~".into());
    let varsets: &[&[&str]] = if full {
        &[&[], &["macos"], &["valencia", "1996"], &["MACOS", "macos"], &["abcd"], &["macos", ""], &["1996", "macos", "fonipa", "1996"]]
    } else {
        &[&[], &["macos"], &["valencia", "1996", "valencia"], &["abcd"]]
    };
    for v in varsets.iter() {
        o.push(format!("sv:{}", hl(v)));
    }
    o.push("cv".into());
    for v in ["macos", "1996", "abc", "VALENCIA"] {
        o.push(format!("hv:{}", h(v)));
    }
    if likely {
        o.push("mx".into());
        o.push("mn".into());
        o.push("cd".into());
    }
    o
}

const HIST_INITS: &[&str] = &[
    "~", "en", "und", "en-Latn-US-macos", "en-u-ca-buddhist", "en-t-es-AR-h0-hybrid", "en-x-foo-bar",
    "sr-Cyrl-RS-u-attr-ca-gregory-nu-latn-t-es-h0-hybrid-m0-foo-bar-x-priv-a", "ar-EG", "zh-TW-u-ca", "UND-arab",
    // identifiers without a minimal form, a language whose likely script is in no direction table, an unknown script
    "und-Hant-DE", "zh-Hans-TW", "und-Mong-US-macos", "sd-Khoj", "he", "und-Latf-DE", "en-Zzzz-ZZ",
];

fn stream_hist(thorough: bool, seed: u64, out: &mut dyn Write) {
    let likely = std::env::var("GEN_LIKELY").map_or(true, |v| v != "0");
    let full = op_alphabet(true, likely);
    let red = op_alphabet(false, likely);
    let hx = |s: &str| if s == "~" { "~".to_string() } else { hex(s.as_bytes()) };
    // exhaustive: length 1 over the full alphabet from every init; length 2 over full from two inits;
    // length 3 over the reduced alphabet from default
    for init in HIST_INITS {
        for a in &full {
            writeln!(out, "hist {} {}", hx(init), a).unwrap();
        }
    }
    for init in ["~", "en-u-foo-ca-buddhist-t-es-h0-hybrid-x-foo"] {
        for a in &full {
            for b in &full {
                writeln!(out, "hist {} {} {}", hx(init), a, b).unwrap();
            }
        }
    }
    if thorough {
        for a in &red {
            for b in &red {
                for c in &red {
                    writeln!(out, "hist ~ {} {} {}", a, b, c).unwrap();
                }
            }
        }
    }
    // random long histories
    let mut r = Rng::new(seed ^ 0x4849_5354);
    let n = if thorough { 100_000 } else { 15_000 };
    for i in 0..n {
        let init = if i % 3 == 0 {
            let s = gen_shape(&mut r, false);
            hex(&render(&mut r, &s.tokens(), 0))
        } else {
            hx(HIST_INITS[r.below(HIST_INITS.len())])
        };
        let len = 1 + r.below(40);
        let mut line = format!("hist {}", init);
        for _ in 0..len {
            line.push(' ');
            line.push_str(&full[r.below(full.len())]);
        }
        writeln!(out, "{}", line).unwrap();
    }
}

// ------------------------------------------------------------------------------------------
// C11 / C12: pairs of identifiers

const MATCH_LANGS: &[&str] = &["en", "fr", "und"];
const MATCH_SCRIPTS: &[&str] = &["", "Latn", "Cyrl"];
const MATCH_REGIONS: &[&str] = &["", "US", "419"];
const MATCH_VARIANTS: &[&str] = &["", "macos", "macos-valencia", "1996"];
const MATCH_EXTS: &[&str] = &["", "u-ca-buddhist", "t-es-h0-hybrid", "x-priv", "u-ca-t-es-x-a"];

fn product_ids() -> Vec<String> {
    let mut v = vec![];
    let d = dict_strs();
    let with = |base: &[&'static str], ok: fn(&[u8]) -> bool| -> Vec<String> {
        base.iter().map(|s| s.to_string()).chain(d.iter().filter(|t| ok(t.as_bytes())).take(2).cloned()).collect()
    };
    let (langs, scripts, regions, variants) =
        (with(MATCH_LANGS, sh_lang), with(MATCH_SCRIPTS, sh_script), with(MATCH_REGIONS, sh_region), with(MATCH_VARIANTS, sh_variant));
    for l in &langs {
        for s in &scripts {
            for r in &regions {
                for va in &variants {
                    let mut id = l.to_string();
                    for p in [s, r, va] {
                        if !p.is_empty() {
                            id.push('-');
                            id.push_str(p);
                        }
                    }
                    v.push(id);
                }
            }
        }
    }
    v
}

fn stream_match(thorough: bool, seed: u64, out: &mut dyn Write) {
    let ids = product_ids();
    for a in &ids {
        for b in &ids {
            for (ra, rb) in [(0, 0), (0, 1), (1, 0), (1, 1)] {
                writeln!(out, "match {} {} {} {}", hex(a.as_bytes()), hex(b.as_bytes()), ra, rb).unwrap();
                // the same pair with a present-but-empty variant list (`Some([])`) on either side
                for (ex, ey) in [(1, 0), (0, 1), (1, 1)] {
                    writeln!(out, "matchx {} {} {} {} {} {}", hex(a.as_bytes()), hex(b.as_bytes()), ra, rb, ex, ey).unwrap();
                }
            }
        }
    }
    // with extensions: a reduced id set x all extension pairs
    let small: Vec<&String> = ids.iter().step_by(7).collect();
    for a in &small {
        for b in &small {
            for ea in MATCH_EXTS {
                for eb in MATCH_EXTS {
                    for (ra, rb) in [(0, 0), (0, 1), (1, 0), (1, 1)] {
                        let x = if ea.is_empty() { a.to_string() } else { format!("{}-{}", a, ea) };
                        let y = if eb.is_empty() { b.to_string() } else { format!("{}-{}", b, eb) };
                        writeln!(out, "locmatch {} {} {} {}", hex(x.as_bytes()), hex(y.as_bytes()), ra, rb).unwrap();
                    }
                }
            }
        }
    }
    // the left operand rebuilt along each of the routes of the `route` op
    for (i, a) in small.iter().enumerate() {
        for (j, b) in small.iter().enumerate() {
            if (i + j) % 3 != 0 {
                continue;
            }
            for k in 0..8 {
                let (ra, rb) = ((i + k) % 2, (j + k / 2) % 2);
                let ea = MATCH_EXTS[(i + k) % MATCH_EXTS.len()];
                let x = if ea.is_empty() { a.to_string() } else { format!("{}-{}", a, ea) };
                writeln!(out, "matchr {} {} {} {} {}", hex(x.as_bytes()), hex(b.as_bytes()), ra, rb, k).unwrap();
            }
        }
    }
    for a in ["en", "und", "fr", "EN", "abcde"] {
        for b in ["en", "und", "fr", "Und", "abcde"] {
            for (ra, rb) in [(0, 0), (0, 1), (1, 0), (1, 1)] {
                writeln!(out, "langmatch {} {} {} {}", hex(a.as_bytes()), hex(b.as_bytes()), ra, rb).unwrap();
            }
        }
    }
    let mut r = Rng::new(seed ^ 0x4D41_5443);
    let n = if thorough { 200_000 } else { 30_000 };
    for i in 0..n {
        let a = gen_shape(&mut r, false);
        let mut b = if i % 2 == 0 { a.clone() } else { gen_shape(&mut r, false) };
        // drop some fields of b so that range matches happen
        if r.chance(1, 2) {
            b.script = None;
        }
        if r.chance(1, 2) {
            b.region = None;
        }
        if r.chance(1, 2) {
            b.variants.clear();
        }
        if r.chance(1, 4) {
            b.lang = w("und");
        }
        if r.chance(1, 2) {
            b.x = None;
        }
        let x = render(&mut r, &a.tokens(), 2);
        let y = render(&mut r, &b.tokens(), 2);
        let (ra, rb) = (r.below(2), r.below(2));
        writeln!(out, "locmatch {} {} {} {}", hex(&x), hex(&y), ra, rb).unwrap();
        if i % 4 == 0 {
            writeln!(out, "locmatchx {} {} {} {} {} {}", hex(&x), hex(&y), ra, rb, r.below(2), r.below(2)).unwrap();
        }
    }
}

fn stream_rel(thorough: bool, seed: u64, out: &mut dyn Write) {
    // exhaustive over a small product (all pairs), then random pairs incl. equal-by-construction ones
    let ids = product_ids();
    let small: Vec<&String> = ids.iter().step_by(3).collect();
    for a in &small {
        for k in 0..11 {
            writeln!(out, "route {} {}", hex(a.as_bytes()), k).unwrap();
        }
        for b in &small {
            writeln!(out, "rel {} {}", hex(a.as_bytes()), hex(b.as_bytes())).unwrap();
        }
    }
    let exts = ["", "u-ca", "u-ca-buddhist", "u-foo", "u-foo-ca", "t-es", "t-h0", "t-h0-hybrid", "t-es-h0-hybrid", "x-a", "x-a-b", "u-ca-t-es", "t-und"];
    for a in exts {
        for b in exts {
            let x = if a.is_empty() { "en".to_string() } else { format!("en-{}", a) };
            let y = if b.is_empty() { "en".to_string() } else { format!("en-{}", b) };
            writeln!(out, "rel {} {}", hex(x.as_bytes()), hex(y.as_bytes())).unwrap();
        }
    }
    let mut r = Rng::new(seed ^ 0x52454C);
    if !dict().1.is_empty() {
        // identifiers whose canonical text is n-1, n, n+1 bytes long (n: a size the sources mention) against that text
        let mut r2 = Rng::new(seed ^ 0x53_495A_46);
        for &n in &dict().1 {
            for m in [n.saturating_sub(1), n, n + 1] {
                for _ in 0..4 {
                    if let Some(toks) = langid_of_len(&mut r2, m) {
                        let canon = join(&toks.iter().collect::<Vec<_>>(), b'-');
                        let spelled = render(&mut r2, &toks, 2);
                        writeln!(out, "eqstr {} {}", hex(&spelled), hex(&canon)).unwrap();
                        writeln!(out, "eqstr {} {}", hex(&spelled), hex(&canon[..canon.len() - 1])).unwrap();
                        let mut longer = canon.clone();
                        longer.push(b'a');
                        writeln!(out, "eqstr {} {}", hex(&spelled), hex(&longer)).unwrap();
                        writeln!(out, "rel {} {}", hex(&spelled), hex(&canon)).unwrap();
                        writeln!(out, "route {} {}", hex(&spelled), m % 8).unwrap();
                    }
                }
            }
        }
    }
    let n = if thorough { 200_000 } else { 30_000 };
    for i in 0..n {
        let a = gen_shape(&mut r, false);
        let b = match i % 3 {
            0 => a.clone(),
            1 => {
                let mut b = a.clone();
                // a small edit: one field changed
                match r.below(5) {
                    0 => b.script = Some(gen_script(&mut r)),
                    1 => b.region = None,
                    2 => b.variants.push(gen_variant(&mut r)),
                    3 => b.x = Some(vec![w("zz")]),
                    _ => b.lang = gen_lang(&mut r),
                }
                b
            }
            _ => gen_shape(&mut r, false),
        };
        let x = render(&mut r, &a.tokens(), 2);
        let y = render(&mut r, &b.tokens(), 2);
        writeln!(out, "rel {} {}", hex(&x), hex(&y)).unwrap();
        if i % 16 == 1 {
            // the same identifier with a well-formed extension of another singleton (rejected today; if it were ever
            // supported the two must not print alike and differ)
            let mut z = y.clone();
            z.extend_from_slice(*r.pick(&[&b"-a-foo"[..], b"-b-bar-baz", b"-0-abc", b"-z-zzz"]));
            let mut toks = b.tokens();
            if let Some(pos) = toks.iter().position(|t| t.len() == 1 && t[0].to_ascii_lowercase() == b'x') {
                toks.insert(pos, w("foo"));
                toks.insert(pos, w("a"));
                z = render(&mut r, &toks, 0);
            }
            writeln!(out, "rel {} {}", hex(&y), hex(&z)).unwrap();
        }
        if i % 4 == 0 {
            // the same value along a second route through the safe API
            writeln!(out, "route {} {}", hex(&x), (i / 4) % 11).unwrap();
        }
        if i % 40 == 7 {
            // long identifiers against their own canonical text (and near misses of it): 6 to 14 distinct variants
            let k = 6 + r.below(9);
            let mut vs: Vec<Vec<u8>> = (0..k).map(|_| rand_word(&mut r, ALNUM, 5, 8)).collect();
            vs.sort();
            vs.dedup();
            let mut toks = vec![w("en"), w("Latn"), w("US")];
            toks.extend(vs);
            let canon = join(&toks.iter().collect::<Vec<_>>(), b'-');
            let spelled = render(&mut r, &toks, 2);
            writeln!(out, "eqstr {} {}", hex(&spelled), hex(&canon)).unwrap();
            let mut longer = canon.clone();
            longer.extend_from_slice(b"-zzzzz");
            writeln!(out, "eqstr {} {}", hex(&spelled), hex(&longer)).unwrap();
            writeln!(out, "eqstr {} {}", hex(&spelled), hex(&canon[..canon.len() - 1])).unwrap();
            // the canonical text cut at every subtag boundary, and with one inner subtag left out
            for k in 1..toks.len() {
                let cut = join(&toks[..k].iter().collect::<Vec<_>>(), b'-');
                writeln!(out, "eqstr {} {}", hex(&spelled), hex(&cut)).unwrap();
                let mut without: Vec<&Vec<u8>> = toks.iter().collect();
                without.remove(k);
                writeln!(out, "eqstr {} {}", hex(&spelled), hex(&join(&without, b'-'))).unwrap();
            }
        }
        if i % 5 == 2 {
            // an identifier against its own canonical text cut at every subtag boundary
            let idt: Vec<Vec<u8>> = a.tokens().into_iter().take(1 + a.script.iter().count() + a.region.iter().count() + a.variants.len()).collect();
            let spelled = render(&mut r, &idt, 2);
            for k in 1..idt.len() {
                let cut: Vec<u8> = render(&mut r, &idt[..k], 0);
                writeln!(out, "eqstr {} {}", hex(&spelled), hex(&cut)).unwrap();
            }
        }
        if i % 5 == 0 {
            let li: Vec<Vec<u8>> = a.tokens().into_iter().take(1 + r.below(3)).collect();
            let s = render(&mut r, &li, 0);
            let t = render(&mut r, &li, 2);
            writeln!(out, "eqstr {} {}", hex(&t), hex(&s)).unwrap();
        }
        if i % 5 == 3 {
            // the canonical text with `_` in one / every separator position is NOT the canonical text
            let idt: Vec<Vec<u8>> = a.tokens().into_iter().take(1 + a.script.iter().count() + a.region.iter().count() + a.variants.len()).collect();
            if idt.len() > 1 {
                let canon = join(&idt.iter().collect::<Vec<_>>(), b'-');
                let spelled = render(&mut r, &idt, 2);
                let all: Vec<u8> = canon.iter().map(|&c| if c == b'-' { b'_' } else { c }).collect();
                writeln!(out, "eqstr {} {}", hex(&spelled), hex(&all)).unwrap();
                let pos: Vec<usize> = canon.iter().enumerate().filter(|(_, &c)| c == b'-').map(|(i, _)| i).collect();
                let mut one = canon.clone();
                one[pos[r.below(pos.len())]] = b'_';
                writeln!(out, "eqstr {} {}", hex(&spelled), hex(&one)).unwrap();
                // ... nor is it in another letter case
                let up: Vec<u8> = canon.iter().map(|c| c.to_ascii_uppercase()).collect();
                if up != canon {
                    writeln!(out, "eqstr {} {}", hex(&spelled), hex(&up)).unwrap();
                }
            }
        }
    }
}

// ------------------------------------------------------------------------------------------
// S6: (language, script, region) triples over the universe of the compiled tables

#[cfg(all(unic_locale_verif, feature = "likely"))]
fn universe() -> (Vec<Vec<u8>>, Vec<Vec<u8>>, Vec<Vec<u8>>) {
    use unic_langid_impl::likelysubtags as ls;
    fn s64(n: u64) -> Vec<u8> {
        n.to_le_bytes().iter().copied().take_while(|&b| b != 0).collect()
    }
    fn s32(n: u32) -> Vec<u8> {
        n.to_le_bytes().iter().copied().take_while(|&b| b != 0).collect()
    }
    let mut l: Vec<Vec<u8>> = vec![];
    let mut s: Vec<Vec<u8>> = vec![];
    let mut r: Vec<Vec<u8>> = vec![];
    let mut val = |v: &(Option<u64>, Option<u32>, Option<u32>)| {
        if let Some(x) = v.0 {
            l.push(s64(x));
        }
        if let Some(x) = v.1 {
            s.push(s32(x));
        }
        if let Some(x) = v.2 {
            r.push(s32(x));
        }
    };
    for (_, v) in ls::LANG_ONLY.iter() {
        val(v);
    }
    for (_, _, v) in ls::LANG_REGION.iter() {
        val(v);
    }
    for (_, _, v) in ls::LANG_SCRIPT.iter() {
        val(v);
    }
    for (_, _, v) in ls::SCRIPT_REGION.iter() {
        val(v);
    }
    for (_, v) in ls::SCRIPT_ONLY.iter() {
        val(v);
    }
    for (_, v) in ls::REGION_ONLY.iter() {
        val(v);
    }
    for (k, _) in ls::LANG_ONLY.iter() {
        l.push(s64(*k));
    }
    for (k1, k2, _) in ls::LANG_REGION.iter() {
        l.push(s64(*k1));
        r.push(s32(*k2));
    }
    for (k1, k2, _) in ls::LANG_SCRIPT.iter() {
        l.push(s64(*k1));
        s.push(s32(*k2));
    }
    for (k1, k2, _) in ls::SCRIPT_REGION.iter() {
        s.push(s32(*k1));
        r.push(s32(*k2));
    }
    for (k, _) in ls::SCRIPT_ONLY.iter() {
        s.push(s32(*k));
    }
    for (k, _) in ls::REGION_ONLY.iter() {
        r.push(s32(*k));
    }
    for x in ["xx", "zzz", "qqqqq"] {
        l.push(w(x));
    }
    for x in ["Zzzz", "Qqqq"] {
        s.push(w(x));
    }
    for x in ["ZZ", "999", "QQ"] {
        r.push(w(x));
    }
    for t in dict_spellings() {
        if sh_lang(&t) {
            l.push(t.to_ascii_lowercase());
        } else if sh_script(&t) {
            let mut x = t.to_ascii_lowercase();
            x[0] = x[0].to_ascii_uppercase();
            s.push(x);
        } else if sh_region(&t) {
            r.push(t.to_ascii_uppercase());
        }
    }
    for v in [&mut l, &mut s, &mut r] {
        v.sort();
        v.dedup();
    }
    // keep only strings the constructors accept (the `und` key row decodes to "und")
    l.retain(|x| x != b"und");
    (l, s, r)
}

#[cfg(all(unic_locale_verif, feature = "likely"))]
fn stream_triples(thorough: bool, seed: u64, out: &mut dyn Write) {
    use unic_langid_impl::likelysubtags as ls;
    let ops: Vec<String> = std::env::var("GEN_OPS").unwrap_or_else(|_| "max,min".into()).split(',').map(|s| s.to_string()).collect();
    let (l, s, r) = universe();
    let o = |x: Option<&Vec<u8>>| x.map_or("~".to_string(), |v| hex(v));
    let counter = std::cell::Cell::new(0usize);
    let emit = |out: &mut dyn Write, a: Option<&Vec<u8>>, b: Option<&Vec<u8>>, c: Option<&Vec<u8>>| {
        for op in &ops {
            if op == "max" || op == "min" {
                writeln!(out, "{} {} {} {}", op, o(a), o(b), o(c)).unwrap();
            } else {
                // ops on identifiers: build the string
                let mut id = a.map_or(b"und".to_vec(), |v| v.clone());
                for p in [b, c].into_iter().flatten() {
                    id.push(b'-');
                    id.extend_from_slice(p);
                }
                if op.starts_with("loc") {
                    // arbitrary variants / extensions attached (C07, C08: never touched)
                    const SUF: &[&str] = &["", "-macos", "-macos-valencia", "-u-ca-buddhist", "-t-es-AR-h0-hybrid-x-priv", "-1996-u-attr-nu-latn-t-h0-foo", "-x-a"];
                    let n = counter.get();
                    counter.set(n + 1);
                    id.extend_from_slice(SUF[n % SUF.len()].as_bytes());
                }
                writeln!(out, "{} {}", op, hex(&id)).unwrap();
            }
        }
    };
    let shard: Option<(usize, usize)> = std::env::var("GEN_SHARD").ok().and_then(|s| {
        let mut p = s.split('/');
        Some((p.next()?.parse().ok()?, p.next()?.parse().ok()?))
    });
    if thorough && shard.is_some() {
        // full product (language ∪ none) x (script ∪ none) x (region ∪ none), sharded by language index
        let (i, n) = shard.unwrap();
        let mut lo: Vec<Option<&Vec<u8>>> = vec![None];
        lo.extend(l.iter().map(Some));
        let mut so: Vec<Option<&Vec<u8>>> = vec![None];
        so.extend(s.iter().map(Some));
        let mut ro: Vec<Option<&Vec<u8>>> = vec![None];
        ro.extend(r.iter().map(Some));
        for (li, a) in lo.iter().enumerate() {
            if li % n != i {
                continue;
            }
            for b in &so {
                for c in &ro {
                    emit(out, *a, *b, *c);
                }
            }
        }
        return;
    }
    // every single subtag, every language x (none|each of a few scripts) x (none|few regions)
    emit(out, None, None, None);
    for a in &l {
        emit(out, Some(a), None, None);
    }
    for b in &s {
        emit(out, None, Some(b), None);
        for c in &r {
            emit(out, None, Some(b), Some(c));
        }
    }
    for c in &r {
        emit(out, None, None, Some(c));
    }
    // every table key as it stands, with one subtag added / replaced by an unknown
    let unk_s = w("Zzzz");
    let unk_r = w("ZZ");
    let unk_l = w("xx");
    let dec64 = |n: u64| -> Vec<u8> { n.to_le_bytes().iter().copied().take_while(|&b| b != 0).collect() };
    let dec32 = |n: u32| -> Vec<u8> { n.to_le_bytes().iter().copied().take_while(|&b| b != 0).collect() };
    for (k1, k2, _) in ls::LANG_REGION.iter() {
        let (a, c) = (dec64(*k1), dec32(*k2));
        emit(out, Some(&a), None, Some(&c));
        emit(out, Some(&a), Some(&unk_s), Some(&c));
        emit(out, Some(&a), None, Some(&unk_r));
        emit(out, Some(&unk_l), None, Some(&c));
        for b in &s {
            emit(out, Some(&a), Some(b), Some(&c));
            emit(out, Some(&a), Some(b), None);
        }
    }
    for (k1, k2, _) in ls::LANG_SCRIPT.iter() {
        let (a, b) = (dec64(*k1), dec32(*k2));
        emit(out, Some(&a), Some(&b), None);
        emit(out, Some(&a), Some(&b), Some(&unk_r));
        emit(out, Some(&a), Some(&unk_s), None);
        emit(out, Some(&unk_l), Some(&b), None);
        for c in r.iter().step_by(if thorough { 1 } else { 5 }) {
            emit(out, Some(&a), Some(&b), Some(c));
            emit(out, Some(&a), None, Some(c));
        }
    }
    for (k1, k2, _) in ls::SCRIPT_REGION.iter() {
        let (b, c) = (dec32(*k1), dec32(*k2));
        emit(out, None, Some(&b), Some(&c));
        for a in l.iter().step_by(if thorough { 20 } else { 200 }) {
            emit(out, Some(a), Some(&b), Some(&c));
        }
    }
    // random triples
    let mut rng = Rng::new(seed ^ 0x545249);
    let n = if thorough { 2_000_000 } else { 150_000 };
    for _ in 0..n {
        let a = if rng.chance(1, 8) { None } else { Some(rng.pick(&l)) };
        let b = if rng.chance(1, 2) { None } else { Some(rng.pick(&s)) };
        let c = if rng.chance(1, 2) { None } else { Some(rng.pick(&r)) };
        emit(out, a, b, c);
    }
}

#[cfg(not(all(unic_locale_verif, feature = "likely")))]
fn stream_triples(_thorough: bool, _seed: u64, _out: &mut dyn Write) {
    eprintln!("stream triples needs --cfg unic_locale_verif and the `likely` feature");
    std::process::exit(2);
}

// ------------------------------------------------------------------------------------------
// C17: parts and raw forms

fn stream_parts(thorough: bool, seed: u64, out: &mut dyn Write) {
    let mut r = Rng::new(seed ^ 0x50415254);
    // every permutation / duplication of variant lists up to length 4 over a small variant set
    let vs: [&str; 4] = ["macos", "1996", "valencia", "fonipa"];
    let langs = ["en", "~", "sr"];
    let mut lists: Vec<Vec<&str>> = vec![vec![]];
    for a in vs {
        lists.push(vec![a]);
        for b in vs {
            lists.push(vec![a, b]);
            for c in vs {
                lists.push(vec![a, b, c]);
                for d in vs {
                    lists.push(vec![a, b, c, d]);
                }
            }
        }
    }
    let o = |s: &str| if s == "~" { "~".to_string() } else { hex(s.as_bytes()) };
    for (i, l) in lists.iter().enumerate() {
        let lang = langs[i % 3];
        let sc = ["~", "Latn"][i % 2];
        let rg = ["~", "US", "419"][i % 3];
        writeln!(out, "fromparts {} {} {} {}", o(lang), o(sc), o(rg), hl(l)).unwrap();
    }
    // scripts' and regions' skeletons over a reduced alphabet, all valid subtags of the token alphabet
    let red = b"azAZ";
    for a in red {
        for b in red {
            writeln!(out, "raw region {}", hex(&[*a, *b])).unwrap();
            writeln!(out, "raw lang {}", hex(&[*a, *b])).unwrap();
            for c in red {
                writeln!(out, "raw lang {}", hex(&[*a, *b, *c])).unwrap();
                for d in red {
                    writeln!(out, "raw script {}", hex(&[*a, *b, *c, *d])).unwrap();
                }
            }
        }
    }
    for a in b"059" {
        for b in b"059" {
            for c in b"059" {
                writeln!(out, "raw region {}", hex(&[*a, *b, *c])).unwrap();
                for d in b"09az" {
                    writeln!(out, "raw variant {}", hex(&[*a, *b, *c, *d])).unwrap();
                }
            }
        }
    }
    let n = if thorough { 200_000 } else { 30_000 };
    for i in 0..n {
        match i % 6 {
            0 => writeln!(out, "raw lang {}", hex(&gen_lang(&mut r))).unwrap(),
            1 => writeln!(out, "raw script {}", hex(&gen_script(&mut r))).unwrap(),
            2 => writeln!(out, "raw region {}", hex(&gen_region(&mut r))).unwrap(),
            3 => writeln!(out, "raw variant {}", hex(&gen_variant(&mut r))).unwrap(),
            _ => {
                let s = gen_shape(&mut r, i % 20 == 4);
                let mut toks = s.tokens();
                if i % 30 == 5 {
                    // a well-formed extension of another singleton, before the private-use part (rejected today; if it
                    // were ever supported, the parts round trip must hold for it as well)
                    let pos = toks.iter().position(|t| t.len() == 1 && t[0].to_ascii_lowercase() == b'x').unwrap_or(toks.len());
                    toks.insert(pos, w("foo"));
                    toks.insert(pos, w(*r.pick(&["a", "b", "z", "0"])));
                }
                let input = render(&mut r, &toks, (i % 3) as u8);
                writeln!(out, "locparts {}", hex(&input)).unwrap();
                let li: Vec<Vec<u8>> = s.tokens().into_iter().take(1 + r.below(4)).collect();
                writeln!(out, "liparts {}", hex(&render(&mut r, &li, 2))).unwrap();
            }
        }
    }
}

// ------------------------------------------------------------------------------------------
// C19: serde inputs (JSON texts)

fn json_string(r: &mut Rng, s: &[u8]) -> Vec<u8> {
    // a JSON string literal with random \uXXXX escapes of ASCII characters; non-UTF-8 input is
    // replaced lossily first (JSON text must be UTF-8)
    let text = String::from_utf8_lossy(s).to_string();
    let mut out = vec![b'"'];
    for ch in text.chars() {
        let c = ch as u32;
        if c < 0x20 || ch == '"' || ch == '\\' || (c < 0x80 && r.chance(1, 6)) {
            out.extend_from_slice(format!("\\u{:04x}", c).as_bytes());
        } else {
            let mut buf = [0u8; 4];
            out.extend_from_slice(ch.encode_utf8(&mut buf).as_bytes());
        }
    }
    out.push(b'"');
    out
}

fn stream_serde(thorough: bool, seed: u64, out: &mut dyn Write) {
    let mut r = Rng::new(seed ^ 0x53455244);
    for j in [
        "null", "true", "false", "0", "1", "-1", "1.5", "[]", "[\"en\"]", "{}", "{\"en\":1}", "\"\"", "\"en\"", "\"en-US\"", "[\"en\", \"fr\"]",
        "\"en", "en", "", " \"en\" ", "\"e\\u006e\"", "1e400", "\"\\ud800\"", "[[[[[[[[]]]]]]]]",
    ] {
        writeln!(out, "serfrom {}", hex(j.as_bytes())).unwrap();
    }
    // long strings with a multi-byte character at every offset (error paths that quote or cut the input)
    for base in ["en-Latn-US-valencia-fonipa-1994-macos-posix-abcdefgh-12345678", "xxxxxxxxxxxxxxxxxxxxxxxxxxxxxxxxxxxxxxxxxxxxxxxxxxxxxxxxxxxxxxxx"] {
        for off in 0..base.len() {
            for ch in ["\u{e9}", "\u{20ac}", "\u{1f600}"] {
                let mut t = String::from(&base[..off]);
                t.push_str(ch);
                t.push_str(&base[off..]);
                writeln!(out, "serfrom {}", hex(format!("\"{}\"", t).as_bytes())).unwrap();
                writeln!(out, "serfrom {}", hex(&json_string(&mut r, t.as_bytes()))).unwrap();
            }
        }
    }
    let toks = token_alphabet(false);
    for a in &toks {
        writeln!(out, "serfrom {}", hex(&json_string(&mut r, a))).unwrap();
        writeln!(out, "serto {}", hex(a)).unwrap();
        for b in &toks {
            let j = join(&[a, b], b'-');
            writeln!(out, "serfrom {}", hex(&json_string(&mut r, &j))).unwrap();
            writeln!(out, "serto {}", hex(&j)).unwrap();
        }
    }
    let n = if thorough { 200_000 } else { 30_000 };
    for i in 0..n {
        let s = gen_shape(&mut r, false);
        let mut toks: Vec<Vec<u8>> = s.tokens();
        let keep = 1 + s.script.is_some() as usize + s.region.is_some() as usize + s.variants.len();
        if i % 3 != 0 {
            toks.truncate(keep);
        }
        if i % 4 == 0 {
            mutate(&mut r, &mut toks);
        }
        let input = render(&mut r, &toks, (i % 3) as u8);
        writeln!(out, "serfrom {}", hex(&json_string(&mut r, &input))).unwrap();
        writeln!(out, "serto {}", hex(&input)).unwrap();
        if i % 4 == 1 {
            writeln!(out, "sernhr {}", hex(&input)).unwrap();
        }
    }
}

// ------------------------------------------------------------------------------------------
// C16: macro invocations `mac <kind> <literal>[,<literal>...]` (UTF-8 literals only)

fn utf8_only(v: Vec<u8>) -> Vec<u8> {
    match String::from_utf8(v) {
        Ok(s) => s.into_bytes(),
        Err(e) => String::from_utf8_lossy(e.as_bytes()).into_owned().into_bytes(),
    }
}

fn stream_macros(thorough: bool, seed: u64, out: &mut dyn Write) {
    let mut r = Rng::new(seed ^ 0x4D41_4352);
    // fixed witnesses first (past findings and every clause of the property)
    for (k, l) in [
        ("lang", "und"), ("lang", "UND"), ("lang", "en"), ("lang", "e"), ("lang", "abcd"), ("lang", ""),
        ("script", "latn"), ("script", "Lat"), ("region", "us"), ("region", "419"), ("region", "41"),
        ("variant", "1996"), ("variant", "abcd"), ("variant", "MacOS"), ("variant", "1.cd"),
        ("langid", "en-US"), ("langid", "und"), ("langid", "EN_latn_us-valencia-1996"), ("langid", "en-US-"), ("langid", "en-a"),
        ("langid", "en-Latn-abcd"), ("langid", "en\u{e9}"),
        ("locale", "en-US"), ("locale", "en-u-ca-buddhist-t-h0-hybrid"), ("locale", "en-t-h0-hybrid-u-ca-buddhist"),
        ("locale", "en-t-es-AR-h0-hybrid-x-foo"), ("locale", "en-a-foo"), ("locale", "en-u1-ca"), ("locale", "en-u-ca-foo-u-nu-bar"),
        ("locale", "en-t-es-AR-fr"), ("locale", "und-x-a"), ("locale", "en-u"), ("locale", "en-u-ca-true"), ("locale", "en--US"),
    ] {
        writeln!(out, "mac {} {}", k, hex(l.as_bytes())).unwrap();
    }
    writeln!(out, "mac langids []").unwrap();
    writeln!(out, "mac langids {},{}", hex(b"en-US"), hex(b"fr")).unwrap();
    writeln!(out, "mac langids {},{}", hex(b"en-US"), hex(b"f")).unwrap();
    writeln!(out, "mac langid_slice {},{},{}", hex(b"en"), hex(b"de-AT"), hex(b"und-Latn")).unwrap();
    writeln!(out, "mac langid_slice {}", hex(b"en-")).unwrap();
    writeln!(out, "mac locales {},{}", hex(b"en-u-ca-buddhist"), hex(b"pl-t-h0-hybrid-x-a")).unwrap();
    writeln!(out, "mac locales {},{}", hex(b"en-u-ca-buddhist"), hex(b"pl-a-b")).unwrap();
    let n = if thorough { 3000 } else { 330 };
    for i in 0..n {
        let style = (i % 3) as u8;
        match i % 11 {
            0 => {
                let t = gen_lang(&mut r);
                let mut t = vec![if r.chance(1, 8) { b"und".to_vec() } else { t }];
                if r.chance(1, 4) { mutate(&mut r, &mut t); }
                writeln!(out, "mac lang {}", hex(&utf8_only(render(&mut r, &t, style)))).unwrap();
            }
            1 => {
                let mut t = vec![gen_script(&mut r)];
                if r.chance(1, 4) { mutate(&mut r, &mut t); }
                writeln!(out, "mac script {}", hex(&utf8_only(render(&mut r, &t, style)))).unwrap();
            }
            2 => {
                let mut t = vec![gen_region(&mut r)];
                if r.chance(1, 4) { mutate(&mut r, &mut t); }
                writeln!(out, "mac region {}", hex(&utf8_only(render(&mut r, &t, style)))).unwrap();
            }
            3 => {
                let mut t = vec![gen_variant(&mut r)];
                if r.chance(1, 4) { mutate(&mut r, &mut t); }
                writeln!(out, "mac variant {}", hex(&utf8_only(render(&mut r, &t, style)))).unwrap();
            }
            4 | 5 => {
                let mut t = gen_langid_tokens(&mut r);
                if r.chance(1, 3) { mutate(&mut r, &mut t); }
                writeln!(out, "mac langid {}", hex(&utf8_only(render(&mut r, &t, style)))).unwrap();
            }
            6 | 7 | 8 => {
                let s = gen_shape(&mut r, i % 5 == 0);
                let mut t = s.tokens();
                if r.chance(1, 3) { mutate(&mut r, &mut t); }
                writeln!(out, "mac locale {}", hex(&utf8_only(render(&mut r, &t, style)))).unwrap();
            }
            9 => {
                let k = r.below(4);
                let mut ls = vec![];
                for _ in 0..k {
                    let mut t = gen_langid_tokens(&mut r);
                    if r.chance(1, 8) { mutate(&mut r, &mut t); }
                    ls.push(utf8_only(render(&mut r, &t, style)));
                }
                let kind = if r.chance(1, 2) { "langids" } else { "langid_slice" };
                writeln!(out, "mac {} {}", kind, hexlist(&ls)).unwrap();
            }
            _ => {
                let k = r.below(4);
                let mut ls = vec![];
                for _ in 0..k {
                    let s = gen_shape(&mut r, false);
                    let mut t = s.tokens();
                    if r.chance(1, 8) { mutate(&mut r, &mut t); }
                    ls.push(utf8_only(render(&mut r, &t, style)));
                }
                writeln!(out, "mac locales {}", hexlist(&ls)).unwrap();
            }
        }
    }
}

/// the macro-built values compiled into the harness (feature macros), one `macrel` request each
fn stream_macvals(out: &mut dyn Write) {
    #[cfg(feature = "macros")]
    for (i, (lit, _, _)) in crate::ops::macro_values().iter().enumerate() {
        writeln!(out, "macrel {} {}", i, hex(lit.as_bytes())).unwrap();
    }
    #[cfg(not(feature = "macros"))]
    let _ = out;
}

pub fn generate(stream: &str, thorough: bool, seed: u64, out: &mut dyn Write) {
    match stream {
        "macvals" => stream_macvals(out),
        "tokens" => stream_tokens(thorough, out),
        "wf" => stream_wf(thorough, seed, out),
        "near" => stream_near(thorough, seed, out),
        "raw" => stream_raw(thorough, seed, out),
        "subtag" => stream_subtag(thorough, seed, out),
        "pairs" => stream_pairs(thorough, seed, out),
        "hist" => stream_hist(thorough, seed, out),
        "match" => stream_match(thorough, seed, out),
        "rel" => stream_rel(thorough, seed, out),
        "triples" => stream_triples(thorough, seed, out),
        "parts" => stream_parts(thorough, seed, out),
        "serde" => stream_serde(thorough, seed, out),
        "macros" => stream_macros(thorough, seed, out),
        _ => {
            eprintln!("unknown stream {}", stream);
            std::process::exit(2);
        }
    }
}
