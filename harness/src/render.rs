//! Canonical text rendering of values through their public getters (shared by the line-protocol
//! ops and by the generated macro programs of the C16 check, which include this file by path).

use crate::proto::*;
use unic_langid::LanguageIdentifier;
use unic_locale::{ExtensionsMap, Locale};

/// The language subtag as text.  The empty language has two observers, `is_empty()` and the text `und`; a value on
/// which they disagree (a stored `und`) is rendered so that it equals no rendering of the model.
pub fn lang_text(l: &unic_langid::subtags::Language) -> String {
    let t = esc(l.as_str().as_bytes());
    if (l.as_str() == "und") != l.is_empty() {
        format!("{}%21is_empty%3D{}", t, l.is_empty())
    } else {
        t
    }
}

pub fn render_li(li: &LanguageIdentifier) -> String {
    format!(
        "l={};s={};r={};v={}",
        lang_text(&li.language),
        li.script.map_or("~".to_string(), |s| esc(s.as_str().as_bytes())),
        li.region.map_or("~".to_string(), |s| esc(s.as_str().as_bytes())),
        esc_list(li.variants().map(|v| v.as_str()))
    )
}

pub fn render_ext(e: &ExtensionsMap) -> String {
    let u = &e.unicode;
    let t = &e.transform;
    let p = &e.private;
    let uk = u
        .keyword_keys()
        .map(|k| {
            let vals = match u.keyword(k) {
                Ok(it) => esc_list(it),
                Err(_) => "ERR".to_string(),
            };
            format!("{}:{}", esc(k.as_bytes()), vals)
        })
        .collect::<Vec<_>>()
        .join("|");
    let tf = t
        .tfield_keys()
        .map(|k| {
            let vals = match t.tfield(k) {
                Ok(it) => esc_list(it),
                Err(_) => "ERR".to_string(),
            };
            format!("{}:{}", esc(k.as_bytes()), vals)
        })
        .collect::<Vec<_>>()
        .join("|");
    let tl = match t.tlang() {
        Some(l) => format!("({})", render_li(l)),
        None => "~".to_string(),
    };
    // the public `other` field (no API of the library writes it; rendered only when something is in it)
    let other = if e.other.is_empty() {
        String::new()
    } else {
        format!(
            ";o={}",
            e.other.iter().map(|(k, v)| format!("{}:{}", esc(k.to_string().as_bytes()), esc_list(v.iter().map(|s| s.as_str())))).collect::<Vec<_>>().join("|")
        )
    };
    format!(
        "ua={};uk={};tl={};tf={};x={};ue={};te={};xe={};ee={}{}",
        esc_list(u.attributes()),
        uk,
        tl,
        tf,
        esc_list(p.tags()),
        u.is_empty() as u8,
        t.is_empty() as u8,
        p.is_empty() as u8,
        e.is_empty() as u8,
        other
    )
}

pub fn render_loc(l: &Locale) -> String {
    format!(
        "{};{};str={}",
        render_li(&l.id),
        render_ext(&l.extensions),
        esc(l.to_string().as_bytes())
    )
}

