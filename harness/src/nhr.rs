//! A serde format that is NOT human readable (`is_human_readable() == false`), reduced to what the C19 check needs:
//! a serializer that records what the value hands over, and a deserializer that hands over a string.
//! (serde_json is a human-readable format; an implementation may legally branch on that flag, the property does not.)

use serde::de::Visitor;
use serde::ser::{self, Impossible};
use std::fmt;

#[derive(Debug)]
pub struct E(pub String);
impl fmt::Display for E {
    fn fmt(&self, f: &mut fmt::Formatter) -> fmt::Result {
        f.write_str(&self.0)
    }
}
impl std::error::Error for E {}
impl ser::Error for E {
    fn custom<T: fmt::Display>(m: T) -> Self {
        E(m.to_string())
    }
}
impl serde::de::Error for E {
    fn custom<T: fmt::Display>(m: T) -> Self {
        E(m.to_string())
    }
}

pub enum Rec {
    Str(String),
    Bytes(Vec<u8>),
    Other(&'static str),
}

pub struct S;

macro_rules! other {
    ($($name:ident: $ty:ty),*) => { $(fn $name(self, _v: $ty) -> Result<Rec, E> { Ok(Rec::Other(stringify!($name))) })* };
}

impl ser::Serializer for S {
    type Ok = Rec;
    type Error = E;
    type SerializeSeq = Impossible<Rec, E>;
    type SerializeTuple = Impossible<Rec, E>;
    type SerializeTupleStruct = Impossible<Rec, E>;
    type SerializeTupleVariant = Impossible<Rec, E>;
    type SerializeMap = Impossible<Rec, E>;
    type SerializeStruct = Impossible<Rec, E>;
    type SerializeStructVariant = Impossible<Rec, E>;
    fn is_human_readable(&self) -> bool {
        false
    }
    fn serialize_str(self, v: &str) -> Result<Rec, E> {
        Ok(Rec::Str(v.to_string()))
    }
    fn serialize_bytes(self, v: &[u8]) -> Result<Rec, E> {
        Ok(Rec::Bytes(v.to_vec()))
    }
    other!(serialize_bool: bool, serialize_i8: i8, serialize_i16: i16, serialize_i32: i32, serialize_i64: i64, serialize_u8: u8,
           serialize_u16: u16, serialize_u32: u32, serialize_u64: u64, serialize_f32: f32, serialize_f64: f64, serialize_char: char);
    fn serialize_none(self) -> Result<Rec, E> {
        Ok(Rec::Other("none"))
    }
    fn serialize_some<T: ?Sized + ser::Serialize>(self, _v: &T) -> Result<Rec, E> {
        Ok(Rec::Other("some"))
    }
    fn serialize_unit(self) -> Result<Rec, E> {
        Ok(Rec::Other("unit"))
    }
    fn serialize_unit_struct(self, _n: &'static str) -> Result<Rec, E> {
        Ok(Rec::Other("unit_struct"))
    }
    fn serialize_unit_variant(self, _n: &'static str, _i: u32, _v: &'static str) -> Result<Rec, E> {
        Ok(Rec::Other("unit_variant"))
    }
    fn serialize_newtype_struct<T: ?Sized + ser::Serialize>(self, _n: &'static str, v: &T) -> Result<Rec, E> {
        v.serialize(S)
    }
    fn serialize_newtype_variant<T: ?Sized + ser::Serialize>(self, _n: &'static str, _i: u32, _v: &'static str, _x: &T) -> Result<Rec, E> {
        Ok(Rec::Other("newtype_variant"))
    }
    fn serialize_seq(self, _l: Option<usize>) -> Result<Self::SerializeSeq, E> {
        Err(E("seq".into()))
    }
    fn serialize_tuple(self, _l: usize) -> Result<Self::SerializeTuple, E> {
        Err(E("tuple".into()))
    }
    fn serialize_tuple_struct(self, _n: &'static str, _l: usize) -> Result<Self::SerializeTupleStruct, E> {
        Err(E("tuple_struct".into()))
    }
    fn serialize_tuple_variant(self, _n: &'static str, _i: u32, _v: &'static str, _l: usize) -> Result<Self::SerializeTupleVariant, E> {
        Err(E("tuple_variant".into()))
    }
    fn serialize_map(self, _l: Option<usize>) -> Result<Self::SerializeMap, E> {
        Err(E("map".into()))
    }
    fn serialize_struct(self, _n: &'static str, _l: usize) -> Result<Self::SerializeStruct, E> {
        Err(E("struct".into()))
    }
    fn serialize_struct_variant(self, _n: &'static str, _i: u32, _v: &'static str, _l: usize) -> Result<Self::SerializeStructVariant, E> {
        Err(E("struct_variant".into()))
    }
}

/// hands the visitor a (non-borrowed) string, whatever it asks for
pub struct D<'a>(pub &'a str);

impl<'de, 'a> serde::Deserializer<'de> for D<'a> {
    type Error = E;
    fn deserialize_any<V: Visitor<'de>>(self, v: V) -> Result<V::Value, E> {
        v.visit_str(self.0)
    }
    fn is_human_readable(&self) -> bool {
        false
    }
    serde::forward_to_deserialize_any! {
        bool i8 i16 i32 i64 i128 u8 u16 u32 u64 u128 f32 f64 char str string bytes byte_buf option unit unit_struct newtype_struct seq
        tuple tuple_struct map struct enum identifier ignored_any
    }
}
