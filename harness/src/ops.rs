//! The ops of the line protocol, answered by the real crates.

use crate::proto::*;
pub use crate::render::{render_ext, render_li, render_loc};
use std::collections::hash_map::DefaultHasher;
use std::hash::{Hash, Hasher};
use std::panic::{catch_unwind, AssertUnwindSafe};
use unic_langid::subtags::{Language, Region, Script, Variant};
use unic_langid::{LanguageIdentifier, LanguageIdentifierError};
use unic_locale::{ExtensionsMap, Locale};

pub fn answer(line: &str) -> String {
    let r = catch_unwind(AssertUnwindSafe(|| answer_inner(line)));
    match r {
        Ok(s) => s,
        Err(_) => "panic".to_string(),
    }
}

fn li_err(e: &LanguageIdentifierError) -> &'static str {
    use unic_langid::parser::ParserError as P;
    match e {
        LanguageIdentifierError::ParserError(P::InvalidLanguage) => "err L",
        LanguageIdentifierError::ParserError(P::InvalidSubtag) => "err S",
        LanguageIdentifierError::Unknown => "err U",
    }
}

fn p_err(e: &unic_langid::parser::ParserError) -> &'static str {
    use unic_langid::parser::ParserError as P;
    match e {
        P::InvalidLanguage => "err L",
        P::InvalidSubtag => "err S",
    }
}

fn loc_perr(e: &unic_locale::parser::ParserError) -> &'static str {
    use unic_locale::parser::ParserError as P;
    match e {
        P::InvalidLanguage => "err L",
        P::InvalidSubtag => "err S",
        P::InvalidExtension => "err E",
        P::LangIdError(_) => "err I",
    }
}

/// LocaleError is `pub(crate) mod errors` - only its Debug/Display are nameable from outside.
fn loc_err<E: std::fmt::Debug>(e: &E) -> &'static str {
    let d = format!("{:?}", e);
    if d.contains("InvalidLanguage") {
        "err L"
    } else if d.contains("InvalidSubtag") {
        "err S"
    } else if d.contains("InvalidExtension") {
        "err E"
    } else if d.contains("LangIdError") || d.contains("LanguageIdentifierError") {
        "err I"
    } else {
        "err U"
    }
}

fn hash_of<T: Hash>(t: &T) -> u64 {
    let mut h = DefaultHasher::new();
    t.hash(&mut h);
    h.finish()
}

fn ord(o: std::cmp::Ordering) -> &'static str {
    match o {
        std::cmp::Ordering::Less => "lt",
        std::cmp::Ordering::Equal => "eq",
        std::cmp::Ordering::Greater => "gt",
    }
}

fn b(x: bool) -> u8 {
    x as u8
}

fn flag(s: &str) -> bool {
    s == "1"
}

#[cfg(feature = "likely")]
fn triple_args(a: &[&str]) -> Option<(Language, Option<Script>, Option<Region>)> {
    let l = match unhexopt(a.first()?)? {
        Some(x) => Language::from_bytes(&x).ok()?,
        None => Language::default(),
    };
    let s = match unhexopt(a.get(1)?)? {
        Some(x) => Some(Script::from_bytes(&x).ok()?),
        None => None,
    };
    let r = match unhexopt(a.get(2)?)? {
        Some(x) => Some(Region::from_bytes(&x).ok()?),
        None => None,
    };
    Some((l, s, r))
}

#[cfg(feature = "likely")]
fn render_triple(t: Option<(Language, Option<Script>, Option<Region>)>) -> String {
    match t {
        None => "none".to_string(),
        Some((l, s, r)) => format!(
            "some {} {} {}",
            crate::render::lang_text(&l),
            s.map_or("~".to_string(), |s| esc(s.as_str().as_bytes())),
            r.map_or("~".to_string(), |s| esc(s.as_str().as_bytes()))
        ),
    }
}

/// An identifier without variants rebuilt through the public `from_raw_parts_unchecked` with a present-but-empty
/// variant list (`Some([])` satisfies the constructor's documented expectation "deduplicated and ordered").
fn some_empty(li: LanguageIdentifier) -> LanguageIdentifier {
    if li.variants().len() == 0 {
        LanguageIdentifier::from_raw_parts_unchecked(li.language, li.script, li.region, Some(Box::new([])))
    } else {
        li
    }
}

/// The value `x` rebuilt along route `k` through the safe API (every route is the identity on the abstract value).
fn route_value(x: &Locale, k: u32) -> Result<Locale, &'static str> {
    let vs: Vec<Variant> = x.id.variants().cloned().collect();
    let mut y = x.clone();
    match k {
        0 => y.id.set_variants(&vs),
        1 => {
            y.id.clear_variants();
            y.id.set_variants(&vs);
        }
        2 => {
            let (l, s, r, vv, e) = x.clone().into_parts();
            match e.parse::<ExtensionsMap>() {
                Ok(em) => y = Locale::from_parts(l, s, r, &vv, Some(em)),
                Err(_) => return Err("extparsefail"),
            }
        }
        3 => match Locale::from_bytes(x.to_string().as_bytes()) {
            Ok(z) => y = z,
            Err(_) => return Err("reparsefail"),
        },
        4 => {
            let li: LanguageIdentifier = x.clone().into();
            y = Locale::from(li);
            y.extensions = x.extensions.clone();
        }
        5 | 10 => {
            // 10: the same with an extra `true` after the values of every keyword and before the values of every tfield
            // that is set again (`true` is never stored)
            let extra = k == 10;
            let u = &x.extensions.unicode;
            let attrs: Vec<String> = u.attributes().map(|s| s.to_string()).collect();
            for a in &attrs {
                let _ = y.extensions.unicode.remove_attribute(a);
            }
            for a in attrs.iter().rev() {
                let _ = y.extensions.unicode.set_attribute(a);
            }
            let keys: Vec<String> = u.keyword_keys().map(|s| s.to_string()).collect();
            for k in keys.iter().rev() {
                let mut vals: Vec<String> = u.keyword(k).map(|it| it.map(|s| s.to_string()).collect()).unwrap_or_default();
                if extra {
                    vals.push("true".to_string());
                }
                let _ = y.extensions.unicode.remove_keyword(k);
                let _ = y.extensions.unicode.set_keyword(k.clone(), &vals);
            }
            let t = &x.extensions.transform;
            let tkeys: Vec<String> = t.tfield_keys().map(|s| s.to_string()).collect();
            for k in tkeys.iter().rev() {
                let mut vals: Vec<String> = t.tfield(k).map(|it| it.map(|s| s.to_string()).collect()).unwrap_or_default();
                if extra {
                    vals.insert(0, "true".to_string());
                }
                let _ = y.extensions.transform.remove_tfield(k);
                let _ = y.extensions.transform.set_tfield(k.clone(), &vals);
            }
            if let Some(tl) = t.tlang() {
                y.extensions.transform.clear_tlang();
                let _ = y.extensions.transform.set_tlang(tl.to_string().parse().unwrap());
            }
            let tags: Vec<String> = x.extensions.private.tags().map(|s| s.to_string()).collect();
            y.extensions.private.clear_tags();
            for t in tags.iter().rev() {
                let _ = y.extensions.private.add_tag(t);
            }
        }
        8 | 9 => y.id.set_variants(&[]),
        6 => {
            y.id.language = x.id.language.as_str().parse().unwrap();
            y.id.script = x.id.script.map(|s| s.as_str().parse().unwrap());
            y.id.region = x.id.region.map(|s| s.as_str().parse().unwrap());
        }
        _ => {
            let mut vv: Vec<Variant> = vs.iter().rev().cloned().collect();
            vv.extend(vs.iter().cloned());
            y = Locale::from_parts(x.id.language, x.id.script, x.id.region, &vv, Some(x.extensions.clone()));
        }
    }
    Ok(y)
}

/// Values built by the compile-time macros, for a fixed list of literals (the macros run inside rustc, so the list is
/// fixed when the harness is compiled; arbitrary literals are the business of the generated programs of C16).
#[cfg(feature = "macros")]
pub fn macro_values() -> Vec<(&'static str, Locale, Option<LanguageIdentifier>)> {
    // every invocation is written out (no macro_rules forwarding: a forwarded literal reaches the proc macro inside a
    // None-delimited group, which is a different input than the one a user writes)
    let v = vec![
        ("und", unic_locale::locale!("und"), Some(unic_langid::langid!("und"))),
        ("UND", unic_locale::locale!("UND"), Some(unic_langid::langid!("UND"))),
        ("und-US", unic_locale::locale!("und-US"), Some(unic_langid::langid!("und-US"))),
        ("und-Latn", unic_locale::locale!("und-Latn"), Some(unic_langid::langid!("und-Latn"))),
        ("Und_latn_us", unic_locale::locale!("Und_latn_us"), Some(unic_langid::langid!("Und_latn_us"))),
        ("en", unic_locale::locale!("en"), Some(unic_langid::langid!("en"))),
        ("EN", unic_locale::locale!("EN"), Some(unic_langid::langid!("EN"))),
        ("en-US", unic_locale::locale!("en-US"), Some(unic_langid::langid!("en-US"))),
        ("en_us", unic_locale::locale!("en_us"), Some(unic_langid::langid!("en_us"))),
        ("en-Latn", unic_locale::locale!("en-Latn"), Some(unic_langid::langid!("en-Latn"))),
        ("en-Latn-US", unic_locale::locale!("en-Latn-US"), Some(unic_langid::langid!("en-Latn-US"))),
        ("fil", unic_locale::locale!("fil"), Some(unic_langid::langid!("fil"))),
        ("abcde", unic_locale::locale!("abcde"), Some(unic_langid::langid!("abcde"))),
        ("abcdefgh", unic_locale::locale!("abcdefgh"), Some(unic_langid::langid!("abcdefgh"))),
        ("es-419", unic_locale::locale!("es-419"), Some(unic_langid::langid!("es-419"))),
        ("und-419", unic_locale::locale!("und-419"), Some(unic_langid::langid!("und-419"))),
        ("ca-ES-valencia", unic_locale::locale!("ca-ES-valencia"), Some(unic_langid::langid!("ca-ES-valencia"))),
        ("ca-valencia", unic_locale::locale!("ca-valencia"), Some(unic_langid::langid!("ca-valencia"))),
        ("sl-rozaj-biske", unic_locale::locale!("sl-rozaj-biske"), Some(unic_langid::langid!("sl-rozaj-biske"))),
        ("sl-biske-rozaj", unic_locale::locale!("sl-biske-rozaj"), Some(unic_langid::langid!("sl-biske-rozaj"))),
        ("sl-rozaj-solba", unic_locale::locale!("sl-rozaj-solba"), Some(unic_langid::langid!("sl-rozaj-solba"))),
        ("sl-rozaj-rozaj", unic_locale::locale!("sl-rozaj-rozaj"), Some(unic_langid::langid!("sl-rozaj-rozaj"))),
        ("de-1996", unic_locale::locale!("de-1996"), Some(unic_langid::langid!("de-1996"))),
        ("de-DE-1996", unic_locale::locale!("de-DE-1996"), Some(unic_langid::langid!("de-DE-1996"))),
        ("de-1996-1901", unic_locale::locale!("de-1996-1901"), Some(unic_langid::langid!("de-1996-1901"))),
        ("frm-1606nict", unic_locale::locale!("frm-1606nict"), Some(unic_langid::langid!("frm-1606nict"))),
        ("en-macos-valencia-1996", unic_locale::locale!("en-macos-valencia-1996"), Some(unic_langid::langid!("en-macos-valencia-1996"))),
        ("zh-Hant-TW", unic_locale::locale!("zh-Hant-TW"), Some(unic_langid::langid!("zh-Hant-TW"))),
        ("sr-Cyrl-RS-ekavsk", unic_locale::locale!("sr-Cyrl-RS-ekavsk"), Some(unic_langid::langid!("sr-Cyrl-RS-ekavsk"))),
        ("en-u-ca-buddhist", unic_locale::locale!("en-u-ca-buddhist"), None),
        ("en-US-u-hc-h12", unic_locale::locale!("en-US-u-hc-h12"), None),
        ("en-t-h0-hybrid", unic_locale::locale!("en-t-h0-hybrid"), None),
        ("en-t-es-AR", unic_locale::locale!("en-t-es-AR"), None),
        ("en-t-es-AR-h0-hybrid-u-ca-buddhist-x-priv", unic_locale::locale!("en-t-es-AR-h0-hybrid-u-ca-buddhist-x-priv"), None),
        ("en-x-a", unic_locale::locale!("en-x-a"), None),
        ("en-x-foo-bar", unic_locale::locale!("en-x-foo-bar"), None),
        ("und-x-a", unic_locale::locale!("und-x-a"), None),
        ("und-u-attr", unic_locale::locale!("und-u-attr"), None),
        ("en-u-kn-true", unic_locale::locale!("en-u-kn-true"), None),
        ("en-t-h0-true", unic_locale::locale!("en-t-h0-true"), None),
        ("sl-rozaj-biske-u-ca-gregory", unic_locale::locale!("sl-rozaj-biske-u-ca-gregory"), None),
        ("en-u-foo-bar-ca-buddhist-nu-latn", unic_locale::locale!("en-u-foo-bar-ca-buddhist-nu-latn"), None),
        ("EN_u_CA_Buddhist", unic_locale::locale!("EN_u_CA_Buddhist"), None),
        ("en-t-sl-rozaj-biske-h0-hybrid", unic_locale::locale!("en-t-sl-rozaj-biske-h0-hybrid"), None),
        ("und-Latn-t-und-latn", unic_locale::locale!("und-Latn-t-und-latn"), None),
    ];
    v
}

#[cfg(feature = "macros")]
fn macrel(a: &[&str]) -> String {
    // `macrel <index> <literal>`: the macro-built value of literal #index against the run-time parse of the same literal
    let idx: usize = match a.first().and_then(|s| s.parse().ok()) {
        Some(i) => i,
        None => return "bad".to_string(),
    };
    let vals = macro_values();
    let (lit, m, mli) = match vals.get(idx) {
        Some(t) => t,
        None => return "bad".to_string(),
    };
    if a.get(1).and_then(|s| unhex(s)).map_or(true, |h| h != lit.as_bytes()) {
        return "bad".to_string();
    }
    let p = match Locale::from_bytes(lit.as_bytes()) {
        Ok(p) => p,
        Err(_) => return "ok parsefail".to_string(),
    };
    let li = match mli {
        Some(x) => format!(
            " lieq={} licmp={} lihe={} lim={}{}",
            b(*x == p.id),
            ord(x.cmp(&p.id)),
            b(hash_of(x) == hash_of(&p.id)),
            b(x.matches(&p.id, false, false)),
            b(p.id.matches(x, true, false) == p.id.matches(&p.id, true, false))
        ),
        None => String::new(),
    };
    format!(
        "ok eq={} cmp={} he={} se={} m={}{}{} ideq={}{}",
        b(*m == p),
        ord(m.cmp(&p)),
        b(hash_of(m) == hash_of(&p)),
        b(m.to_string() == p.to_string()),
        b(m.matches(&p, false, false) == p.matches(&p, false, false)),
        b(m.matches(&p, true, false) == p.matches(&p, true, false)),
        b(p.matches(m, false, true) == p.matches(&p, false, true)),
        b(m.id == p.id),
        li
    )
}

#[cfg(not(feature = "macros"))]
fn macrel(_a: &[&str]) -> String {
    "na".to_string()
}

fn answer_inner(line: &str) -> String {
    let mut parts = line.split(' ');
    let op = parts.next().unwrap_or("");
    let a: Vec<&str> = parts.collect();
    macro_rules! arg {
        ($i:expr) => {
            match a.get($i).and_then(|s| unhex(s)) {
                Some(x) => x,
                None => return "bad".to_string(),
            }
        };
    }
    match op {
        "lang" => {
            let v = arg!(0);
            match Language::from_bytes(&v) {
                Ok(l) => render_lang(&l),
                Err(e) => p_err(&e).to_string(),
            }
        }
        "langstr" => {
            // FromStr path (only for valid UTF-8)
            let v = arg!(0);
            match std::str::from_utf8(&v) {
                Ok(s) => match s.parse::<Language>() {
                    Ok(l) => render_lang(&l),
                    Err(e) => p_err(&e).to_string(),
                },
                Err(_) => "notutf8".to_string(),
            }
        }
        "langopt" => {
            use std::convert::TryFrom;
            let o = match a.first().and_then(|s| unhexopt(s)) {
                Some(x) => x,
                None => return "bad".to_string(),
            };
            match Language::try_from(o) {
                Ok(l) => render_lang(&l),
                Err(e) => p_err(&e).to_string(),
            }
        }
        "langdefault" => {
            let mut c = Language::from_bytes(b"en").unwrap();
            c.clear();
            format!("{} | {}", render_lang(&Language::default()), render_lang(&c))
        }
        "script" => {
            let v = arg!(0);
            match Script::from_bytes(&v) {
                Ok(s) => format!(
                    "ok {};{};{};rt={}",
                    esc(s.as_str().as_bytes()),
                    esc(s.to_string().as_bytes()),
                    b(s == s.as_str()),
                    b(s.to_string().parse::<Script>().map_or(false, |y| y == s))
                ),
                Err(e) => p_err(&e).to_string(),
            }
        }
        "region" => {
            let v = arg!(0);
            match Region::from_bytes(&v) {
                Ok(s) => format!(
                    "ok {};{};{};rt={}",
                    esc(s.as_str().as_bytes()),
                    esc(s.to_string().as_bytes()),
                    b(s == s.as_str()),
                    b(s.to_string().parse::<Region>().map_or(false, |y| y == s))
                ),
                Err(e) => p_err(&e).to_string(),
            }
        }
        "variant" => {
            let v = arg!(0);
            match Variant::from_bytes(&v) {
                Ok(s) => format!(
                    "ok {};{};{};rt={}",
                    esc(s.as_str().as_bytes()),
                    esc(s.to_string().as_bytes()),
                    b(s == s.as_str()),
                    b(s.to_string().parse::<Variant>().map_or(false, |y| y == s))
                ),
                Err(e) => p_err(&e).to_string(),
            }
        }
        "li" => {
            let v = arg!(0);
            match LanguageIdentifier::from_bytes(&v) {
                Ok(li) => {
                    let s = li.to_string();
                    let rt = LanguageIdentifier::from_bytes(s.as_bytes()).map_or(false, |y| y == li);
                    format!("ok {};str={};rt={}", render_li(&li), esc(s.as_bytes()), b(rt))
                }
                Err(e) => li_err(&e).to_string(),
            }
        }
        "listr" => {
            let v = arg!(0);
            match std::str::from_utf8(&v) {
                Ok(s) => match s.parse::<LanguageIdentifier>() {
                    Ok(li) => {
                        let s = li.to_string();
                        let rt = s.parse::<LanguageIdentifier>().map_or(false, |y| y == li);
                        format!("ok {};str={};rt={}", render_li(&li), esc(s.as_bytes()), b(rt))
                    }
                    Err(e) => li_err(&e).to_string(),
                },
                Err(_) => "notutf8".to_string(),
            }
        }
        "lican" => {
            let v = arg!(0);
            match unic_langid::canonicalize(&v) {
                Ok(s) => format!("ok {}", esc(s.as_bytes())),
                Err(e) => li_err(&e).to_string(),
            }
        }
        "loc" => loc_resp(&arg!(0)),
        "pair" => format!("{} || {}", loc_resp(&arg!(0)), loc_resp(&arg!(1))),
        "locstr" => {
            let v = arg!(0);
            match std::str::from_utf8(&v) {
                Ok(s) => match s.parse::<Locale>() {
                    Ok(l) => {
                        let s = l.to_string();
                        let rt = s.parse::<Locale>().map_or(false, |y| y == l);
                        format!("ok {};rt={}", render_loc(&l), b(rt))
                    }
                    Err(e) => loc_err(&e).to_string(),
                },
                Err(_) => "notutf8".to_string(),
            }
        }
        "idem" => {
            let v = arg!(0);
            let a = match unic_langid::canonicalize(&v) {
                Ok(s) => match unic_langid::canonicalize(&s) {
                    Ok(t) => b(s == t).to_string(),
                    Err(_) => "0".to_string(),
                },
                Err(_) => "e".to_string(),
            };
            let c = match unic_locale::canonicalize(&v) {
                Ok(s) => match unic_locale::canonicalize(&s) {
                    Ok(t) => b(s == t).to_string(),
                    Err(_) => "0".to_string(),
                },
                Err(_) => "e".to_string(),
            };
            format!("ok li={} loc={}", a, c)
        }
        "loccan" => {
            let v = arg!(0);
            match unic_locale::canonicalize(&v) {
                Ok(s) => format!("ok {}", esc(s.as_bytes())),
                Err(e) => loc_err(&e).to_string(),
            }
        }
        "ext" => ext_resp(&arg!(0)),
        "extpair" => format!("{} || {}", ext_resp(&arg!(0)), ext_resp(&arg!(1))),
        "lipair" => format!("{} || {}", li_resp(&arg!(0)), li_resp(&arg!(1))),
        #[cfg(feature = "likely")]
        "max" | "min" => {
            let (l, s, r) = match triple_args(&a) {
                Some(t) => t,
                None => return "bad".to_string(),
            };
            let t = if op == "max" {
                unic_langid::likelysubtags::maximize(l, s, r)
            } else {
                unic_langid::likelysubtags::minimize(l, s, r)
            };
            render_triple(t)
        }
        #[cfg(feature = "likely")]
        "limax" | "limin" => {
            // `ok <before> | <b1> <after1> | <b2> <after2>`: the operation applied twice
            let v = arg!(0);
            match LanguageIdentifier::from_bytes(&v) {
                Ok(mut li) => {
                    let r0 = render_li(&li);
                    // for half of the inputs a read-only query (character_direction) is made right before each call: it
                    // must not change what maximize / minimize answer
                    let noise = v.iter().fold(0u32, |a, c| a.wrapping_mul(31).wrapping_add(*c as u32)) % 2 == 1;
                    if noise {
                        let _ = li.character_direction();
                    }
                    let b1 = if op == "limax" { li.maximize() } else { li.minimize() };
                    let r1 = render_li(&li);
                    if noise {
                        let _ = li.character_direction();
                    }
                    let b2 = if op == "limax" { li.maximize() } else { li.minimize() };
                    format!("ok {} | {} {} | {} {}", r0, b(b1), r1, b(b2), render_li(&li))
                }
                Err(e) => li_err(&e).to_string(),
            }
        }
        #[cfg(feature = "likely")]
        "liminmax" => {
            // `ok <min(x)> | <min(max(x))> | <max(x)> | <max(min(x))>`
            let v = arg!(0);
            match LanguageIdentifier::from_bytes(&v) {
                Ok(li) => {
                    let mut a = li.clone();
                    a.minimize();
                    let mut c = li.clone();
                    c.maximize();
                    let mut bb = c.clone();
                    bb.minimize();
                    let mut d = a.clone();
                    d.maximize();
                    format!("ok {} | {} | {} | {}", render_li(&a), render_li(&bb), render_li(&c), render_li(&d))
                }
                Err(e) => li_err(&e).to_string(),
            }
        }
        #[cfg(feature = "likely")]
        "locmax" | "locmin" => {
            let v = arg!(0);
            match Locale::from_bytes(&v) {
                Ok(mut l) => {
                    let r = if op == "locmax" { l.id.maximize() } else { l.id.minimize() };
                    format!("ok {} {}", b(r), render_loc(&l))
                }
                Err(e) => loc_err(&e).to_string(),
            }
        }
        #[cfg(feature = "likely")]
        "cldrversion" => format!("ok {}", unic_langid::likelysubtags::CLDR_VERSION),
        "dir" => {
            let v = arg!(0);
            match LanguageIdentifier::from_bytes(&v) {
                Ok(li) => format!("ok {:?}", li.character_direction()),
                Err(e) => li_err(&e).to_string(),
            }
        }
        "dirv" => {
            // the direction of an identifier and of the same identifier carrying variants
            let v = arg!(0);
            match LanguageIdentifier::from_bytes(&v) {
                Ok(mut li) => {
                    let d1 = li.character_direction();
                    li.set_variants(&[Variant::from_bytes(b"1996").unwrap(), Variant::from_bytes(b"macos").unwrap()]);
                    let d2 = li.character_direction();
                    format!("ok {:?} {:?}", d1, d2)
                }
                Err(e) => li_err(&e).to_string(),
            }
        }
        "locdir" => {
            let v = arg!(0);
            match Locale::from_bytes(&v) {
                Ok(l) => format!("ok {:?}", l.id.character_direction()),
                Err(e) => loc_err(&e).to_string(),
            }
        }
        "match" | "matchx" => {
            let x = arg!(0);
            let y = arg!(1);
            let (ra, rb) = (flag(a.get(2).unwrap_or(&"0")), flag(a.get(3).unwrap_or(&"0")));
            let (ex, ey) = (op == "matchx" && flag(a.get(4).unwrap_or(&"0")), op == "matchx" && flag(a.get(5).unwrap_or(&"0")));
            match (LanguageIdentifier::from_bytes(&x), LanguageIdentifier::from_bytes(&y)) {
                (Ok(x), Ok(y)) => {
                    let x = if ex { some_empty(x) } else { x };
                    let y = if ey { some_empty(y) } else { y };
                    // second column: the left operand matched against ITSELF (the same object, not an equal copy)
                    format!("ok {} {}", b(x.matches(&y, ra, rb)), b(x.matches(&x, ra, rb)))
                }
                _ => "err".to_string(),
            }
        }
        "locmatch" | "locmatchx" => {
            let x = arg!(0);
            let y = arg!(1);
            let (ra, rb) = (flag(a.get(2).unwrap_or(&"0")), flag(a.get(3).unwrap_or(&"0")));
            let (ex, ey) = (op == "locmatchx" && flag(a.get(4).unwrap_or(&"0")), op == "locmatchx" && flag(a.get(5).unwrap_or(&"0")));
            match (Locale::from_bytes(&x), Locale::from_bytes(&y)) {
                (Ok(mut x), Ok(mut y)) => {
                    if ex {
                        x.id = some_empty(x.id);
                    }
                    if ey {
                        y.id = some_empty(y.id);
                    }
                    // a LanguageIdentifier matched against a Locale (through AsRef<LanguageIdentifier>)
                    let li: LanguageIdentifier = x.id.clone();
                    format!(
                        "ok {} {} {} {}",
                        b(x.matches(&y, ra, rb)),
                        b(li.matches(&y, ra, rb)),
                        b(x.matches(&x, ra, rb)),
                        b(y.matches(&y, ra, rb))
                    )
                }
                _ => "err".to_string(),
            }
        }
        "convx" => {
            let v = arg!(0);
            match LanguageIdentifier::from_bytes(&v) {
                Ok(li) => {
                    let li = some_empty(li);
                    let l2: Locale = li.clone().into();
                    let ideq = l2.id == li;
                    let back: LanguageIdentifier = l2.clone().into();
                    format!(
                        "ok back={};ee={};str={};ideq={}",
                        b(back == li),
                        b(l2.extensions.is_empty()),
                        esc(l2.to_string().as_bytes()),
                        b(ideq)
                    )
                }
                Err(e) => li_err(&e).to_string(),
            }
        }
        "langmatch" => {
            let x = arg!(0);
            let y = arg!(1);
            let (ra, rb) = (flag(a.get(2).unwrap_or(&"0")), flag(a.get(3).unwrap_or(&"0")));
            match (Language::from_bytes(&x), Language::from_bytes(&y)) {
                (Ok(x), Ok(y)) => format!("ok {}", b(x.matches(y, ra, rb))),
                _ => "err".to_string(),
            }
        }
        "rel" => {
            let x = arg!(0);
            let y = arg!(1);
            match (Locale::from_bytes(&x), Locale::from_bytes(&y)) {
                (Ok(x), Ok(y)) => format!(
                    "ok eq={} cmp={} rcmp={} he={} se={} lieq={} licmp={} xi={} yi={} self={}{}",
                    b(x == y),
                    ord(x.cmp(&y)),
                    ord(y.cmp(&x)),
                    b(hash_of(&x) == hash_of(&y)),
                    b(x.to_string() == y.to_string()),
                    b(x.id == y.id),
                    ord(x.id.cmp(&y.id)),
                    render_li(&x.id),
                    render_li(&y.id),
                    b(x == x),
                    ord(x.cmp(&x)),
                ),
                _ => "err".to_string(),
            }
        }
        "route" => {
            // `route <locale> <k>`: the same abstract value reached along a second route through the safe API;
            // equality, ordering, hash and text of the two must agree (C12)
            let v = arg!(0);
            let k: u32 = a.get(1).and_then(|s| s.parse().ok()).unwrap_or(0);
            let x = match Locale::from_bytes(&v) {
                Ok(x) => x,
                Err(e) => return loc_err(&e).to_string(),
            };
            let y = match route_value(&x, k) {
                Ok(y) => y,
                Err(e) => return format!("ok {}", e),
            };
            // routes 8 and 9 empty the variant list with `set_variants(&[])`; the other route to that value is
            // `clear_variants()` (8) / parsing the text of the emptied value (9)
            let x = match k {
                8 => {
                    let mut x2 = x.clone();
                    x2.id.clear_variants();
                    x2
                }
                9 => match Locale::from_bytes(y.to_string().as_bytes()) {
                    Ok(z) => z,
                    Err(_) => return "ok reparsefail".to_string(),
                },
                _ => x,
            };
            format!(
                "ok eq={} cmp={} he={} se={}",
                b(x == y),
                ord(x.cmp(&y)),
                b(hash_of(&x) == hash_of(&y)),
                b(x.to_string() == y.to_string())
            )
        }
        "matchr" => {
            // `matchr <x> <y> <ra> <rb> <k>`: matches() with the left operand rebuilt along route k
            let (xv, yv) = (arg!(0), arg!(1));
            let (ra, rb) = (flag(a.get(2).unwrap_or(&"0")), flag(a.get(3).unwrap_or(&"0")));
            let k: u32 = a.get(4).and_then(|s| s.parse().ok()).unwrap_or(0);
            match (Locale::from_bytes(&xv), Locale::from_bytes(&yv)) {
                (Ok(x), Ok(y)) => match route_value(&x, k) {
                    Ok(x2) => format!(
                        "ok {} {} {}",
                        b(x2.matches(&y, ra, rb)),
                        b(x2.id.matches(&y.id, ra, rb)),
                        b(y.matches(&x2, rb, ra))
                    ),
                    Err(e) => format!("ok {}", e),
                },
                _ => "err".to_string(),
            }
        }
        "macrel" => macrel(&a),
        "eqstr" => {
            let x = arg!(0);
            let y = arg!(1);
            let ys = match std::str::from_utf8(&y) {
                Ok(s) => s,
                Err(_) => return "notutf8".to_string(),
            };
            match LanguageIdentifier::from_bytes(&x) {
                Ok(x) => format!(
                    "ok {} {} str={} lang={}",
                    b(x == ys),
                    b(x.language == ys) as u8,
                    esc(x.to_string().as_bytes()),
                    esc(x.language.as_str().as_bytes())
                ),
                _ => "err".to_string(),
            }
        }
        "conv" => {
            let v = arg!(0);
            let li = LanguageIdentifier::from_bytes(&v);
            let loc = Locale::from_bytes(&v);
            let lis = match &li {
                Ok(li) => {
                    let l2: Locale = li.clone().into();
                    let back: LanguageIdentifier = l2.clone().into();
                    // the two canonicalize entry points on an input both types accept
                    let can = match (unic_langid::canonicalize(&v), unic_locale::canonicalize(&v)) {
                        (Ok(a), Ok(b2)) => b(a == b2).to_string(),
                        _ => "e".to_string(),
                    };
                    format!(
                        "ok {};str={};ee={};back={};lstr={};can={}",
                        render_li(li),
                        esc(li.to_string().as_bytes()),
                        b(l2.extensions.is_empty()),
                        b(back == *li),
                        esc(l2.to_string().as_bytes()),
                        can
                    )
                }
                Err(e) => li_err(e).to_string(),
            };
            let locs = match &loc {
                Ok(l) => {
                    let id: LanguageIdentifier = l.clone().into();
                    let aref: &LanguageIdentifier = l.as_ref();
                    // the part of the input before the first singleton subtag, parsed as a language id
                    let toks: Vec<&[u8]> = v.split(|c| *c == b'-' || *c == b'_').collect();
                    let cut = toks.iter().position(|t| t.len() == 1).unwrap_or(toks.len());
                    let pre = toks[..cut].join(&b'-');
                    let pre_eq = match LanguageIdentifier::from_bytes(&pre) {
                        Ok(p) => b(p == l.id).to_string(),
                        Err(_) => "e".to_string(),
                    };
                    format!(
                        "ok {};ideq={};aref={};pre={}",
                        render_loc(l),
                        b(id == l.id),
                        b(*aref == l.id),
                        pre_eq
                    )
                }
                Err(e) => loc_err(e).to_string(),
            };
            format!("{} | {}", lis, locs)
        }
        "liparts" => {
            let v = arg!(0);
            match LanguageIdentifier::from_bytes(&v) {
                Ok(li) => {
                    let (l, s, r, vs) = li.clone().into_parts();
                    let back = LanguageIdentifier::from_parts(l, s, r, &vs);
                    format!("ok {} {}", b(back == li), render_li(&back))
                }
                Err(e) => li_err(&e).to_string(),
            }
        }
        "locparts" => {
            let v = arg!(0);
            match Locale::from_bytes(&v) {
                Ok(loc) => {
                    let (l, s, r, vs, e) = loc.clone().into_parts();
                    match e.parse::<ExtensionsMap>() {
                        Ok(em) => {
                            let back = Locale::from_parts(l, s, r, &vs, Some(em));
                            format!("ok {} {} {}", b(back == loc), esc(e.as_bytes()), render_loc(&back))
                        }
                        Err(_) => format!("ok 0 {} extparsefail", esc(e.as_bytes())),
                    }
                }
                Err(e) => loc_err(&e).to_string(),
            }
        }
        "fromparts" => {
            // fromparts <lang|~> <script|~> <region|~> <variants>
            let l = match a.first().and_then(|s| unhexopt(s)) {
                Some(Some(x)) => match Language::from_bytes(&x) {
                    Ok(l) => l,
                    Err(_) => return "err".to_string(),
                },
                Some(None) => Language::default(),
                None => return "bad".to_string(),
            };
            let s = match a.get(1).and_then(|s| unhexopt(s)) {
                Some(Some(x)) => match Script::from_bytes(&x) {
                    Ok(l) => Some(l),
                    Err(_) => return "err".to_string(),
                },
                Some(None) => None,
                None => return "bad".to_string(),
            };
            let r = match a.get(2).and_then(|s| unhexopt(s)) {
                Some(Some(x)) => match Region::from_bytes(&x) {
                    Ok(l) => Some(l),
                    Err(_) => return "err".to_string(),
                },
                Some(None) => None,
                None => return "bad".to_string(),
            };
            let vs = match a.get(3).and_then(|s| unhexlist(s)) {
                Some(l) => l,
                None => return "bad".to_string(),
            };
            let mut vv = vec![];
            for v in &vs {
                match Variant::from_bytes(v) {
                    Ok(v) => vv.push(v),
                    Err(_) => return "err".to_string(),
                }
            }
            let li = LanguageIdentifier::from_parts(l, s, r, &vv);
            // the joined string, in the order given
            let mut joined = l.as_str().to_string();
            if let Some(s) = s {
                joined.push('-');
                joined.push_str(s.as_str());
            }
            if let Some(r) = r {
                joined.push('-');
                joined.push_str(r.as_str());
            }
            for v in &vv {
                joined.push('-');
                joined.push_str(v.as_str());
            }
            let jp = LanguageIdentifier::from_bytes(joined.as_bytes()).map_or(false, |p| p == li);
            let loc = Locale::from_parts(l, s, r, &vv, None);
            format!(
                "ok {};str={};jp={};loc={}",
                render_li(&li),
                esc(li.to_string().as_bytes()),
                b(jp),
                esc(loc.to_string().as_bytes())
            )
        }
        "raw" => {
            let kind = a.first().copied().unwrap_or("");
            let v = arg!(1);
            match kind {
                "lang" => match Language::from_bytes(&v) {
                    Ok(l) => {
                        let raw: Option<u64> = l.into();
                        match raw {
                            Some(n) => {
                                let back = unsafe { Language::from_raw_unchecked(n) };
                                format!("ok {} {} {}", n, esc(back.as_str().as_bytes()), b(back == l))
                            }
                            None => "ok none".to_string(),
                        }
                    }
                    Err(_) => "err".to_string(),
                },
                "script" => match Script::from_bytes(&v) {
                    Ok(l) => {
                        let n: u32 = l.into();
                        let back = unsafe { Script::from_raw_unchecked(n) };
                        format!("ok {} {} {}", n, esc(back.as_str().as_bytes()), b(back == l))
                    }
                    Err(_) => "err".to_string(),
                },
                "region" => match Region::from_bytes(&v) {
                    Ok(l) => {
                        let n: u32 = l.into();
                        let back = unsafe { Region::from_raw_unchecked(n) };
                        format!("ok {} {} {}", n, esc(back.as_str().as_bytes()), b(back == l))
                    }
                    Err(_) => "err".to_string(),
                },
                "variant" => match Variant::from_bytes(&v) {
                    Ok(l) => {
                        let n: u64 = l.into();
                        let back = unsafe { Variant::from_raw_unchecked(n) };
                        format!("ok {} {} {}", n, esc(back.as_str().as_bytes()), b(back == l))
                    }
                    Err(_) => "err".to_string(),
                },
                _ => "bad".to_string(),
            }
        }
        "hist" => hist(&a),
        // ---- glue around the modelled core: the iterator-level entry points, the by-reference conversions, the
        // extension-type classifier and the error texts (lines the other ops never execute)
        "liiter" | "liiterp" => {
            // `liiter <allow_extension> <subtag list>`: LanguageIdentifier::try_from_iter on an arbitrary subtag
            // iterator (also the empty one); `liiterp` calls parser::parse_language_identifier_from_iter directly.
            // The subtags the call leaves in the iterator are reported.
            let allow = flag(a.first().copied().unwrap_or(""));
            let toks = match a.get(1).and_then(|s| unhexlist(s)) {
                Some(t) => t,
                None => return "bad".to_string(),
            };
            let mut it = toks.iter().map(|t| t.as_slice()).peekable();
            let r: Result<LanguageIdentifier, &'static str> = if op == "liiter" {
                LanguageIdentifier::try_from_iter(&mut it, allow).map_err(|e| li_err(&e))
            } else {
                unic_langid::parser::parse_language_identifier_from_iter(&mut it, allow).map_err(|e| p_err(&e))
            };
            match r {
                Ok(li) => {
                    let rest: Vec<String> = it.map(|t| esc(t)).collect();
                    format!("ok {};str={};rest={}", render_li(&li), esc(li.to_string().as_bytes()), rest.join(","))
                }
                Err(e) => e.to_string(),
            }
        }
        "rawref" => {
            // conversions taking the subtag by reference, and `Variant == str`
            let kind = a.first().copied().unwrap_or("");
            let v = arg!(1);
            match kind {
                "lang" => match Language::from_bytes(&v) {
                    Ok(l) => {
                        let raw: Option<u64> = (&l).into();
                        match raw {
                            Some(n) => {
                                let back = unsafe { Language::from_raw_unchecked(n) };
                                format!("ok {} {}", n, b(back == l))
                            }
                            None => "ok none".to_string(),
                        }
                    }
                    Err(_) => "err".to_string(),
                },
                "script" => match Script::from_bytes(&v) {
                    Ok(l) => {
                        let s: &str = (&l).into();
                        format!("ok {}", esc(s.as_bytes()))
                    }
                    Err(_) => "err".to_string(),
                },
                "region" => match Region::from_bytes(&v) {
                    Ok(l) => {
                        let s: &str = (&l).into();
                        format!("ok {}", esc(s.as_bytes()))
                    }
                    Err(_) => "err".to_string(),
                },
                "variant" => match Variant::from_bytes(&v) {
                    Ok(l) => {
                        let n: u64 = (&l).into();
                        let other = a.get(2).and_then(|s| unhex(s)).unwrap_or_default();
                        let eqs = match std::str::from_utf8(&other) {
                            Ok(s) => format!("{}{}", b(l == *s), b(l == s)),
                            Err(_) => "nn".to_string(),
                        };
                        let back = unsafe { Variant::from_raw_unchecked(n) };
                        format!("ok {} {} {}", n, eqs, b(back == l))
                    }
                    Err(_) => "err".to_string(),
                },
                _ => "bad".to_string(),
            }
        }
        "subeq" => {
            // `subeq <kind> <subtag> <other>`: comparison of a subtag with an arbitrary &str, next to its text
            let kind = a.first().copied().unwrap_or("");
            let v = arg!(1);
            let o = arg!(2);
            let os = match std::str::from_utf8(&o) {
                Ok(s) => s,
                Err(_) => return "notutf8".to_string(),
            };
            match kind {
                "lang" => match Language::from_bytes(&v) {
                    Ok(l) => format!("ok {} txt={}", b(l == os), esc(l.as_str().as_bytes())),
                    Err(_) => "err".to_string(),
                },
                "script" => match Script::from_bytes(&v) {
                    Ok(l) => format!("ok {} txt={}", b(l == os), esc(l.as_str().as_bytes())),
                    Err(_) => "err".to_string(),
                },
                "region" => match Region::from_bytes(&v) {
                    Ok(l) => format!("ok {} txt={}", b(l == os), esc(l.as_str().as_bytes())),
                    Err(_) => "err".to_string(),
                },
                "variant" => match Variant::from_bytes(&v) {
                    Ok(l) => format!("ok {} txt={}", b(l == os && l == *os), esc(l.as_str().as_bytes())),
                    Err(_) => "err".to_string(),
                },
                _ => "bad".to_string(),
            }
        }
        "substr" => {
            // `substr <kind> <text>`: the FromStr entry point of each subtag type and of ExtensionsMap
            let kind = a.first().copied().unwrap_or("");
            let v = arg!(1);
            let s = match std::str::from_utf8(&v) {
                Ok(s) => s,
                Err(_) => return "notutf8".to_string(),
            };
            match kind {
                "script" => match s.parse::<Script>() {
                    Ok(x) => format!("ok {}", esc(x.as_str().as_bytes())),
                    Err(e) => p_err(&e).to_string(),
                },
                "region" => match s.parse::<Region>() {
                    Ok(x) => format!("ok {}", esc(x.as_str().as_bytes())),
                    Err(e) => p_err(&e).to_string(),
                },
                "variant" => match s.parse::<Variant>() {
                    Ok(x) => format!("ok {}", esc(x.as_str().as_bytes())),
                    Err(e) => p_err(&e).to_string(),
                },
                "ext" => match s.parse::<ExtensionsMap>() {
                    Ok(e) => format!("ok {};str={}", render_ext(&e), esc(e.to_string().as_bytes())),
                    Err(e) => loc_perr(&e).to_string(),
                },
                _ => "bad".to_string(),
            }
        }
        "exttype" => {
            let n: u8 = match a.first().and_then(|s| s.parse().ok()) {
                Some(n) => n,
                None => return "bad".to_string(),
            };
            match unic_locale::extensions::ExtensionType::from_byte(n) {
                Ok(t) => format!("ok {}", esc(t.to_string().as_bytes())),
                Err(e) => loc_perr(&e).to_string(),
            }
        }
        "errdisp" => {
            use unic_langid::parser::ParserError as P;
            use unic_locale::parser::ParserError as Q;
            let le: Result<Locale, _> = Locale::from_bytes(b"-");
            let le2: Result<Locale, _> = Locale::from_bytes(b"en-u-c");
            let texts = vec![
                P::InvalidLanguage.to_string(),
                P::InvalidSubtag.to_string(),
                LanguageIdentifierError::Unknown.to_string(),
                LanguageIdentifierError::ParserError(P::InvalidSubtag).to_string(),
                Q::InvalidLanguage.to_string(),
                Q::InvalidSubtag.to_string(),
                Q::InvalidExtension.to_string(),
                Q::LangIdError(P::InvalidLanguage).to_string(),
                Q::from(P::InvalidSubtag).to_string(),
                le.err().map_or("-".to_string(), |e| e.to_string()),
                le2.err().map_or("-".to_string(), |e| e.to_string()),
            ];
            format!("ok {}", texts.iter().map(|t| esc(t.as_bytes())).collect::<Vec<_>>().join("|"))
        }
        #[cfg(feature = "serde")]
        "serto" => {
            let v = arg!(0);
            match LanguageIdentifier::from_bytes(&v) {
                Ok(li) => match serde_json::to_string(&li) {
                    Ok(s) => {
                        let back = serde_json::from_str::<LanguageIdentifier>(&s).map_or(false, |y| y == li);
                        let val = serde_json::to_value(&li).ok();
                        let vs = val.as_ref().and_then(|v| v.as_str()).map(|s| s.to_string());
                        let back2 = val
                            .and_then(|v| serde_json::from_value::<LanguageIdentifier>(v).ok())
                            .map_or(false, |y| y == li);
                        format!(
                            "ok {} rt={} val={} rt2={}",
                            esc(s.as_bytes()),
                            b(back),
                            vs.map_or("~".to_string(), |s| esc(s.as_bytes())),
                            b(back2)
                        )
                    }
                    Err(_) => "err".to_string(),
                },
                Err(e) => li_err(&e).to_string(),
            }
        }
        #[cfg(feature = "serde")]
        "sernhr" => {
            // the same through a format that is not human readable (serde lets an implementation branch on that)
            use serde::{Deserialize, Serialize};
            let v = arg!(0);
            match LanguageIdentifier::from_bytes(&v) {
                Ok(li) => {
                    let (kind, val) = match li.serialize(crate::nhr::S) {
                        Ok(crate::nhr::Rec::Str(s)) => ("str", esc(s.as_bytes())),
                        Ok(crate::nhr::Rec::Bytes(bv)) => ("bytes", esc(&bv)),
                        Ok(crate::nhr::Rec::Other(k)) => (k, String::new()),
                        Err(e) => ("err", esc(e.0.as_bytes())),
                    };
                    let text = li.to_string();
                    let rt = LanguageIdentifier::deserialize(crate::nhr::D(&text)).map_or(false, |y| y == li);
                    format!("ok kind={} val={} rt={}", kind, val, b(rt))
                }
                Err(e) => li_err(&e).to_string(),
            }
        }
        #[cfg(feature = "serde")]
        "serfrom" => {
            // argument: JSON text
            let v = arg!(0);
            let s = match std::str::from_utf8(&v) {
                Ok(s) => s,
                Err(_) => return "notutf8".to_string(),
            };
            let r1 = match serde_json::from_str::<LanguageIdentifier>(s) {
                Ok(li) => format!("ok {}", render_li(&li)),
                Err(_) => "err".to_string(),
            };
            let r2 = match serde_json::from_str::<serde_json::Value>(s) {
                Ok(val) => match serde_json::from_value::<LanguageIdentifier>(val) {
                    Ok(li) => format!("ok {}", render_li(&li)),
                    Err(_) => "err".to_string(),
                },
                Err(_) => "badjson".to_string(),
            };
            // the same text decoded as a plain JSON string and handed to FromStr: deserialising a string must succeed
            // iff parsing it does, with an equal result
            let r3 = match serde_json::from_str::<String>(s) {
                Ok(st) => match st.parse::<LanguageIdentifier>() {
                    Ok(li) => format!("ok {}", render_li(&li)),
                    Err(_) => "err".to_string(),
                },
                Err(_) => "nostr".to_string(),
            };
            // the same text through `Deserialize::deserialize_in_place` into a slot that already holds a value (with variants),
            // and as the one element of an array deserialised in place into a Vec that already holds two values
            use serde::Deserialize;
            let mut place: LanguageIdentifier = "ca-ES-valencia".parse().unwrap();
            let r4 = match LanguageIdentifier::deserialize_in_place(&mut serde_json::Deserializer::from_str(s), &mut place) {
                Ok(()) => format!("ok {}", render_li(&place)),
                Err(_) => "err".to_string(),
            };
            let mut places: Vec<LanguageIdentifier> = vec!["sl-rozaj-biske".parse().unwrap(), "de-1996".parse().unwrap()];
            let arr = format!("[{}]", s);
            let r5 = match Vec::<LanguageIdentifier>::deserialize_in_place(&mut serde_json::Deserializer::from_str(&arr), &mut places) {
                Ok(()) if places.len() == 1 => format!("ok {}", render_li(&places[0])),
                Ok(()) => "err".to_string(),
                Err(_) => "err".to_string(),
            };
            let inplace = if r4 == r1 && (r5 == r1 || r2 == "badjson") { "same".to_string() } else { format!("{} / {}", r4, r5) };
            format!("{} | {} | {} | {}", r1, r2, r3, inplace)
        }
        _ => "na".to_string(),
    }
}

fn ext_resp(v: &[u8]) -> String {
    match ExtensionsMap::from_bytes(v) {
        Ok(e) => {
            let s = e.to_string();
            let rt = ExtensionsMap::from_bytes(s.as_bytes()).map_or(false, |y| y == e);
            format!("ok {};str={};rt={}", render_ext(&e), esc(s.as_bytes()), b(rt))
        }
        Err(e) => loc_perr(&e).to_string(),
    }
}

fn li_resp(v: &[u8]) -> String {
    match LanguageIdentifier::from_bytes(v) {
        Ok(li) => {
            let s = li.to_string();
            let rt = LanguageIdentifier::from_bytes(s.as_bytes()).map_or(false, |y| y == li);
            format!("ok {};str={};rt={}", render_li(&li), esc(s.as_bytes()), b(rt))
        }
        Err(e) => li_err(&e).to_string(),
    }
}

fn loc_resp(v: &[u8]) -> String {
    match Locale::from_bytes(v) {
        Ok(l) => {
            let s = l.to_string();
            let rt = Locale::from_bytes(s.as_bytes()).map_or(false, |y| y == l);
            format!("ok {};rt={}", render_loc(&l), b(rt))
        }
        Err(e) => loc_err(&e).to_string(),
    }
}

fn render_lang(l: &Language) -> String {
    format!(
        "ok {};{};{};{};rt={}",
        esc(l.as_str().as_bytes()),
        esc(l.to_string().as_bytes()),
        b(*l == l.as_str()),
        b(l.is_empty()),
        b(l.to_string().parse::<Language>().map_or(false, |y| y == *l))
    )
}

// ---------------------------------------------------------------------------------------------
// operation histories

fn out_unit<E>(r: Result<(), E>) -> String {
    match r {
        Ok(()) => "u".to_string(),
        Err(_) => "e".to_string(),
    }
}
fn out_bool<E>(r: Result<bool, E>) -> String {
    match r {
        Ok(x) => format!("b{}", b(x)),
        Err(_) => "e".to_string(),
    }
}

fn hist_step(loc: &mut Locale, op: &str) -> Option<String> {
    let f: Vec<&str> = op.split(':').collect();
    let name = f[0];
    let bytes = |i: usize| -> Option<Vec<u8>> { f.get(i).and_then(|s| unhex(s)) };
    let list = |i: usize| -> Option<Vec<Vec<u8>>> { f.get(i).and_then(|s| unhexlist(s)) };
    Some(match name {
        "sl" => match Language::from_bytes(&bytes(1)?) {
            Ok(l) => {
                loc.id.language = l;
                "u".into()
            }
            Err(_) => "e".into(),
        },
        "ss" => match f.get(1).and_then(|s| unhexopt(s))? {
            None => {
                loc.id.script = None;
                "u".into()
            }
            Some(v) => match Script::from_bytes(&v) {
                Ok(s) => {
                    loc.id.script = Some(s);
                    "u".into()
                }
                Err(_) => "e".into(),
            },
        },
        "sr" => match f.get(1).and_then(|s| unhexopt(s))? {
            None => {
                loc.id.region = None;
                "u".into()
            }
            Some(v) => match Region::from_bytes(&v) {
                Ok(s) => {
                    loc.id.region = Some(s);
                    "u".into()
                }
                Err(_) => "e".into(),
            },
        },
        "sv" => {
            let mut vv = vec![];
            let mut ok = true;
            for v in list(1)? {
                match Variant::from_bytes(&v) {
                    Ok(v) => vv.push(v),
                    Err(_) => {
                        ok = false;
                        break;
                    }
                }
            }
            if ok {
                loc.id.set_variants(&vv);
                "u".into()
            } else {
                "e".into()
            }
        }
        "cv" => {
            loc.id.clear_variants();
            "u".into()
        }
        "hv" => match Variant::from_bytes(&bytes(1)?) {
            Ok(v) => format!("b{}", b(loc.id.has_variant(v))),
            Err(_) => "e".into(),
        },
        "sk" => out_unit(loc.extensions.unicode.set_keyword(bytes(1)?, &list(2)?)),
        "rk" => out_bool(loc.extensions.unicode.remove_keyword(bytes(1)?)),
        "ck" => {
            loc.extensions.unicode.clear_keywords();
            "u".into()
        }
        "kw" => match loc.extensions.unicode.keyword(bytes(1)?) {
            Ok(it) => format!("l{}", esc_list(it)),
            Err(_) => "e".into(),
        },
        "sa" => out_unit(loc.extensions.unicode.set_attribute(bytes(1)?)),
        "ra" => out_bool(loc.extensions.unicode.remove_attribute(bytes(1)?)),
        "ca" => {
            loc.extensions.unicode.clear_attributes();
            "u".into()
        }
        "ha" => out_bool(loc.extensions.unicode.has_attribute(bytes(1)?)),
        "stl" => match LanguageIdentifier::from_bytes(&bytes(1)?) {
            Ok(li) => out_unit(loc.extensions.transform.set_tlang(li)),
            Err(_) => "e".into(),
        },
        "ctl" => {
            loc.extensions.transform.clear_tlang();
            "u".into()
        }
        "stf" => out_unit(loc.extensions.transform.set_tfield(bytes(1)?, &list(2)?)),
        "rtf" => out_bool(loc.extensions.transform.remove_tfield(bytes(1)?)),
        "ctf" => {
            loc.extensions.transform.clear_tfields();
            "u".into()
        }
        "tf" => match loc.extensions.transform.tfield(bytes(1)?) {
            Ok(it) => format!("l{}", esc_list(it)),
            Err(_) => "e".into(),
        },
        "at" => out_unit(loc.extensions.private.add_tag(bytes(1)?)),
        "rt" => out_bool(loc.extensions.private.remove_tag(bytes(1)?)),
        "ct" => {
            loc.extensions.private.clear_tags();
            "u".into()
        }
        "ht" => out_bool(loc.extensions.private.has_tag(bytes(1)?)),
        #[cfg(feature = "likely")]
        "mx" => format!("b{}", b(loc.id.maximize())),
        #[cfg(feature = "likely")]
        "mn" => format!("b{}", b(loc.id.minimize())),
        // character_direction() as a getter inside a history (a call that reads, between calls that write)
        #[cfg(feature = "likely")]
        "cd" => format!(
            "d{}",
            match loc.id.character_direction() {
                unic_langid_impl::CharacterDirection::LTR => "LTR",
                unic_langid_impl::CharacterDirection::RTL => "RTL",
                unic_langid_impl::CharacterDirection::TTB => "TTB",
            }
        ),
        _ => return None,
    })
}

/// `hist <init> <op> <op> ...`: init is a locale string (hex) or `~` for `Locale::default()`.
/// Response: `<init render> # <out>@<render>;rp=<reparse equal?> # ...`
/// serde form of the identifier after a mutation (C19 on values built by mutation): `1` = the JSON text is the quoted
/// canonical string and deserialises to an equal value, `0` = not, `n` = built without the serde feature
#[cfg(feature = "serde")]
fn serde_step(li: &LanguageIdentifier) -> &'static str {
    match serde_json::to_string(li) {
        Ok(j) => {
            let quoted = format!("\"{}\"", li);
            let back = serde_json::from_str::<LanguageIdentifier>(&j).map_or(false, |y| y == *li);
            if j == quoted && back {
                "1"
            } else {
                "0"
            }
        }
        Err(_) => "0",
    }
}

#[cfg(not(feature = "serde"))]
fn serde_step(_li: &LanguageIdentifier) -> &'static str {
    "n"
}

fn hist(a: &[&str]) -> String {
    let mut loc = match a.first().and_then(|s| unhexopt(s)) {
        Some(None) => Locale::default(),
        Some(Some(v)) => match Locale::from_bytes(&v) {
            Ok(l) => l,
            Err(e) => return loc_err(&e).to_string(),
        },
        None => return "bad".to_string(),
    };
    let mut out = format!("ok {}", render_loc(&loc));
    for op in &a[1..] {
        let r = catch_unwind(AssertUnwindSafe(|| hist_step(&mut loc, op)));
        match r {
            Ok(Some(o)) => {
                let s = loc.to_string();
                let rp = Locale::from_bytes(s.as_bytes()).map_or(false, |y| y == loc);
                // from_parts(into_parts(x)) == x, the extension string re-parsed (C17 on values built by mutation)
                let (pl, ps, pr, pv, pe) = loc.clone().into_parts();
                let pp = pe.parse::<ExtensionsMap>().map_or(false, |em| Locale::from_parts(pl, ps, pr, &pv, Some(em)) == loc);
                out.push_str(&format!(" # {}@{};rp={};pp={};sd={}", o, render_loc(&loc), b(rp), b(pp), serde_step(&loc.id)));
            }
            Ok(None) => {
                out.push_str(" # na");
                break;
            }
            Err(_) => {
                out.push_str(" # panic");
                break;
            }
        }
    }
    out
}

// ---------------------------------------------------------------------------------------------

#[cfg(all(unic_locale_verif, feature = "likely"))]
pub fn dump_tables() {
    use unic_langid_impl::likelysubtags as ls;
    use unic_langid_impl::verif_layout_table as lt;
    fn o64(x: Option<u64>) -> u128 {
        x.map_or(0, |v| v as u128 + 1)
    }
    fn o32(x: Option<u32>) -> u128 {
        x.map_or(0, |v| v as u128 + 1)
    }
    println!("CLDR_VERSION {}", ls::CLDR_VERSION);
    for (k, v) in ls::LANG_ONLY.iter() {
        println!("LANG_ONLY {} {} {} {}", k, o64(v.0), o32(v.1), o32(v.2));
    }
    for (k1, k2, v) in ls::LANG_REGION.iter() {
        println!("LANG_REGION {} {} {} {} {}", k1, k2, o64(v.0), o32(v.1), o32(v.2));
    }
    for (k1, k2, v) in ls::LANG_SCRIPT.iter() {
        println!("LANG_SCRIPT {} {} {} {} {}", k1, k2, o64(v.0), o32(v.1), o32(v.2));
    }
    for (k1, k2, v) in ls::SCRIPT_REGION.iter() {
        println!("SCRIPT_REGION {} {} {} {} {}", k1, k2, o64(v.0), o32(v.1), o32(v.2));
    }
    for (k, v) in ls::SCRIPT_ONLY.iter() {
        println!("SCRIPT_ONLY {} {} {} {}", k, o64(v.0), o32(v.1), o32(v.2));
    }
    for (k, v) in ls::REGION_ONLY.iter() {
        println!("REGION_ONLY {} {} {} {}", k, o64(v.0), o32(v.1), o32(v.2));
    }
    for x in lt::SCRIPTS_CHARACTER_DIRECTION_LTR.iter() {
        println!("LTR {}", x);
    }
    for x in lt::SCRIPTS_CHARACTER_DIRECTION_RTL.iter() {
        println!("RTL {}", x);
    }
    for x in lt::SCRIPTS_CHARACTER_DIRECTION_TTB.iter() {
        println!("TTB {}", x);
    }
    for x in lt::LANGS_CHARACTER_DIRECTION_RTL.iter() {
        println!("RTL_LANGS {}", x);
    }
}

#[cfg(not(all(unic_locale_verif, feature = "likely")))]
pub fn dump_tables() {
    eprintln!("dump-tables needs --cfg unic_locale_verif and the `likely` feature");
    std::process::exit(2);
}
