//! Argument encoding and canonical text rendering shared by every op.
//!
//! request:   `<op> <arg> <arg> ...`   (space separated)
//!   byte string  = lower-case hex, `_` for the empty string
//!   list         = byte strings joined by `,`, `[]` for the empty list
//!   option       = `~` for None
//! response:  text in which every byte outside [A-Za-z0-9] coming from the library is written `%XX`.

pub fn unhex(s: &str) -> Option<Vec<u8>> {
    if s == "_" {
        return Some(vec![]);
    }
    let b = s.as_bytes();
    if b.len() % 2 != 0 {
        return None;
    }
    let mut out = Vec::with_capacity(b.len() / 2);
    for p in b.chunks(2) {
        let h = (p[0] as char).to_digit(16)?;
        let l = (p[1] as char).to_digit(16)?;
        out.push((h * 16 + l) as u8);
    }
    Some(out)
}

pub fn hex(b: &[u8]) -> String {
    if b.is_empty() {
        return "_".to_string();
    }
    let mut s = String::with_capacity(b.len() * 2);
    for x in b {
        s.push_str(&format!("{:02x}", x));
    }
    s
}

pub fn hexlist(l: &[Vec<u8>]) -> String {
    if l.is_empty() {
        return "[]".to_string();
    }
    l.iter().map(|b| hex(b)).collect::<Vec<_>>().join(",")
}

pub fn unhexlist(s: &str) -> Option<Vec<Vec<u8>>> {
    if s == "[]" {
        return Some(vec![]);
    }
    s.split(',').map(unhex).collect()
}

pub fn unhexopt(s: &str) -> Option<Option<Vec<u8>>> {
    if s == "~" {
        Some(None)
    } else {
        unhex(s).map(Some)
    }
}

/// text coming out of the library, escaped
pub fn esc(b: &[u8]) -> String {
    let mut s = String::with_capacity(b.len());
    for &c in b {
        if c.is_ascii_alphanumeric() || c == b'-' {
            s.push(c as char);
        } else {
            s.push_str(&format!("%{:02X}", c));
        }
    }
    s
}

pub fn esc_list<'a>(it: impl Iterator<Item = &'a str>) -> String {
    it.map(|s| esc(s.as_bytes())).collect::<Vec<_>>().join(",")
}
