//! Correspondence harness: calls the real unic-langid / unic-locale crates in-process and
//! answers the same line protocol as the Lean driver (`/verif/lean/Main.lean`).
//!
//!   ulharness serve            requests on stdin, one response per line on stdout
//!   ulharness gen <stream> <tier> <seed>     request lines for a generator stream
//!   ulharness dump-tables      the compiled lookup tables (needs --cfg unic_locale_verif)
//!   ulharness features         the feature set this binary was built with

mod gen;
#[cfg(feature = "serde")]
mod nhr;
mod ops;
mod proto;
mod render;

use std::io::{BufRead, BufWriter, Write};

fn main() {
    let args: Vec<String> = std::env::args().collect();
    std::panic::set_hook(Box::new(|_| {}));
    match args.get(1).map(|s| s.as_str()) {
        Some("serve") => {
            // Requests are answered on a worker thread (large stack); the main thread is the watchdog: a request that
            // is not answered within ULH_TIMEOUT_MS (default 3 s) is reported as `timeout` and the process exits with
            // status 3 (a thread that loops cannot be stopped) - the checker restarts it after that request.
            use std::sync::mpsc;
            use std::time::Duration;
            let limit = std::env::var("ULH_TIMEOUT_MS").ok().and_then(|v| v.parse().ok()).unwrap_or(3_000u64);
            let (tx_req, rx_req) = mpsc::channel::<String>();
            let (tx_res, rx_res) = mpsc::channel::<String>();
            std::thread::Builder::new()
                .stack_size(256 << 20)
                .spawn(move || {
                    for line in rx_req {
                        if tx_res.send(ops::answer(&line)).is_err() {
                            break;
                        }
                    }
                })
                .expect("spawn");
            let stdin = std::io::stdin();
            let stdout = std::io::stdout();
            let mut out = BufWriter::with_capacity(1 << 20, stdout.lock());
            for line in stdin.lock().lines() {
                let line = line.expect("stdin");
                tx_req.send(line).expect("worker");
                match rx_res.recv_timeout(Duration::from_millis(limit)) {
                    Ok(resp) => {
                        out.write_all(resp.as_bytes()).unwrap();
                        out.write_all(b"\n").unwrap();
                    }
                    Err(mpsc::RecvTimeoutError::Timeout) => {
                        out.write_all(b"timeout\n").unwrap();
                        out.flush().unwrap();
                        std::process::exit(3);
                    }
                    Err(mpsc::RecvTimeoutError::Disconnected) => {
                        out.write_all(b"died\n").unwrap();
                        out.flush().unwrap();
                        std::process::exit(4);
                    }
                }
            }
            out.flush().unwrap();
        }
        Some("gen") => {
            let stream = args.get(2).expect("stream");
            let tier = args.get(3).map(|s| s.as_str()).unwrap_or("quick");
            let seed: u64 = args.get(4).and_then(|s| s.parse().ok()).unwrap_or(0);
            let stdout = std::io::stdout();
            let mut out = BufWriter::with_capacity(1 << 20, stdout.lock());
            gen::generate(stream, tier == "thorough", seed, &mut out);
            out.flush().unwrap();
        }
        Some("dump-tables") => ops::dump_tables(),
        Some("features") => {
            println!(
                "likely={} serde={} macros={}",
                cfg!(feature = "likely"),
                cfg!(feature = "serde"),
                cfg!(feature = "macros")
            );
        }
        _ => {
            eprintln!("usage: ulharness serve | gen <stream> <tier> <seed> | dump-tables | features");
            std::process::exit(2);
        }
    }
}
