//! Correspondence harness: calls the real unic-langid / unic-locale crates in-process and
//! answers the same line protocol as the Lean driver (`/verif/lean/Main.lean`).
//!
//!   ulharness serve            requests on stdin, one response per line on stdout
//!   ulharness gen <stream> <tier> <seed>     request lines for a generator stream
//!   ulharness dump-tables      the compiled lookup tables (needs --cfg unic_locale_verif)
//!   ulharness features         the feature set this binary was built with

mod gen;
mod ops;
mod proto;
mod render;

use std::io::{BufRead, BufWriter, Write};

fn main() {
    let args: Vec<String> = std::env::args().collect();
    std::panic::set_hook(Box::new(|_| {}));
    match args.get(1).map(|s| s.as_str()) {
        Some("serve") => {
            let stdin = std::io::stdin();
            let stdout = std::io::stdout();
            let mut out = BufWriter::with_capacity(1 << 20, stdout.lock());
            for line in stdin.lock().lines() {
                let line = line.expect("stdin");
                let resp = ops::answer(&line);
                out.write_all(resp.as_bytes()).unwrap();
                out.write_all(b"\n").unwrap();
            }
            out.flush().unwrap();
        }
        Some("gen") => {
            let stream = args.get(2).expect("stream");
            let tier = args.get(3).map(|s| s.as_str()).unwrap_or("quick");
            let seed: u64 = args.get(4).and_then(|s| s.parse().ok()).unwrap_or(0);
            let stdout = std::io::stdout();
            let mut out = BufWriter::with_capacity(1 << 20, stdout.lock());
            gen::generate(stream, tier == "thorough", seed, &mut out);
            out.flush().unwrap();
        }
        Some("dump-tables") => ops::dump_tables(),
        Some("features") => {
            println!(
                "likely={} serde={} macros={}",
                cfg!(feature = "likely"),
                cfg!(feature = "serde"),
                cfg!(feature = "macros")
            );
        }
        _ => {
            eprintln!("usage: ulharness serve | gen <stream> <tier> <seed> | dump-tables | features");
            std::process::exit(2);
        }
    }
}
