//! Expression-level translation (terms are strings; effects are tracked in `Val::eff`).

use crate::config;
use crate::doc::Doc;
use crate::tr_core::*;
use crate::types::*;

pub fn bytes_lit(bs: &[u8]) -> String {
    let v: Vec<String> = bs.iter().map(|b| b.to_string()).collect();
    format!("[{}]", v.join(", "))
}

fn is_int(t: &Ty) -> bool {
    matches!(t, Ty::Usize | Ty::U8 | Ty::Int | Ty::UInt)
}

impl<'a> Tr<'a> {
    /// Combine strictly evaluated operands (left to right).  `f` builds the term from pure
    /// operand terms; `inner_eff` says that `f`'s term is itself of type `Res _`.
    pub fn lift(&mut self, vals: &[Val], ty: Ty, inner_eff: bool, f: &dyn Fn(&[String]) -> String) -> R<Val> {
        for v in vals {
            if v.callres {
                return self.unsup("the result of a call to a `Result`-returning function is used other than by `?` or as the function result");
            }
        }
        let mut binds: Vec<(String, String)> = Vec::new();
        for v in vals {
            binds.extend(v.binds.iter().cloned());
        }
        if !binds.is_empty() {
            self.effect_guard("an operand")?;
        }
        let ts: Vec<String> = vals.iter().map(|v| v.t.clone()).collect();
        let t = f(&ts);
        if inner_eff {
            Ok(self.mk_eff(t, ty, binds))
        } else {
            Ok(Val { t, ty, binds, range: None, callres: false, itercall: None })
        }
    }

    fn want_bool(&self, v: &Val, what: &str) -> R<()> {
        if v.ty != Ty::Bool {
            return Err(format!("{}: expected bool, found {:?}", what, v.ty));
        }
        Ok(())
    }

    fn strip_refs(e: &syn::Expr) -> &syn::Expr {
        match e {
            syn::Expr::Reference(r) if r.mutability.is_none() => Self::strip_refs(&r.expr),
            syn::Expr::Paren(p) => Self::strip_refs(&p.expr),
            syn::Expr::Group(g) => Self::strip_refs(&g.expr),
            syn::Expr::Unary(u) if matches!(u.op, syn::UnOp::Deref(_)) => Self::strip_refs(&u.expr),
            _ => e,
        }
    }

    pub fn tr_lit(&mut self, l: &syn::Lit, expected: Option<&Ty>) -> R<Val> {
        match l {
            syn::Lit::Int(i) => {
                let n: u128 = i.base10_parse().map_err(|e| format!("integer literal: {}", e))?;
                let ty = match i.suffix() {
                    "" => match expected {
                        Some(Ty::Usize) => Ty::Usize,
                        Some(Ty::U8) => Ty::U8,
                        _ => Ty::Int,
                    },
                    "usize" => Ty::Usize,
                    "u8" => Ty::U8,
                    s => return self.unsup(format!("integer literal suffix `{}`", s)),
                };
                if ty == Ty::U8 && n > 255 {
                    return self.unsup("u8 literal out of range");
                }
                Ok(Val::pure_(n.to_string(), ty))
            }
            syn::Lit::Byte(b) => Ok(Val::pure_(b.value().to_string(), Ty::U8)),
            syn::Lit::ByteStr(b) => Ok(Val::pure_(bytes_lit(&b.value()), Ty::Slice)),
            syn::Lit::Str(s) => Ok(Val::pure_(bytes_lit(s.value().as_bytes()), Ty::Str)),
            syn::Lit::Bool(b) => Ok(Val::pure_(if b.value { "true" } else { "false" }, Ty::Bool)),
            syn::Lit::Char(c) => Ok(Val::pure_((c.value() as u32).to_string(), Ty::Char)),
            _ => self.unsup("literal of an unsupported kind"),
        }
    }

    /// `ParserError::X`, `ExtensionType::X`, `None`, a constant, a variable.
    fn tr_path(&mut self, p: &syn::ExprPath, env: &Env, expected: Option<&Ty>) -> R<Val> {
        if p.qself.is_some() {
            return self.unsup("qualified path expression");
        }
        let segs: Vec<String> = p.path.segments.iter().map(|s| s.ident.to_string()).collect();
        if segs.len() == 1 {
            let n = &segs[0];
            if let Some(v) = env.get(n) {
                return Ok(v.clone());
            }
            if n == "None" {
                let inner = match expected {
                    Some(Ty::Opt(x)) => (**x).clone(),
                    _ => Ty::Infer,
                };
                return Ok(Val::pure_("none", Ty::Opt(Box::new(inner))));
            }
            return self.tr_const(n);
        }
        if segs.len() == 2 && (segs[0] == "tables" || segs[0] == "layout_table") {
            // a static of the generated tables: a field of the model's `Tables` / `Layout` parameter
            return match config::TABLES.iter().find(|(n, _, _)| *n == segs[1]) {
                Some((_, lean, keys)) => {
                    if lean.starts_with("T.") {
                        self.uses_t = true;
                    } else {
                        self.uses_l = true;
                    }
                    let ty = match keys {
                        1 => Ty::Table1,
                        2 => Ty::Table2,
                        _ => Ty::NatList,
                    };
                    Ok(Val::pure_(*lean, ty))
                }
                None => self.unsup(format!("unknown table `{}`", segs[1])),
            };
        }
        if segs.len() == 2 {
            return self.tr_variant(&segs[0], &segs[1], &[]);
        }
        self.unsup(format!("path `{}`", segs.join("::")))
    }

    /// A module-level `const` of the current file, translated at its use.
    fn tr_const(&mut self, name: &str) -> R<Val> {
        let f = self.reg.file(self.file)?;
        let mut found: Option<&syn::ItemConst> = None;
        for it in &f.items {
            if let syn::Item::Const(c) = it {
                if c.ident == name {
                    found = Some(c);
                }
            }
        }
        let c = match found {
            Some(c) => c,
            None => return self.unsup(format!("unknown name `{}` (not a local, parameter or const of {})", name, self.file)),
        };
        let mut bare = c.clone();
        bare.attrs.clear();
        self.deps.insert(format!("const {}", name), norm_tokens(&bare));
        // declared type
        let declared = match &*c.ty {
            syn::Type::Path(p) if p.path.segments.last().map(|s| s.ident == "RangeInclusive" || s.ident == "Range").unwrap_or(false) => Ty::Range,
            t => self.resolve_ty(t)?,
        };
        let env = Env::new();
        self.pure_only += 1;
        let v = self.tr_expr(&c.expr, &env, Some(&declared));
        self.pure_only -= 1;
        let mut v = v?;
        if v.eff() {
            return self.unsup(format!("const `{}` has an initializer that may panic", name));
        }
        match (&declared, &v.ty) {
            (Ty::Range, Ty::Range) => {
                let incl_decl = matches!(&*c.ty, syn::Type::Path(p) if p.path.segments.last().unwrap().ident == "RangeInclusive");
                if v.range.as_ref().map(|r| r.2) != Some(incl_decl) {
                    return self.unsup(format!("const `{}`: range kind does not match its declared type", name));
                }
            }
            (d, Ty::Int) if is_int(d) => v.ty = d.clone(),
            (d, t) if d == t => {}
            (d, t) => return self.unsup(format!("const `{}`: declared {:?}, initializer {:?}", name, d, t)),
        }
        Ok(v)
    }

    /// `Enum::Variant` or `Enum::Variant(args)`.
    fn tr_variant(&mut self, en: &str, var: &str, args: &[Val]) -> R<Val> {
        let en_resolved = if en == "Self" { self.self_ty.clone().unwrap_or_default() } else { en.to_string() };
        if en_resolved == "ParserError" {
            let ef = Registry::errors_file_for(self.file);
            let info = self.reg.enum_in(&ef, "ParserError")?;
            self.deps.insert(format!("{}::ParserError", ef), info.tokens.clone());
            match info.variants.iter().find(|(n, _)| n == var) {
                Some((_, 0)) => {}
                Some(_) => return self.unsup(format!("ParserError::{} carries a payload (the model's `Err` has no such constructor)", var)),
                None => return self.unsup(format!("ParserError::{} does not exist in {}", var, ef)),
            }
            if !args.is_empty() {
                return self.unsup("arguments to a unit error variant");
            }
            return match config::ERROR_VARIANTS.iter().find(|(r, _)| *r == var) {
                Some((_, l)) => Ok(Val::pure_(*l, Ty::PErr)),
                None => self.unsup(format!("ParserError::{} has no counterpart in the model's `Err`", var)),
            };
        }
        if let Some((cfg, _)) = self.reg.model_enum(&en_resolved)? {
            self.named(&en_resolved)?;
            let (_, lean, arity) = match cfg.variants.iter().find(|(r, _, _)| *r == var) {
                Some(x) => x,
                None => return self.unsup(format!("{}::{} is not a variant the model knows", en_resolved, var)),
            };
            if args.len() != *arity {
                return self.unsup(format!("{}::{} takes {} arguments", en_resolved, var, arity));
            }
            // payloads are dropped by the model, but they must be pure
            let ty = Ty::Named(en_resolved.clone());
            let term = format!("{}.{}", cfg.lean, lean);
            return self.lift(args, ty, false, &|_| term.clone());
        }
        self.unsup(format!("path `{}::{}`", en, var))
    }

    pub fn tr_closure1(&mut self, c: &syn::Expr, env: &Env, param_ty: Ty) -> R<(String, Val)> {
        self.tr_closure1x(c, env, param_ty, false)
    }

    /// `allow_callres`: the body may be the result of a call to a `Result`-returning target (the
    /// caller must then treat the whole value as something that may contain a panic).
    pub fn tr_closure1x(&mut self, c: &syn::Expr, env: &Env, param_ty: Ty, allow_callres: bool) -> R<(String, Val)> {
        let cl = match Self::strip_refs(c) {
            syn::Expr::Closure(cl) => cl,
            _ => return self.unsup("a closure argument that is not written as a closure literal"),
        };
        if cl.inputs.len() != 1 {
            return self.unsup("closure with other than one parameter");
        }
        let mut pat = &cl.inputs[0];
        loop {
            match pat {
                syn::Pat::Type(pt) => {
                    let t = self.resolve_ty(&pt.ty)?;
                    if t != param_ty {
                        return self.unsup(format!("closure parameter declared {:?}, expected {:?}", t, param_ty));
                    }
                    pat = &pt.pat;
                }
                syn::Pat::Reference(r) => pat = &r.pat,
                syn::Pat::Paren(p) => pat = &p.pat,
                _ => break,
            }
        }
        let mut env2 = env.clone();
        let lean_name = match pat {
            syn::Pat::Ident(pi) if pi.subpat.is_none() && pi.mutability.is_none() => {
                let n = self.fresh(&pi.ident.to_string());
                env2.insert(pi.ident.to_string(), Val::pure_(n.clone(), param_ty));
                n
            }
            syn::Pat::Wild(_) => "_".to_string(),
            _ => return self.unsup("closure parameter pattern"),
        };
        self.pure_only += 1;
        let body = self.tr_expr(&cl.body, &env2, None);
        self.pure_only -= 1;
        let body = body?;
        if body.eff() || (body.callres && !allow_callres) || body.itercall.is_some() {
            return self.unsup("closure body may panic or return early");
        }
        Ok((lean_name, body))
    }

    pub fn tr_expr(&mut self, e: &syn::Expr, env: &Env, expected: Option<&Ty>) -> R<Val> {
        use syn::Expr as E;
        match e {
            E::Paren(p) => self.tr_expr(&p.expr, env, expected),
            E::Group(g) => self.tr_expr(&g.expr, env, expected),
            E::Reference(r) => {
                if r.mutability.is_some() {
                    return self.unsup("`&mut` borrow (only the subtag iterator may be passed on, as a call argument)");
                }
                self.tr_expr(&r.expr, env, expected)
            }
            E::Lit(l) => self.tr_lit(&l.lit, expected),
            E::Path(p) => self.tr_path(p, env, expected),
            E::Unary(u) => match u.op {
                syn::UnOp::Deref(_) => self.tr_expr(&u.expr, env, expected),
                syn::UnOp::Not(_) => {
                    let v = self.tr_expr(&u.expr, env, Some(&Ty::Bool))?;
                    if v.ty != Ty::Bool {
                        return self.unsup("`!` on a non-bool operand");
                    }
                    self.lift(&[v], Ty::Bool, false, &|a| format!("(!{})", a[0]))
                }
                _ => self.unsup("unary minus"),
            },
            E::Binary(b) => self.tr_binary(b, env),
            E::Range(r) => {
                if !r.attrs.is_empty() {
                    return self.unsup("attributes on a range");
                }
                let (lo, hi) = match (&r.start, &r.end) {
                    (Some(a), Some(b)) => (a, b),
                    _ => return self.unsup("a range without both bounds used as a value"),
                };
                let lo = self.tr_expr(lo, env, None)?;
                let hi = self.tr_expr(hi, env, None)?;
                if lo.eff() || hi.eff() || !is_int(&lo.ty) || !is_int(&hi.ty) {
                    return self.unsup("range bounds must be pure integers");
                }
                let incl = matches!(r.limits, syn::RangeLimits::Closed(_));
                Ok(Val { t: String::new(), ty: Ty::Range, binds: vec![], range: Some((lo.t, hi.t, incl)), callres: false, itercall: None })
            }
            E::Field(f) => self.tr_field(f, env),
            E::Index(i) => self.tr_index(i, env),
            E::MethodCall(m) => self.tr_method(m, env, expected),
            E::Call(c) => self.tr_call(c, env, expected),
            E::Try(t) => {
                let v = self.tr_expr(&t.expr, env, None)?;
                if v.ty == Ty::FmtRes {
                    // writing to the output buffer cannot fail
                    return Ok(Val { ty: Ty::Unit, ..v });
                }
                if let (Some(d), Ty::ResPE(inner)) = (v.itercall, &v.ty) {
                    // `v.t : Res (T × List Bytes)`: the value is the first component, the
                    // iterator becomes the second
                    self.effect_guard("`?`")?;
                    if self.pure_only > 0 {
                        return self.unsup("a call that advances the subtag iterator inside a closure or conditional operand");
                    }
                    let inner = (**inner).clone();
                    let binds = v.binds.clone();
                    let pair = self.mk_eff(v.t.clone(), inner.clone(), binds);
                    if self.pending.iter().any(|(x, _)| *x == d) {
                        return self.unsup("a second mutation of the subtag iterator in one expression");
                    }
                    self.pending.push((d, format!("{}.2", pair.t)));
                    return Ok(Val { t: format!("{}.1", pair.t), ..pair });
                }
                match &v.ty {
                    Ty::ResPE(inner) => {
                        self.effect_guard("`?`")?;
                        if self.mode == Mode::Res && !matches!(self.ret_ty, Ty::ResPE(_)) {
                            return self.unsup("`?` in a function that does not return Result<_, ParserError>");
                        }
                        let inner = (**inner).clone();
                        // the Result value `v.t : Res T` becomes the computation `v.t`
                        let binds = v.binds.clone();
                        Ok(self.mk_eff(v.t.clone(), inner, binds))
                    }
                    Ty::ResOpaque(_) => self.unsup("`?` on a Result whose error type is not ParserError (needs a From conversion)"),
                    Ty::Opt(_) => self.unsup("`?` on an Option"),
                    t => self.unsup(format!("`?` on {:?}", t)),
                }
            }
            E::Cast(c) => {
                let v = self.tr_expr(&c.expr, env, None)?;
                let to = self.resolve_ty(&c.ty)?;
                match (&v.ty, &to) {
                    (Ty::U8, Ty::Usize) | (Ty::Usize, Ty::Usize) | (Ty::U8, Ty::U8) | (Ty::Int, Ty::Usize) => {
                        Ok(Val { ty: to, ..v })
                    }
                    (a, b) => self.unsup(format!("cast from {:?} to {:?}", a, b)),
                }
            }
            E::Macro(m) => self.tr_macro(&m.mac, env),
            E::If(_) | E::Match(_) | E::Block(_) => {
                // a block-like expression used as an operand: everything in it must be pure
                self.pure_only += 1;
                let cell: std::cell::RefCell<Option<Ty>> = std::cell::RefCell::new(None);
                let r = self.tr_tail(e, env, expected, false, &|me: &mut Tr, v: Val, _env: &Env| {
                    if v.callres {
                        return me.unsup("call result used as an operand");
                    }
                    let mut c = cell.borrow_mut();
                    match &*c {
                        None => *c = Some(v.ty.clone()),
                        Some(t) => {
                            if *t != v.ty && !(is_int(t) && is_int(&v.ty)) {
                                if *t == Ty::Infer || matches!(t, Ty::Opt(x) if **x == Ty::Infer) {
                                    *c = Some(v.ty.clone());
                                } else if !(v.ty == Ty::Infer || matches!(&v.ty, Ty::Opt(x) if **x == Ty::Infer)) {
                                    return me.unsup(format!("branches have different types: {:?} and {:?}", t, v.ty));
                                }
                            }
                        }
                    }
                    Ok(Doc::Atom(v.t))
                });
                self.pure_only -= 1;
                let d = r?;
                let ty = cell.borrow().clone().unwrap_or(Ty::Unit);
                Ok(Val::pure_(d.inline(), ty))
            }
            E::Return(_) => self.unsup("`return` inside an expression"),
            E::Closure(_) => self.unsup("a closure used as a value"),
            E::Unsafe(u) if u.block.stmts.len() == 1 && matches!(&u.block.stmts[0], syn::Stmt::Expr(_, None)) => {
                // `unsafe { call(..) }`: the block changes nothing about what is computed (the callee's contract is in the
                // translator's table)
                match &u.block.stmts[0] {
                    syn::Stmt::Expr(x, None) => self.tr_expr(x, env, expected),
                    _ => self.unsup("`unsafe` block"),
                }
            }
            E::Unsafe(_) => self.unsup("`unsafe` block with statements"),
            E::Loop(_) | E::While(_) | E::ForLoop(_) => self.unsup("loop"),
            E::Assign(_) => self.unsup("assignment"),
            E::Tuple(t) => {
                if t.elems.is_empty() {
                    return Ok(Val::pure_("()", Ty::Unit));
                }
                let exp_tys: Vec<Option<Ty>> = match expected {
                    Some(Ty::Tuple(ts)) if ts.len() == t.elems.len() => ts.iter().cloned().map(Some).collect(),
                    _ => t.elems.iter().map(|_| None).collect(),
                };
                let mut vals = Vec::new();
                for (x, et) in t.elems.iter().zip(exp_tys.iter()) {
                    vals.push(self.tr_expr(x, env, et.as_ref())?);
                }
                let ty = Ty::Tuple(vals.iter().map(|v| v.ty.clone()).collect());
                self.lift(&vals, ty, false, &|a| format!("({})", a.join(", ")))
            }
            E::Array(a) if a.elems.is_empty() => Ok(Val::pure_("[]", Ty::List(Box::new(Ty::Infer)))),
            E::Array(_) => self.unsup("array literal"),
            E::Struct(st) => self.tr_struct_lit(st, env),
            other => self.unsup(format!("expression `{}`", norm_tokens(other))),
        }
    }

    fn tr_binary(&mut self, b: &syn::ExprBinary, env: &Env) -> R<Val> {
        use syn::BinOp as B;
        match b.op {
            B::And(_) | B::Or(_) => {
                let is_and = matches!(b.op, B::And(_));
                let l = self.tr_expr(&b.left, env, Some(&Ty::Bool))?;
                let r = self.tr_expr(&b.right, env, Some(&Ty::Bool))?;
                self.want_bool(&l, "left operand of &&/||")?;
                self.want_bool(&r, "right operand of &&/||")?;
                if l.callres || r.callres {
                    return self.unsup("call result used as an operand");
                }
                let op = if is_and { "&&" } else { "||" };
                if !r.eff() {
                    // nothing can go wrong on the right: plain Boolean operator under the left's binds
                    return Ok(Val { t: format!("({} {} {})", l.t, op, r.t), ty: Ty::Bool, binds: l.binds.clone(), range: None, callres: false, itercall: None });
                }
                self.effect_guard("an operand of &&/||")?;
                let rc = r.comp();
                // short circuit: the right operand is evaluated only if needed
                let c = if is_and {
                    format!("(if {} then {} else (Res.ok false))", l.t, rc)
                } else {
                    format!("(if {} then (Res.ok true) else {})", l.t, rc)
                };
                let before = l.binds.clone();
                Ok(self.mk_eff(c, Ty::Bool, before))
            }
            B::Eq(_) | B::Ne(_) => {
                let l = self.tr_expr(&b.left, env, None)?;
                let r = self.tr_expr(&b.right, env, Some(&l.ty))?;
                // re-translate the left side with the right side's type for literals
                let l = if l.ty == Ty::Int && r.ty != Ty::Int { self.tr_expr(&b.left, env, Some(&r.ty))? } else { l };
                if l.ty == Ty::Range || r.ty == Ty::Range {
                    return self.unsup("`==` on ranges");
                }
                if !self.eq_compatible(&l.ty, &r.ty)? {
                    return self.unsup(format!("`==`/`!=` between {:?} and {:?}", l.ty, r.ty));
                }
                let op = if matches!(b.op, B::Eq(_)) { "==" } else { "!=" };
                self.lift(&[l, r], Ty::Bool, false, &|a| format!("({} {} {})", a[0], op, a[1]))
            }
            B::Lt(_) | B::Le(_) | B::Gt(_) | B::Ge(_) => {
                let l = self.tr_expr(&b.left, env, None)?;
                let r = self.tr_expr(&b.right, env, Some(&l.ty))?;
                if !is_int(&l.ty) || !is_int(&r.ty) || matches!((&l.ty, &r.ty), (Ty::Usize, Ty::U8) | (Ty::U8, Ty::Usize)) {
                    return self.unsup(format!("ordering comparison between {:?} and {:?}", l.ty, r.ty));
                }
                let op = match b.op {
                    B::Lt(_) => "<",
                    B::Le(_) => "≤",
                    B::Gt(_) => ">",
                    _ => "≥",
                };
                self.lift(&[l, r], Ty::Bool, false, &|a| format!("(decide ({} {} {}))", a[0], op, a[1]))
            }
            B::Add(_) => {
                let l = self.tr_expr(&b.left, env, Some(&Ty::Usize))?;
                let r = self.tr_expr(&b.right, env, Some(&Ty::Usize))?;
                let ok = |t: &Ty| matches!(t, Ty::Usize | Ty::Int);
                if !ok(&l.ty) || !ok(&r.ty) {
                    return self.unsup("`+` on anything but usize (u8 addition can overflow)");
                }
                self.lift(&[l, r], Ty::Usize, false, &|a| format!("({} + {})", a[0], a[1]))
            }
            B::Sub(_) => self.unsup("subtraction (could underflow)"),
            _ => self.unsup(format!("binary operator `{}`", norm_tokens(&b.op))),
        }
    }

    /// A field of a value of type `base_ty`: (Lean projection, or `None` for the transparent `.0`
    /// of a wrapper struct; the field's type).
    pub fn field_info(&mut self, base_ty: &Ty, member: &syn::Member) -> R<(Option<String>, Ty)> {
        let name = match base_ty {
            Ty::Named(n) => n.clone(),
            Ty::Tuple(ts) => {
                if let syn::Member::Unnamed(i) = member {
                    let k = i.index as usize;
                    let n = ts.len();
                    if k < n && n >= 2 {
                        // nested pairs: (a, (b, c)): .0 = .1, .1 = .2.1, .2 = .2.2
                        let proj = if k + 1 < n { format!("{}1", "2.".repeat(k)) } else { format!("{}2", "2.".repeat(k - 1)) };
                        return Ok((Some(proj), ts[k].clone()));
                    }
                }
                return self.unsup("tuple field");
            }
            t => return self.unsup(format!("field access on {:?}", t)),
        };
        match member {
            syn::Member::Unnamed(i) => {
                if i.index != 0 {
                    return self.unsup("tuple field other than .0");
                }
                match self.newtype_inner(&name)? {
                    Some(inner) => Ok((None, inner)),
                    None => self.unsup(format!(".0 on {}", name)),
                }
            }
            syn::Member::Named(id) => {
                let (cfg, info) = match self.reg.record(&name)? {
                    Some(x) => x,
                    None => return self.unsup(format!("field `{}` on {}", id, name)),
                };
                let fname = id.to_string();
                let fty = match info.fields.iter().find(|(n, _)| *n == fname) {
                    Some((_, t)) => t.clone(),
                    None => return self.unsup(format!("{} has no field `{}`", name, fname)),
                };
                let lean_field = cfg.fields.iter().find(|(r, _, _)| *r == fname).map(|c| c.1).unwrap_or("?");
                if lean_field == "-" || lean_field == "?" {
                    return self.unsup(format!("field {}.{} is not modelled", name, fname));
                }
                // field types are written in the struct's file
                let saved = self.file;
                let saved_self = self.self_ty.clone();
                self.file = cfg.file;
                self.self_ty = Some(name.clone());
                let ty = self.resolve_ty(&fty);
                self.file = saved;
                self.self_ty = saved_self;
                Ok((Some(lean_field.to_string()), ty?))
            }
        }
    }

    fn tr_field(&mut self, f: &syn::ExprField, env: &Env) -> R<Val> {
        let base = self.tr_expr(&f.base, env, None)?;
        if base.callres {
            return self.unsup("field of a call result");
        }
        let (lf, ty) = self.field_info(&base.ty, &f.member)?;
        match lf {
            None => Ok(Val { ty, ..base }),
            Some(lean_field) => self.lift(&[base], ty, false, &|a| format!("({}.{})", a[0], lean_field)),
        }
    }

    fn tr_index(&mut self, i: &syn::ExprIndex, env: &Env) -> R<Val> {
        let base = self.tr_expr(&i.expr, env, None)?;
        if matches!(base.ty, Ty::Table1 | Ty::Table2) {
            let idx = self.tr_expr(&i.index, env, Some(&Ty::Usize))?;
            if !matches!(idx.ty, Ty::Usize | Ty::Int) {
                return self.unsup("table index that is not usize");
            }
            self.effect_guard("indexing a table")?;
            let val = Ty::Tuple(vec![Ty::Opt(Box::new(Ty::UInt)), Ty::Opt(Box::new(Ty::UInt)), Ty::Opt(Box::new(Ty::UInt))]);
            let (f, ty) = if base.ty == Ty::Table1 {
                ("tblRow1", Ty::Tuple(vec![Ty::UInt, val]))
            } else {
                ("tblRow2", Ty::Tuple(vec![Ty::UInt, Ty::UInt, val]))
            };
            return self.lift(&[base, idx], ty, true, &|x| format!("({} {} {})", f, x[0], x[1]));
        }
        if base.ty != Ty::Slice {
            return self.unsup(format!("indexing into {:?}", base.ty));
        }
        if let syn::Expr::Range(r) = Self::strip_parens(&i.index) {
            if matches!(r.limits, syn::RangeLimits::Closed(_)) {
                return self.unsup("inclusive range as a slice index");
            }
            let lo = match &r.start {
                Some(e) => Some(self.tr_expr(e, env, Some(&Ty::Usize))?),
                None => None,
            };
            let hi = match &r.end {
                Some(e) => Some(self.tr_expr(e, env, Some(&Ty::Usize))?),
                None => None,
            };
            for v in lo.iter().chain(hi.iter()) {
                if !matches!(v.ty, Ty::Usize | Ty::Int) {
                    return self.unsup("slice range bound that is not usize");
                }
            }
            self.effect_guard("slicing `v[a..b]`")?;
            return match (lo, hi) {
                (Some(a), None) => self.lift(&[base, a], Ty::Slice, true, &|x| format!("(sliceFrom {} {})", x[0], x[1])),
                (None, Some(b)) => self.lift(&[base, b], Ty::Slice, true, &|x| format!("(sliceTo {} {})", x[0], x[1])),
                (Some(a), Some(b)) => {
                    self.lift(&[base, a, b], Ty::Slice, true, &|x| format!("(sliceRange {} {} {})", x[0], x[1], x[2]))
                }
                (None, None) => Ok(base),
            };
        }
        let idx = self.tr_expr(&i.index, env, Some(&Ty::Usize))?;
        if !matches!(idx.ty, Ty::Usize | Ty::Int) {
            return self.unsup("index that is not usize");
        }
        self.effect_guard("indexing `v[i]`")?;
        self.lift(&[base, idx], Ty::U8, true, &|x| format!("(idx {} {})", x[0], x[1]))
    }

    fn strip_parens(e: &syn::Expr) -> &syn::Expr {
        match e {
            syn::Expr::Paren(p) => Self::strip_parens(&p.expr),
            syn::Expr::Group(g) => Self::strip_parens(&g.expr),
            _ => e,
        }
    }

    fn tr_macro(&mut self, m: &syn::Macro, _env: &Env) -> R<Val> {
        let name = m.path.segments.last().map(|s| s.ident.to_string()).unwrap_or_default();
        match name.as_str() {
            "tinystr" => {
                // tinystr!(N, "text")
                struct Args(syn::LitInt, syn::LitStr);
                impl syn::parse::Parse for Args {
                    fn parse(input: syn::parse::ParseStream) -> syn::Result<Self> {
                        let n: syn::LitInt = input.parse()?;
                        let _: syn::Token![,] = input.parse()?;
                        let s: syn::LitStr = input.parse()?;
                        let _: Option<syn::Token![,]> = input.parse()?;
                        Ok(Args(n, s))
                    }
                }
                let a: Args = syn::parse2(m.tokens.clone()).map_err(|e| format!("tinystr! arguments: {}", e))?;
                let n: u32 = a.0.base10_parse().map_err(|e| format!("tinystr! width: {}", e))?;
                let s = a.1.value();
                let bs = s.as_bytes();
                if bs.len() > n as usize || bs.iter().any(|b| *b == 0 || *b > 127) {
                    return self.unsup("tinystr! literal that is not a valid TinyAsciiStr");
                }
                Ok(Val::pure_(bytes_lit(bs), Ty::Tiny(n)))
            }
            "vec" => {
                if !m.tokens.is_empty() {
                    return self.unsup("`vec![..]` with elements");
                }
                Ok(Val::pure_("[]", Ty::List(Box::new(Ty::Infer))))
            }
            "write" => {
                let (d, nv) = self.tr_write_macro(m, _env)?;
                if self.pure_only > 0 {
                    return self.unsup("`write!` inside a closure or conditional operand");
                }
                if self.pending.iter().any(|(x, _)| *x == d) {
                    return self.unsup("a second write to the formatter in one expression");
                }
                self.pending.push((d, nv));
                Ok(Val::pure_("()", Ty::FmtRes))
            }
            _ => self.unsup(format!("macro `{}!`", name)),
        }
    }

    /// `Default::default()` of a type, written out (nothing is taken from the Lean structure's
    /// own defaults).
    pub fn default_term(&mut self, ty: &Ty) -> R<String> {
        match ty {
            Ty::Opt(_) => Ok("none".into()),
            Ty::List(_) | Ty::Map | Ty::IterB => Ok("[]".into()),
            Ty::Bool => Ok("false".into()),
            Ty::Usize | Ty::U8 | Ty::Int => Ok("0".into()),
            Ty::Named(n) => {
                let n = n.clone();
                if let Some(nt) = self.reg.newtype(&n)? {
                    if !nt.derives.iter().any(|d| d == "Default") {
                        return self.unsup(format!("`{}::default()`: `Default` is not derived", n));
                    }
                    let inner = self.newtype_inner(&n)?.unwrap();
                    return self.default_term(&inner);
                }
                if let Some((cfg, info)) = self.reg.record(&n)? {
                    if !info.derives.iter().any(|d| d == "Default") {
                        return self.unsup(format!("`{}::default()`: `Default` is not derived", n));
                    }
                    let mut parts = Vec::new();
                    for (fname, fty) in &info.fields {
                        let c = cfg.fields.iter().find(|(r, _, _)| r == fname).unwrap();
                        if c.1 == "-" {
                            continue;
                        }
                        let saved = self.file;
                        let saved_self = self.self_ty.clone();
                        self.file = cfg.file;
                        self.self_ty = Some(n.clone());
                        let t = self.resolve_ty(fty);
                        self.file = saved;
                        self.self_ty = saved_self;
                        let t = t?;
                        parts.push(format!("{} := {}", c.1, self.default_term(&t)?));
                    }
                    return Ok(format!("({{ {} }} : {})", parts.join(", "), cfg.lean));
                }
                self.unsup(format!("`{}::default()`", n))
            }
            t => self.unsup(format!("`default()` of {:?}", t)),
        }
    }

    fn tr_struct_lit(&mut self, st: &syn::ExprStruct, env: &Env) -> R<Val> {
        if st.rest.is_some() || st.qself.is_some() {
            return self.unsup("struct literal with `..rest`");
        }
        let name = st.path.segments.last().map(|s| s.ident.to_string()).unwrap_or_default();
        let name = if name == "Self" { self.self_ty.clone().unwrap_or_default() } else { name };
        let ty = self.named(&name)?;
        let (cfg, info) = match self.reg.record(&name)? {
            Some(x) => x,
            None => return self.unsup(format!("struct literal of {}", name)),
        };
        let mut vals: Vec<Val> = Vec::new();
        let mut lean_fields: Vec<String> = Vec::new();
        let mut seen: Vec<String> = Vec::new();
        for fv in &st.fields {
            let fname = match &fv.member {
                syn::Member::Named(i) => i.to_string(),
                _ => return self.unsup("positional field in a struct literal"),
            };
            let c = match cfg.fields.iter().find(|(r, _, _)| *r == fname) {
                Some(c) => c,
                None => return self.unsup(format!("{} has no field `{}` in the model", name, fname)),
            };
            if c.1 == "-" {
                return self.unsup(format!("field {}.{} is not modelled", name, fname));
            }
            let fty = match info.fields.iter().find(|(n, _)| *n == fname) {
                Some((_, t)) => t.clone(),
                None => return self.unsup(format!("{} has no field `{}`", name, fname)),
            };
            let saved = self.file;
            let saved_self = self.self_ty.clone();
            self.file = cfg.file;
            self.self_ty = Some(name.clone());
            let want = self.resolve_ty(&fty);
            self.file = saved;
            self.self_ty = saved_self;
            let want = want?;
            let v = self.tr_expr(&fv.expr, env, Some(&want))?;
            if v.callres {
                return self.unsup("call result stored in a struct");
            }
            self.check_compat(&v.ty, &want)?;
            vals.push(v);
            lean_fields.push(c.1.to_string());
            seen.push(fname);
        }
        for (r, l, _) in cfg.fields {
            if *l != "-" && !seen.iter().any(|s| s == r) {
                return self.unsup(format!("struct literal of {} without field `{}`", name, r));
            }
        }
        let lean = cfg.lean;
        self.lift(&vals, ty, false, &|a| {
            let parts: Vec<String> = lean_fields.iter().zip(a.iter()).map(|(f, t)| format!("{} := {}", f, t)).collect();
            format!("({{ {} }} : {})", parts.join(", "), lean)
        })
    }

    fn tr_call(&mut self, c: &syn::ExprCall, env: &Env, expected: Option<&Ty>) -> R<Val> {
        let p = match Self::strip_parens(&c.func) {
            syn::Expr::Path(p) if p.qself.is_none() => p,
            _ => return self.unsup("call of something that is not a path"),
        };
        let mut segs: Vec<String> = p.path.segments.iter().map(|s| s.ident.to_string()).collect();
        // `subtags::Language::from_bytes`, `parser::parse_language_identifier_from_iter`: module
        // prefixes (lower-case segments before the last one or two) carry no meaning here
        while segs.len() > 1 && segs[0].chars().next().map(|c| c.is_lowercase()).unwrap_or(false) && segs[0] != "char" && segs[0] != "u32" && segs[0] != "u64" {
            segs.remove(0);
        }
        let args: Vec<&syn::Expr> = c.args.iter().collect();
        let one = |me: &Self| -> R<()> {
            if args.len() != 1 {
                me.unsup(format!("`{}` with {} arguments", segs.join("::"), args.len()))
            } else {
                Ok(())
            }
        };
        if segs.len() == 1 {
            match segs[0].as_str() {
                "Ok" if matches!(expected, Some(Ty::FmtRes)) || (self.ret_ty == Ty::FmtRes && expected.is_none() && args.len() == 1 && matches!(args[0], syn::Expr::Tuple(t) if t.elems.is_empty())) => {
                    // `Ok(())` of a `fmt::Result`
                    return Ok(Val::pure_("()", Ty::FmtRes));
                }
                "Ok" => {
                    one(self)?;
                    let inner_exp = match expected {
                        Some(Ty::ResPE(x)) | Some(Ty::ResOpaque(x)) => Some((**x).clone()),
                        _ => None,
                    };
                    let v = self.tr_expr(args[0], env, inner_exp.as_ref())?;
                    let ty = Ty::ResPE(Box::new(v.ty.clone()));
                    return self.lift(&[v], ty, false, &|a| format!("(Res.ok {})", a[0]));
                }
                "Err" => {
                    one(self)?;
                    let v = self.tr_expr(args[0], env, Some(&Ty::PErr))?;
                    if v.ty != Ty::PErr {
                        return self.unsup("`Err(..)` of something that is not a ParserError");
                    }
                    let inner = match expected {
                        Some(Ty::ResPE(x)) => (**x).clone(),
                        _ => Ty::Infer,
                    };
                    return self.lift(&[v], Ty::ResPE(Box::new(inner)), false, &|a| format!("(Res.err {})", a[0]));
                }
                "Some" => {
                    one(self)?;
                    let inner_exp = match expected {
                        Some(Ty::Opt(x)) => Some((**x).clone()),
                        _ => None,
                    };
                    let v = self.tr_expr(args[0], env, inner_exp.as_ref())?;
                    let ty = Ty::Opt(Box::new(v.ty.clone()));
                    return self.lift(&[v], ty, false, &|a| format!("(some {})", a[0]));
                }
                "Self" => return self.tr_newtype_ctor(&self.self_ty.clone().unwrap_or_default(), &args, env),
                n => {
                    if self.reg.newtype(n)?.is_some() {
                        return self.tr_newtype_ctor(n, &args, env);
                    }
                    // a free function of the same file that is a target
                    return self.tr_target_call(None, n, None, &args, env);
                }
            }
        }
        if segs.len() == 2 && segs[0] == "Into" && segs[1] == "into" && args.len() == 1 {
            let v = self.tr_expr(args[0], env, None)?;
            return self.tr_into(v);
        }
        if segs.len() == 2 && segs[1] == "from_raw_unchecked" && args.len() == 1 && self.reg.newtype(&segs[0])?.is_some() {
            // `T::from_raw_unchecked(v)`: the bytes of the little-endian integer (contract: `Model/Likely.lean`, `unpack`)
            let v = self.tr_expr(args[0], env, Some(&Ty::UInt))?;
            if v.ty != Ty::UInt {
                return self.unsup("from_raw_unchecked of something that is not a u32/u64");
            }
            let name = segs[0].clone();
            self.named(&name)?;
            // the contract is the target `<T>.fromRaw` (translated from `from_raw_unchecked` itself, proved in SrcTie/Raw.lean)
            self.need_contract(&format!("{}.fromRaw", name))?;
            let is_opt = matches!(self.newtype_inner(&name)?, Some(Ty::Opt(_)));
            return self.lift(&[v], Ty::Named(name), false, &|a| {
                if is_opt {
                    format!("(some (UL.unpack {}))", a[0])
                } else {
                    format!("(UL.unpack {})", a[0])
                }
            });
        }
        if segs.len() == 2 && (segs[0] == "u32" || segs[0] == "u64") && segs[1] == "from_le_bytes" && args.len() == 1 {
            // `u64::from_le_bytes(*s.all_bytes())`, `s` a TinyAsciiStr: the little-endian integer of its bytes, NUL padding
            // included (contract: `Model/Likely.lean`, `pack`)
            if let syn::Expr::Unary(u) = args[0] {
                if matches!(u.op, syn::UnOp::Deref(_)) {
                    if let syn::Expr::MethodCall(mc) = &*u.expr {
                        if mc.method == "all_bytes" && mc.args.is_empty() {
                            let v = self.tr_expr(&mc.receiver, env, None)?;
                            let width_ok = match (&v.ty, segs[0].as_str()) {
                                (Ty::Tiny(4), "u32") | (Ty::Tiny(8), "u64") => true,
                                _ => false,
                            };
                            if !width_ok {
                                return self.unsup(format!("{}::from_le_bytes of the bytes of {:?}", segs[0], v.ty));
                            }
                            return self.lift(&[v], Ty::UInt, false, &|a| format!("(UL.pack {})", a[0]));
                        }
                    }
                }
            }
            return self.unsup(format!("`{}::from_le_bytes` of something other than `*s.all_bytes()`", segs[0]));
        }
        if segs.len() == 2 {
            let (ty, f) = (segs[0].as_str(), segs[1].as_str());
            if let Some(n) = self.tiny_name(ty) {
                if f == "from_bytes_unchecked" && args.len() == 1 {
                    // `TinyStrN::from_bytes_unchecked(v.to_le_bytes())`: the bytes of the little-endian integer up to its last
                    // non-zero byte (contract: `Model/Likely.lean`, `unpack`)
                    if let syn::Expr::MethodCall(mc) = args[0] {
                        if mc.method == "to_le_bytes" && mc.args.is_empty() {
                            let v = self.tr_expr(&mc.receiver, env, Some(&Ty::UInt))?;
                            if v.ty != Ty::UInt {
                                return self.unsup("to_le_bytes of something that is not a u32/u64");
                            }
                            return self.lift(&[v], Ty::Tiny(n), false, &|a| format!("(UL.unpack {})", a[0]));
                        }
                    }
                    return self.unsup(format!("`{}::from_bytes_unchecked` of something other than `v.to_le_bytes()`", ty));
                }
                if f == "from_bytes" {
                    one(self)?;
                    let v = self.tr_expr(args[0], env, Some(&Ty::Slice))?;
                    if v.ty != Ty::Slice {
                        return self.unsup(format!("{}::from_bytes of {:?}", ty, v.ty));
                    }
                    return self.lift(&[v], Ty::ResOpaque(Box::new(Ty::Tiny(n))), false, &|a| {
                        format!("(tinyFromBytes {} {})", n, a[0])
                    });
                }
                return self.unsup(format!("{}::{}", ty, f));
            }
            if ty == "char" && f == "from" {
                one(self)?;
                let v = self.tr_expr(args[0], env, Some(&Ty::U8))?;
                if v.ty != Ty::U8 {
                    return self.unsup("char::from of something that is not a u8");
                }
                return Ok(Val { ty: Ty::Char, ..v });
            }
            let tyname = if ty == "Self" { self.self_ty.clone().unwrap_or_default() } else { ty.to_string() };
            if f == "default" && args.is_empty() && tyname != "Default" {
                let t = self.named(&tyname)?;
                let term = self.default_term(&t)?;
                return Ok(Val::pure_(term, t));
            }
            if (tyname == "Vec" && f == "new") && args.is_empty() {
                return Ok(Val::pure_("[]", Ty::List(Box::new(Ty::Infer))));
            }
            // enum variant with payload
            let is_variant = tyname == "ParserError"
                || match self.reg.model_enum(&tyname)? {
                    Some((cfg, _)) => cfg.variants.iter().any(|(r, _, _)| *r == f),
                    None => false,
                };
            if is_variant {
                let mut vals = Vec::new();
                for a in &args {
                    vals.push(self.tr_expr(a, env, None)?);
                }
                return self.tr_variant(&tyname, f, &vals);
            }
            return self.tr_target_call(Some(&tyname), f, None, &args, env);
        }
        self.unsup(format!("call of `{}`", segs.join("::")))
    }

    /// `x.into()` / `Into::<T>::into(x)` for the subtag types: the little-endian integer of the bytes
    /// (`u64::from_le_bytes(*s.all_bytes())`; contract: the model's `pack`).
    pub fn tr_into(&mut self, v: Val) -> R<Val> {
        let name = match &v.ty {
            Ty::Named(n) => n.clone(),
            t => return self.unsup(format!("`.into()` on {:?}", t)),
        };
        let inner = match self.newtype_inner(&name)? {
            Some(t) => t,
            None => return self.unsup(format!("`.into()` on {}", name)),
        };
        // the conversion must be the one the contract describes
        let file = config::NEWTYPES.iter().find(|(n, _)| *n == name).map(|(_, f)| *f).unwrap_or("");
        let f = self.reg.file(file)?;
        let mut found = false;
        for it in &f.items {
            if let syn::Item::Impl(im) = it {
                let toks = norm_tokens(im);
                if toks.starts_with(&format!("impl From < {} > for", name)) && toks.contains("from_le_bytes (* ") && toks.contains(". all_bytes ()") {
                    let mut bare = im.clone();
                    bare.attrs.clear();
                    self.deps.insert(format!("{}::impl From<{}> for integer", file, name), norm_tokens(&bare));
                    found = true;
                }
            }
        }
        if !found {
            return self.unsup(format!("no `impl From<{}> for u32/u64/Option<u64>` of the expected form", name));
        }
        // the contract is the target `<T>.toRaw` (translated from the `From` impl itself, proved in SrcTie/Raw.lean)
        self.need_contract(&format!("{}.toRaw", name))?;
        match inner {
            Ty::Opt(_) => self.lift(&[v], Ty::Opt(Box::new(Ty::UInt)), false, &|a| format!("(Option.map UL.pack {})", a[0])),
            _ => self.lift(&[v], Ty::UInt, false, &|a| format!("(UL.pack {})", a[0])),
        }
    }

    fn tr_newtype_ctor(&mut self, name: &str, args: &[&syn::Expr], env: &Env) -> R<Val> {
        let inner = match self.newtype_inner(name)? {
            Some(t) => t,
            None => return self.unsup(format!("`{}(..)` is not a known tuple-struct constructor", name)),
        };
        self.named(name)?;
        if args.len() != 1 {
            return self.unsup("tuple-struct constructor with other than one argument");
        }
        let v = self.tr_expr(args[0], env, Some(&inner))?;
        let ok = v.ty == inner
            || matches!((&v.ty, &inner), (Ty::Opt(a), Ty::Opt(_)) if **a == Ty::Infer);
        if !ok {
            return self.unsup(format!("`{}(..)` applied to {:?}, the field is {:?}", name, v.ty, inner));
        }
        if v.callres {
            return self.unsup("call result used as an operand");
        }
        Ok(Val { ty: Ty::Named(name.to_string()), ..v })
    }

    /// A call of another target function.
    pub fn tr_target_call(
        &mut self,
        imp: Option<&str>,
        func: &str,
        recv: Option<Val>,
        args: &[&syn::Expr],
        env: &Env,
    ) -> R<Val> {
        let tgt = config::TARGETS.iter().find(|t| {
            t.func == func && t.imp == imp && (imp.is_some() || t.file == self.file)
        });
        // a free function of another file (`parser::parse_locale`): by name, if unambiguous
        let tgt = match tgt {
            Some(t) => Some(t),
            None if imp.is_none() => {
                let c: Vec<&config::Target> = config::TARGETS.iter().filter(|t| t.func == func && t.imp.is_none()).collect();
                if c.len() == 1 {
                    Some(c[0])
                } else {
                    None
                }
            }
            None => None,
        };
        let tgt = match tgt {
            Some(t) => t,
            None => {
                return self.unsup(format!(
                    "call of `{}{}` (not a function the translator knows)",
                    imp.map(|i| format!("{}::", i)).unwrap_or_default(),
                    func
                ))
            }
        };
        if let Some(why) = self.failed.get(tgt.lean) {
            return self.unsup(format!("calls {} which is untranslated ({})", tgt.lean, why));
        }
        let sig = match self.done.get(tgt.lean) {
            Some(s) => s.clone(),
            None => return self.unsup(format!("calls {} which is not translated before it (recursion or order)", tgt.lean)),
        };
        for c in &sig.contracts {
            self.contracts.insert(c.clone());
        }
        let visible = tgt.module == self.module.name
            || self.module.imports.iter().any(|i| *i == format!("UnicLocale.Gen.{}", tgt.module));
        if !visible {
            return self.unsup(format!("calls {} which lives in module {} (not imported here)", tgt.lean, tgt.module));
        }
        let mut vals: Vec<Val> = Vec::new();
        if let Some(r) = recv {
            vals.push(r);
        }
        if sig.mut_self {
            return self.unsup(format!("call of {} which changes its receiver", tgt.lean));
        }
        let mut iter_decl: Option<u32> = None;
        for (i, a) in args.iter().enumerate() {
            let pi = vals.len();
            if sig.iter_param == Some(pi) {
                // the subtag iterator: a variable, passed as `iter` or `&mut iter`
                let _ = i;
                let mut x: &syn::Expr = a;
                loop {
                    match x {
                        syn::Expr::Reference(r) => x = &r.expr,
                        syn::Expr::Paren(p) => x = &p.expr,
                        syn::Expr::Group(p) => x = &p.expr,
                        _ => break,
                    }
                }
                let n = match x {
                    syn::Expr::Path(p) if p.path.segments.len() == 1 => p.path.segments[0].ident.to_string(),
                    _ => return self.unsup("the subtag iterator argument is not a variable"),
                };
                match (env.decl_of(&n), env.get(&n)) {
                    (Some(d), Some(v)) if v.ty == Ty::IterB => {
                        iter_decl = Some(d);
                        vals.push(v.clone());
                    }
                    _ => return self.unsup(format!("`{}` is not a subtag iterator", n)),
                }
                continue;
            }
            vals.push(self.tr_expr(a, env, None)?);
        }
        if vals.len() != sig.params.len() {
            return self.unsup(format!("{} called with {} arguments, it has {}", tgt.lean, vals.len(), sig.params.len()));
        }
        for (v, p) in vals.iter().zip(sig.params.iter()) {
            if v.ty == Ty::Range {
                return self.unsup("range passed as an argument");
            }
            // a generic callee (`P: PartialEq`) is instantiated by the argument: `==` must be derived there
            let _ = self.eq_able(&v.ty);
            if crate::tr_stmt::contains_infer(&v.ty) {
                // `None` / `vec![]` as an argument: Lean checks the type when the module is compiled
                continue;
            }
            let lt = self.lean_ty(&v.ty)?;
            if &lt != p {
                return self.unsup(format!("argument of Lean type `{}` passed to {} where `{}` is expected", lt, tgt.lean, p));
            }
        }
        let name = format!("UL.Src.{}", sig.lean);
        let mut lead = String::new();
        if sig.uses_t {
            self.uses_t = true;
            lead.push_str(" T");
        }
        if sig.uses_l {
            self.uses_l = true;
            lead.push_str(" L");
        }
        if sig.plain_res {
            // the callee's Rust type is a plain `T`; its Lean definition returns `Res T` because it may panic: bind it (the
            // panic propagates, as in Rust) and go on with the value
            let plain = match &sig.ret {
                Ty::ResPE(x) => (**x).clone(),
                t => t.clone(),
            };
            self.effect_guard(&format!("a call of {} (it may panic)", tgt.lean))?;
            return self.lift(&vals, plain, true, &|a| format!("({}{} {})", name, lead, a.join(" ")));
        }
        let ret = sig.ret.clone();
        let mut out = self.lift(&vals, ret, false, &|a| format!("({}{} {})", name, lead, a.join(" ")))?;
        if sig.mode == Mode::Res {
            out.callres = true;
        }
        if sig.iter_param.is_some() {
            if sig.mode != Mode::Res || iter_decl.is_none() {
                return self.unsup("internal: iterator-threading callee");
            }
            out.itercall = iter_decl;
        }
        Ok(out)
    }
}
