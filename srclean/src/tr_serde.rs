//! `serde.rs`: `impl Serialize for LanguageIdentifier` and `impl Deserialize for LanguageIdentifier`.
//!
//! serde's side is a contract (`Model/Serde.lean`, `Wire`): `serializer.serialize_str(s)` hands the string `s` to the format
//! (`Wire.str s`); `deserializer.deserialize_string(V)` of a self-describing format calls `V.visit_str(s)` for a string (serde's
//! `visit_string` / `visit_borrowed_str` forward to it by default), a `visit_*` the visitor does not define for anything else
//! (serde's default: `Err(invalid_type)`), and nothing for ill-formed input (an error of the format); `Error::custom(e)` is an
//! error.  What the two impls THEMSELVES say is translated: which string is serialised (`self.to_string()` = the source-derived
//! `Display`), which `visit_*` methods the visitor defines (exactly `visit_str`, else refused), and what `visit_str` does with
//! the string (`s.parse::<LanguageIdentifier>()` = the source-derived `FromStr`, errors mapped by `Error::custom`).

use crate::tr_core::*;
use crate::types::*;

fn dummy_sig(t: &crate::config::Target, tr: &Tr) -> FnSig {
    FnSig {
        lean: t.lean.to_string(),
        params: vec![],
        ret: Ty::Unit,
        mode: Mode::Pure,
        iter_param: None,
        mut_self: false,
        ret_unit: false,
        plain_res: false,
        uses_t: false,
        uses_l: false,
        contracts: tr.contracts.iter().cloned().collect(),
    }
}

fn single_tail(block: &syn::Block) -> Option<&syn::Expr> {
    match block.stmts.last() {
        Some(syn::Stmt::Expr(e, None)) => Some(e),
        _ => None,
    }
}

/// `fn serialize<S>(&self, serializer: S) -> Result<S::Ok, S::Error> where S: Serializer { serializer.serialize_str(&E) }`
pub fn translate_serialize(tr: &mut Tr, sig: &syn::Signature, block: &syn::Block) -> R<(String, FnSig)> {
    let t = tr.target;
    let st = norm_tokens(sig).replace(' ', "");
    if !(st.contains("serialize<S>(&self,serializer:S)->Result<S::Ok,S::Error>") && st.contains("S:Serializer")) {
        return Err(format!("`Serialize::serialize` with an unexpected signature `{}`", norm_tokens(sig)));
    }
    if block.stmts.len() != 1 {
        return Err("`serialize` body that is not one expression".into());
    }
    let e = single_tail(block).ok_or_else(|| "`serialize` body without a tail expression".to_string())?;
    let mc = match e {
        syn::Expr::MethodCall(mc) if mc.method == "serialize_str" && mc.args.len() == 1 && norm_tokens(&*mc.receiver) == "serializer" => mc,
        other => return Err(format!("`serialize` body `{}` (only `serializer.serialize_str(..)` is modelled)", norm_tokens(other))),
    };
    let ty = tr.self_named()?;
    let lt = tr.lean_ty(&ty)?;
    let ln = tr.fresh("self");
    let mut env = Env::new();
    env.insert("self".into(), Val::pure_(ln.clone(), ty));
    tr.mode = Mode::Pure;
    let v = tr.tr_expr(&mc.args[0], &env, Some(&Ty::Str))?;
    if v.ty != Ty::Str || v.eff() || v.callres {
        return Err(format!("`serialize_str` of {:?} / of something that may panic", v.ty));
    }
    let text = format!(
        "/-- `Serialize for {}` in `{}` (to be compared with `{}`): the string handed to the format -/\ndef {} ({} : {}) : Wire :=\n  Wire.str {}\n",
        tr.self_ty.clone().unwrap_or_default(), t.file, t.model, t.lean, ln, lt, v.t
    );
    Ok((text, dummy_sig(t, tr)))
}

/// `fn deserialize<D>(deserializer: D) -> Result<Self, D::Error> where D: Deserializer<'de> { struct V; impl Visitor for V {..}
/// deserializer.deserialize_string(V) }`
pub fn translate_deserialize(tr: &mut Tr, sig: &syn::Signature, block: &syn::Block) -> R<(String, FnSig)> {
    let t = tr.target;
    let st = norm_tokens(sig).replace(' ', "");
    if !(st.contains("deserialize<D>(deserializer:D)->Result<Self,D::Error>") && st.contains("D:Deserializer<'de>")) {
        return Err(format!("`Deserialize::deserialize` with an unexpected signature `{}`", norm_tokens(sig)));
    }
    let mut visitor: Option<String> = None;
    let mut visit_str: Option<&syn::ImplItemFn> = None;
    let mut value_ty: Option<&syn::Type> = None;
    let mut tail: Option<&syn::Expr> = None;
    for s in &block.stmts {
        match s {
            syn::Stmt::Item(syn::Item::Struct(x)) if matches!(x.fields, syn::Fields::Unit) && visitor.is_none() => visitor = Some(x.ident.to_string()),
            syn::Stmt::Item(syn::Item::Impl(im)) => {
                let tn = im.trait_.as_ref().map(|(_, p, _)| p.segments.last().map(|s| s.ident.to_string()).unwrap_or_default());
                let sn = norm_tokens(&*im.self_ty);
                if tn.as_deref() != Some("Visitor") || Some(&sn) != visitor.as_ref() {
                    return Err(format!("an `impl` inside `deserialize` that is not `impl Visitor for {}`", visitor.clone().unwrap_or_default()));
                }
                for ii in &im.items {
                    match ii {
                        syn::ImplItem::Type(ty) if ty.ident == "Value" => value_ty = Some(&ty.ty),
                        syn::ImplItem::Fn(f) if f.sig.ident == "expecting" => {}
                        syn::ImplItem::Fn(f) if f.sig.ident == "visit_str" => visit_str = Some(f),
                        syn::ImplItem::Fn(f) => {
                            return Err(format!("the visitor defines `{}` (the model's visitor accepts strings only, through `visit_str`)", f.sig.ident))
                        }
                        other => return Err(format!("item `{}` in the visitor impl", norm_tokens(other))),
                    }
                }
            }
            syn::Stmt::Expr(e, None) => tail = Some(e),
            other => return Err(format!("statement `{}` in `deserialize`", norm_tokens(other))),
        }
    }
    let visitor = visitor.ok_or_else(|| "no visitor struct in `deserialize`".to_string())?;
    let vs = visit_str.ok_or_else(|| "the visitor has no `visit_str`".to_string())?;
    let value_ty = value_ty.ok_or_else(|| "the visitor has no `type Value`".to_string())?;
    let self_name = tr.self_ty.clone().unwrap_or_default();
    if norm_tokens(value_ty) != self_name {
        return Err(format!("the visitor's `Value` is `{}`, not `{}`", norm_tokens(value_ty), self_name));
    }
    match tail {
        Some(syn::Expr::MethodCall(mc))
            if (mc.method == "deserialize_string" || mc.method == "deserialize_str")
                && mc.args.len() == 1
                && norm_tokens(&*mc.receiver) == "deserializer"
                && norm_tokens(&mc.args[0]) == visitor => {}
        Some(other) => return Err(format!("`deserialize` ends in `{}` (only `deserializer.deserialize_string({})` is modelled)", norm_tokens(other), visitor)),
        None => return Err("`deserialize` without a tail expression".into()),
    }
    // visit_str: `s.parse::<T>().map_err(serde::de::Error::custom)`
    let vst = norm_tokens(&vs.sig).replace(' ', "");
    if !(vst.contains("visit_str<E>(self,s:&str)->Result<Self::Value,E>") && vst.contains("E:serde::de::Error")) {
        return Err(format!("`visit_str` with an unexpected signature `{}`", norm_tokens(&vs.sig)));
    }
    if vs.block.stmts.len() != 1 {
        return Err("`visit_str` body that is not one expression".into());
    }
    let body = single_tail(&vs.block).ok_or_else(|| "`visit_str` without a tail expression".to_string())?;
    let parse = match body {
        syn::Expr::MethodCall(me) if me.method == "map_err" && me.args.len() == 1 => {
            let f = norm_tokens(&me.args[0]).replace(' ', "");
            if f != "serde::de::Error::custom" && f != "E::custom" && f != "de::Error::custom" {
                return Err(format!("`.map_err({})` in `visit_str`", norm_tokens(&me.args[0])));
            }
            &*me.receiver
        }
        other => return Err(format!("`visit_str` body `{}`", norm_tokens(other))),
    };
    let tname = match parse {
        syn::Expr::MethodCall(pa) if pa.method == "parse" && pa.args.is_empty() && norm_tokens(&*pa.receiver) == "s" => match &pa.turbofish {
            Some(tf) if tf.args.len() == 1 => norm_tokens(&tf.args[0]),
            _ => return Err("`s.parse()` without a turbofish type".into()),
        },
        other => return Err(format!("`visit_str` parses with `{}`", norm_tokens(other))),
    };
    if tname != self_name {
        return Err(format!("`visit_str` parses a `{}`, not a `{}`", tname, self_name));
    }
    let key = format!("FromStr for {}", tname);
    let tgt = match crate::config::TARGETS.iter().find(|t| t.imp == Some(key.as_str()) && t.func == "from_str") {
        Some(t) => t,
        None => return Err(format!("`FromStr for {}` is not a translated target", tname)),
    };
    if let Some(why) = tr.failed.get(tgt.lean) {
        return Err(format!("calls {} which is untranslated ({})", tgt.lean, why));
    }
    let sig0 = tr.done.get(tgt.lean).cloned().ok_or_else(|| format!("calls {} which is not translated before it", tgt.lean))?;
    for c in &sig0.contracts {
        tr.contracts.insert(c.clone());
    }
    let text = format!(
        "/-- `Deserialize for {}` in `{}` (to be compared with `{}`): a visitor that defines `visit_str` only -/\ndef {} (w : Wire) : Res {} :=\n  match w with\n  | Wire.str s => (UL.Src.{} s)\n  | Wire.other => Res.err Err.invalidSubtag\n  | Wire.invalid => Res.err Err.invalidSubtag\n",
        self_name,
        t.file,
        t.model,
        t.lean,
        tr.lean_ty(&Ty::Named(self_name.clone()))?,
        tgt.lean
    );
    Ok((text, dummy_sig(t, tr)))
}
