//! The proc macros (`unic-langid-macros-impl`, `unic-locale-macros-impl`): a function `(input: TokenStream) -> TokenStream`
//! that parses a string literal at build time and emits an expression with `quote!`.
//!
//! What such a function computes is translated to `Bytes → MacroOut T`:
//!   * `let id = parse_macro_input!(input as LitStr);` — `id` is the literal (its `value()` is the Lean parameter `lit`);
//!   * `let parsed: T = id.value().parse().expect("..");` — `FromStr for T` (a translated target); an `Err` is a panic
//!     inside the proc macro, i.e. a compile error at the invocation: `match UL.Src.T.fromStr lit with | Res.ok parsed => .. |
//!     _ => MacroOut.compileError`;
//!   * ordinary `let`s (`into_parts()`, `.into()`, tuple patterns) go through the expression translator and must be pure;
//!   * `quote!(..)` builds a term of the expansion language `UL.MTok` (`Model/MacroSem.lean`): the tokens are read as a Rust
//!     expression after `#x` / `[#(#v,)*]` / `$crate` are replaced by placeholders; `#x` of an integer is `MTok.int x`, of a
//!     string `MTok.str x`, of a token stream the stream itself, `[#(#v,)*]` is `MTok.arrOfList v`; a call of one of the
//!     functions of `MACRO_FNS` is `MTok.callN .fn ..`; `unsafe { e }` is `e`;
//!   * `if c { .. } else { .. }`, `if let Some(x) = e { .. } else { .. }` whose blocks end in a token stream, and
//!     `xs.iter().map(|v| { ..; quote!(..) }).collect()` (a list of token streams);
//!   * the result `TokenStream::from(quote! { .. })` is evaluated by the typed evaluator of `MacroSem` the model type names
//!     (`MTok.evalLangId` ..): what rustc does with the expansion at the invocation site (contract).
//! Anything else is refused, with the construct named.

use crate::tr_core::*;
use crate::types::*;
use proc_macro2::{Delimiter, Group, Ident, Span, TokenStream, TokenTree};
use std::collections::HashMap;

#[derive(Clone, Debug, PartialEq)]
enum MK {
    Toks,
    ListToks,
}

/// (type, function, `MFn` constructor, arity, must be reached through `subtags::`)
const MACRO_FNS: &[(&str, &str, &str, usize, bool)] = &[
    ("Language", "from_raw_unchecked", "langFromRaw", 1, true),
    ("Language", "default", "langDefault", 0, true),
    ("Script", "from_raw_unchecked", "scriptFromRaw", 1, true),
    ("Region", "from_raw_unchecked", "regionFromRaw", 1, true),
    ("Variant", "from_raw_unchecked", "variantFromRaw", 1, true),
    ("LanguageIdentifier", "from_raw_parts_unchecked", "langidFromRawParts", 4, false),
    ("Locale", "from_raw_parts_unchecked", "localeFromRawParts", 5, false),
];

struct MEnv {
    env: Env,
    /// token-stream variables: Rust name -> (Lean name, kind)
    toks: HashMap<String, (String, MK)>,
    /// the variable bound by `parse_macro_input!(input as LitStr)`
    lit_var: Option<String>,
}

fn placeholder_tokens(ts: TokenStream) -> TokenStream {
    let toks: Vec<TokenTree> = ts.into_iter().collect();
    let mut out: Vec<TokenTree> = Vec::new();
    let mut i = 0;
    while i < toks.len() {
        match &toks[i] {
            TokenTree::Punct(p) if p.as_char() == '#' => {
                if let Some(TokenTree::Ident(id)) = toks.get(i + 1) {
                    out.push(TokenTree::Ident(Ident::new(&format!("__q_{}", id), Span::call_site())));
                    i += 2;
                    continue;
                }
                out.push(toks[i].clone());
            }
            TokenTree::Punct(p) if p.as_char() == '$' => {
                if let Some(TokenTree::Ident(id)) = toks.get(i + 1) {
                    if id == "crate" {
                        out.push(TokenTree::Ident(id.clone()));
                        i += 2;
                        continue;
                    }
                }
                out.push(toks[i].clone());
            }
            TokenTree::Group(g) => {
                // `[#(#v,)*]`
                if g.delimiter() == Delimiter::Bracket {
                    let inner: Vec<TokenTree> = g.stream().into_iter().collect();
                    if inner.len() == 3 {
                        if let (TokenTree::Punct(h), TokenTree::Group(rep), TokenTree::Punct(star)) = (&inner[0], &inner[1], &inner[2]) {
                            let r: Vec<TokenTree> = rep.stream().into_iter().collect();
                            if h.as_char() == '#' && star.as_char() == '*' && rep.delimiter() == Delimiter::Parenthesis && r.len() == 3 {
                                if let (TokenTree::Punct(h2), TokenTree::Ident(id), TokenTree::Punct(c)) = (&r[0], &r[1], &r[2]) {
                                    if h2.as_char() == '#' && c.as_char() == ',' {
                                        let mut s = TokenStream::new();
                                        s.extend(std::iter::once(TokenTree::Ident(Ident::new(&format!("__qarr_{}", id), Span::call_site()))));
                                        out.push(TokenTree::Group(Group::new(Delimiter::Bracket, s)));
                                        i += 1;
                                        continue;
                                    }
                                }
                            }
                        }
                    }
                }
                out.push(TokenTree::Group(Group::new(g.delimiter(), placeholder_tokens(g.stream()))));
            }
            t => out.push(t.clone()),
        }
        i += 1;
    }
    out.into_iter().collect()
}

impl<'a> Tr<'a> {
    /// `quote!(..)` / `quote! { .. }`: the `MTok` term of the emitted expression.
    fn mac_quote(&mut self, m: &syn::Macro, me: &MEnv) -> R<String> {
        let ts = placeholder_tokens(m.tokens.clone());
        let e: syn::Expr = match syn::parse2(ts.clone()) {
            Ok(e) => e,
            Err(err) => return self.unsup(format!("`quote!` body that is not one expression (`{}`): {}", ts, err)),
        };
        self.mac_tok_expr(&e, me)
    }

    fn mac_interp(&mut self, name: &str, me: &MEnv) -> R<String> {
        if let Some((ln, k)) = me.toks.get(name) {
            return match k {
                MK::Toks => Ok(ln.clone()),
                MK::ListToks => self.unsup(format!("`#{}` of a list of token streams outside `[#(#{},)*]`", name, name)),
            };
        }
        match me.env.get(name) {
            Some(v) if !v.eff() && !v.callres => match &v.ty {
                Ty::UInt => Ok(format!("(MTok.int {})", v.t)),
                Ty::Str => Ok(format!("(MTok.str {})", v.t)),
                t => self.unsup(format!("`#{}` interpolates a value of type {:?}", name, t)),
            },
            _ => self.unsup(format!("`#{}`: not a variable in scope", name)),
        }
    }

    fn mac_tok_expr(&mut self, e: &syn::Expr, me: &MEnv) -> R<String> {
        use syn::Expr as E;
        match e {
            E::Paren(p) => self.mac_tok_expr(&p.expr, me),
            E::Group(g) => self.mac_tok_expr(&g.expr, me),
            E::Unsafe(u) => match u.block.stmts.as_slice() {
                [syn::Stmt::Expr(x, None)] => self.mac_tok_expr(x, me),
                _ => self.unsup("emitted `unsafe` block that is not one expression"),
            },
            E::Path(p) if p.qself.is_none() && p.path.segments.len() == 1 => {
                let n = p.path.segments[0].ident.to_string();
                if n == "None" {
                    return Ok("MTok.none".to_string());
                }
                if let Some(x) = n.strip_prefix("__q_") {
                    return self.mac_interp(x, me);
                }
                self.unsup(format!("emitted path `{}`", n))
            }
            E::Array(a) => {
                if a.elems.len() == 1 {
                    if let E::Path(p) = &a.elems[0] {
                        if p.path.segments.len() == 1 {
                            let n = p.path.segments[0].ident.to_string();
                            if let Some(x) = n.strip_prefix("__qarr_") {
                                return match me.toks.get(x) {
                                    Some((ln, MK::ListToks)) => Ok(format!("(MTok.arrOfList {})", ln)),
                                    _ => self.unsup(format!("`#(#{},)*` of something that is not a list of token streams", x)),
                                };
                            }
                        }
                    }
                }
                let mut out = "MTok.arrNil".to_string();
                for x in a.elems.iter().rev() {
                    let t = self.mac_tok_expr(x, me)?;
                    out = format!("(MTok.arrCons {} {})", t, out);
                }
                Ok(out)
            }
            E::MethodCall(mc) if mc.method == "expect" && mc.args.len() == 1 => {
                if let E::MethodCall(inner) = &*mc.receiver {
                    if inner.method == "parse" && inner.args.is_empty() && inner.turbofish.is_none() {
                        let r = self.mac_tok_expr(&inner.receiver, me)?;
                        return Ok(format!("(MTok.parseExpect {})", r));
                    }
                }
                self.unsup("emitted `.expect(..)` on something that is not `.parse()`")
            }
            E::Call(c) => {
                let p = match &*c.func {
                    E::Path(p) if p.qself.is_none() => p,
                    _ => return self.unsup("emitted call of something that is not a path"),
                };
                let segs: Vec<String> = p.path.segments.iter().map(|s| s.ident.to_string()).collect();
                let mut args = Vec::new();
                for a in &c.args {
                    args.push(self.mac_tok_expr(a, me)?);
                }
                if segs == ["Some"] && args.len() == 1 {
                    return Ok(format!("(MTok.some {})", args[0]));
                }
                if segs == ["Box", "new"] && args.len() == 1 {
                    return Ok(format!("(MTok.boxNew {})", args[0]));
                }
                if segs.len() >= 3 && segs[0] == "crate" {
                    let (ty, f) = (&segs[segs.len() - 2], &segs[segs.len() - 1]);
                    let middle: Vec<&String> = segs[1..segs.len() - 2].iter().collect();
                    for (t, fun, ctor, arity, via_subtags) in MACRO_FNS {
                        let want: Vec<&str> = if *via_subtags { vec!["subtags"] } else { vec![] };
                        if ty == t && f == fun && middle.iter().map(|s| s.as_str()).collect::<Vec<_>>() == want {
                            if args.len() != *arity {
                                return self.unsup(format!("emitted call of `{}::{}` with {} arguments", t, fun, args.len()));
                            }
                            return Ok(if args.is_empty() {
                                format!("(MTok.call0 MFn.{})", ctor)
                            } else {
                                format!("(MTok.call{} MFn.{} {})", arity, ctor, args.join(" "))
                            });
                        }
                    }
                }
                self.unsup(format!("emitted call of `{}` (not a function of the expansion language)", segs.join("::")))
            }
            other => self.unsup(format!("emitted expression `{}`", norm_tokens(other))),
        }
    }

    /// `quote!(..)`, `TokenStream::from(quote!{..})`, `if .. {..} else {..}`, `if let Some(x) = e {..} else {..}`, a block
    /// ending in one of these; or `xs.iter().map(|v| {..}).collect()`.
    fn mac_value(&mut self, e: &syn::Expr, me: &MEnv) -> R<Option<(String, MK)>> {
        use syn::Expr as E;
        match e {
            E::Paren(p) => self.mac_value(&p.expr, me),
            E::Macro(m) if m.mac.path.segments.last().map(|s| s.ident == "quote").unwrap_or(false) => Ok(Some((self.mac_quote(&m.mac, me)?, MK::Toks))),
            E::Call(c) => {
                if let E::Path(p) = &*c.func {
                    let segs: Vec<String> = p.path.segments.iter().map(|s| s.ident.to_string()).collect();
                    if segs == ["TokenStream", "from"] && c.args.len() == 1 {
                        return self.mac_value(&c.args[0], me);
                    }
                }
                Ok(None)
            }
            E::Block(b) if b.label.is_none() => Ok(Some(self.mac_block(&b.block.stmts, me)?)),
            E::If(i) => {
                let else_e = match &i.else_branch {
                    Some((_, e)) => &**e,
                    None => return self.unsup("`if` without `else` as a token stream"),
                };
                if let E::Let(l) = &*i.cond {
                    // `if let Some(x) = e`
                    let (var, ok) = match &*l.pat {
                        syn::Pat::TupleStruct(ts) if ts.path.is_ident("Some") && ts.elems.len() == 1 => match &ts.elems[0] {
                            syn::Pat::Ident(pi) if pi.subpat.is_none() && pi.by_ref.is_none() => (pi.ident.to_string(), true),
                            _ => (String::new(), false),
                        },
                        _ => (String::new(), false),
                    };
                    if !ok {
                        return self.unsup("`if let` pattern other than `Some(x)` in a proc macro");
                    }
                    let v = self.tr_expr(&l.expr, &me.env, None)?;
                    if v.eff() || v.callres {
                        return self.unsup("`if let` scrutinee that may panic");
                    }
                    let inner = match &v.ty {
                        Ty::Opt(t) => (**t).clone(),
                        t => return self.unsup(format!("`if let Some(..)` on {:?}", t)),
                    };
                    let ln = self.fresh(&var);
                    let mut me2 = MEnv { env: me.env.clone(), toks: me.toks.clone(), lit_var: me.lit_var.clone() };
                    me2.toks.remove(&var);
                    me2.env.insert(var.clone(), Val::pure_(ln.clone(), inner));
                    let (a, ka) = self.mac_block(&i.then_branch.stmts, &me2)?;
                    let (b, kb) = match self.mac_value(else_e, me)? {
                        Some(x) => x,
                        None => return self.unsup("`else` branch that is not a token stream"),
                    };
                    if ka != kb {
                        return self.unsup("branches of different kinds");
                    }
                    return Ok(Some((format!("(match {} with | some {} => {} | none => {})", v.t, ln, a, b), ka)));
                }
                let c = self.tr_expr(&i.cond, &me.env, Some(&Ty::Bool))?;
                if c.ty != Ty::Bool || c.eff() || c.callres {
                    return self.unsup("`if` condition that is not a pure bool");
                }
                let (a, ka) = self.mac_block(&i.then_branch.stmts, me)?;
                let (b, kb) = match self.mac_value(else_e, me)? {
                    Some(x) => x,
                    None => return self.unsup("`else` branch that is not a token stream"),
                };
                if ka != kb {
                    return self.unsup("branches of different kinds");
                }
                Ok(Some((format!("(if {} then {} else {})", c.t, a, b), ka)))
            }
            E::MethodCall(mc) if mc.method == "collect" && mc.args.is_empty() && mc.turbofish.is_none() => {
                // `xs.iter().map(|v| { .. }).collect()`
                let map = match &*mc.receiver {
                    E::MethodCall(m) if m.method == "map" && m.args.len() == 1 => m,
                    _ => return Ok(None),
                };
                let it = match &*map.receiver {
                    E::MethodCall(m) if m.method == "iter" && m.args.is_empty() => m,
                    _ => return Ok(None),
                };
                let cl = match &map.args[0] {
                    E::Closure(c) if c.inputs.len() == 1 => c,
                    _ => return Ok(None),
                };
                let xs = self.tr_expr(&it.receiver, &me.env, None)?;
                let elem = match &xs.ty {
                    Ty::List(t) if !xs.eff() && !xs.callres => (**t).clone(),
                    _ => return Ok(None),
                };
                let var = match &cl.inputs[0] {
                    syn::Pat::Ident(pi) if pi.subpat.is_none() && pi.mutability.is_none() => pi.ident.to_string(),
                    _ => return self.unsup("closure parameter pattern in a proc macro"),
                };
                let ln = self.fresh(&var);
                let mut me2 = MEnv { env: me.env.clone(), toks: me.toks.clone(), lit_var: me.lit_var.clone() };
                me2.toks.remove(&var);
                me2.env.insert(var, Val::pure_(ln.clone(), elem));
                let (body, k) = match self.mac_value(&cl.body, &me2)? {
                    Some(x) => x,
                    None => return self.unsup("closure body that is not a token stream"),
                };
                if k != MK::Toks {
                    return self.unsup("closure that yields a list of token streams");
                }
                Ok(Some((format!("(List.map (fun {} => {}) {})", ln, body, xs.t), MK::ListToks)))
            }
            _ => Ok(None),
        }
    }

    /// Statements of a block whose value is a token stream (or a list of them): nested `let`s around that value.
    fn mac_block(&mut self, stmts: &[syn::Stmt], me: &MEnv) -> R<(String, MK)> {
        let (first, rest) = match stmts.split_first() {
            Some(x) => x,
            None => return self.unsup("empty block where a token stream is expected"),
        };
        match first {
            syn::Stmt::Expr(e, None) if rest.is_empty() => match self.mac_value(e, me)? {
                Some(x) => Ok(x),
                None => self.unsup(format!("block result `{}` that is not a token stream", norm_tokens(e))),
            },
            syn::Stmt::Local(l) => {
                if !l.attrs.is_empty() {
                    return self.unsup("attribute on a `let`");
                }
                let init = match &l.init {
                    Some(i) if i.diverge.is_none() => &*i.expr,
                    _ => return self.unsup("`let` without initializer / `let .. else`"),
                };
                // the declared type, if any
                let (pat, decl_ty): (&syn::Pat, Option<&syn::Type>) = match &l.pat {
                    syn::Pat::Type(pt) => (&*pt.pat, Some(&*pt.ty)),
                    p => (p, None),
                };
                let mut me2 = MEnv { env: me.env.clone(), toks: me.toks.clone(), lit_var: me.lit_var.clone() };
                // ---- `let id = parse_macro_input!(input as LitStr);`
                if let syn::Expr::Macro(m) = init {
                    if m.mac.path.is_ident("parse_macro_input") {
                        let toks = norm_tokens(&m.mac.tokens);
                        let name = match pat {
                            syn::Pat::Ident(pi) => pi.ident.to_string(),
                            _ => return self.unsup("pattern bound to `parse_macro_input!`"),
                        };
                        if toks != "input as LitStr" || me.lit_var.is_some() {
                            return self.unsup(format!("`parse_macro_input!({})`", toks));
                        }
                        me2.lit_var = Some(name);
                        return self.mac_block(rest, &me2);
                    }
                }
                // ---- `let parsed: T = id.value().parse().expect("..");`
                if let syn::Expr::MethodCall(ex) = init {
                    if ex.method == "expect" || ex.method == "unwrap" {
                        if let syn::Expr::MethodCall(pa) = &*ex.receiver {
                            if pa.method == "parse" && pa.args.is_empty() {
                                if let syn::Expr::MethodCall(va) = &*pa.receiver {
                                    let is_lit = match &*va.receiver {
                                        syn::Expr::Path(p) => p.path.get_ident().map(|i| Some(i.to_string()) == me.lit_var).unwrap_or(false),
                                        _ => false,
                                    };
                                    if va.method == "value" && va.args.is_empty() && is_lit {
                                        let ty = match (decl_ty, &pa.turbofish) {
                                            (Some(t), None) => self.resolve_ty(t)?,
                                            _ => return self.unsup("`.parse()` of the literal without a declared type"),
                                        };
                                        let tname = match &ty {
                                            Ty::Named(n) => n.clone(),
                                            t => return self.unsup(format!("`.parse()` of the literal into {:?}", t)),
                                        };
                                        let key = format!("FromStr for {}", tname);
                                        let tgt = match crate::config::TARGETS.iter().find(|t| t.imp == Some(key.as_str()) && t.func == "from_str") {
                                            Some(t) => t,
                                            None => return self.unsup(format!("`FromStr for {}` is not a translated target", tname)),
                                        };
                                        if let Some(why) = self.failed.get(tgt.lean) {
                                            return self.unsup(format!("calls {} which is untranslated ({})", tgt.lean, why));
                                        }
                                        let sig = match self.done.get(tgt.lean) {
                                            Some(s) => s.clone(),
                                            None => return self.unsup(format!("calls {} which is not translated before it", tgt.lean)),
                                        };
                                        for c in &sig.contracts {
                                            self.contracts.insert(c.clone());
                                        }
                                        let name = match pat {
                                            syn::Pat::Ident(pi) if pi.subpat.is_none() => pi.ident.to_string(),
                                            _ => return self.unsup("pattern bound to the parsed literal"),
                                        };
                                        let ln = self.fresh(&name);
                                        me2.toks.remove(&name);
                                        me2.env.insert(name, Val::pure_(ln.clone(), ty));
                                        let (body, k) = self.mac_block(rest, &me2)?;
                                        if k != MK::Toks {
                                            return self.unsup("a proc macro that yields a list of token streams");
                                        }
                                        // the marker is replaced by the evaluator once the whole body is known
                                        return Ok((format!("(match (UL.Src.{} lit) with | Res.ok {} => MACRO_EVAL {} | _ => MacroOut.compileError)", tgt.lean, ln, body), MK::Toks));
                                    }
                                }
                            }
                        }
                    }
                }
                // ---- a token stream / a list of token streams
                if let Some((term, k)) = self.mac_value(init, me)? {
                    let name = match pat {
                        syn::Pat::Ident(pi) if pi.subpat.is_none() => pi.ident.to_string(),
                        _ => return self.unsup("pattern bound to a token stream"),
                    };
                    let ln = self.fresh(&name);
                    me2.env.hide(&name);
                    me2.toks.insert(name, (ln.clone(), k));
                    let (body, kb) = self.mac_block(rest, &me2)?;
                    return Ok((format!("(let {} := {}; {})", ln, term, body), kb));
                }
                // ---- an ordinary value
                let expected = match decl_ty {
                    Some(t) => Some(self.resolve_ty(t)?),
                    None => None,
                };
                let v = self.tr_expr(init, &me.env, expected.as_ref())?;
                if v.eff() || v.callres || v.itercall.is_some() {
                    return self.unsup(format!("`let` initializer `{}` that may panic", norm_tokens(init)));
                }
                if let Some(t) = &expected {
                    if *t != v.ty {
                        return self.unsup(format!("`let` declared {:?}, initializer has {:?}", t, v.ty));
                    }
                }
                match pat {
                    syn::Pat::Ident(pi) if pi.subpat.is_none() && pi.by_ref.is_none() => {
                        let name = pi.ident.to_string();
                        let ln = self.fresh(&name);
                        me2.toks.remove(&name);
                        me2.env.insert(name, Val::pure_(ln.clone(), v.ty.clone()));
                        let (body, kb) = self.mac_block(rest, &me2)?;
                        Ok((format!("(let {} := {}; {})", ln, v.t, body), kb))
                    }
                    syn::Pat::Tuple(tp) => {
                        let tys = match &v.ty {
                            Ty::Tuple(ts) if ts.len() == tp.elems.len() => ts.clone(),
                            t => return self.unsup(format!("tuple pattern against {:?}", t)),
                        };
                        let mut names = Vec::new();
                        for (p, t) in tp.elems.iter().zip(tys.iter()) {
                            match p {
                                syn::Pat::Ident(pi) if pi.subpat.is_none() && pi.by_ref.is_none() => {
                                    let name = pi.ident.to_string();
                                    let ln = self.fresh(&name);
                                    me2.toks.remove(&name);
                                    me2.env.insert(name, Val::pure_(ln.clone(), t.clone()));
                                    names.push(ln);
                                }
                                syn::Pat::Wild(_) => names.push("_".to_string()),
                                _ => return self.unsup("nested pattern in a tuple pattern of a proc macro"),
                            }
                        }
                        let (body, kb) = self.mac_block(rest, &me2)?;
                        Ok((format!("(match {} with | ({}) => {})", v.t, names.join(", "), body), kb))
                    }
                    _ => self.unsup("`let` pattern in a proc macro"),
                }
            }
            other => self.unsup(format!("statement `{}` in a proc macro", norm_tokens(other))),
        }
    }
}

/// A proc macro `pub fn f(input: TokenStream) -> TokenStream`.
pub fn translate_macro_fn(tr: &mut Tr, sig: &syn::Signature, block: &syn::Block) -> R<(String, FnSig)> {
    let t = tr.target;
    let sig_toks = norm_tokens(sig);
    if !(sig.inputs.len() == 1 && sig_toks.contains("(input : TokenStream) -> TokenStream") && sig.generics.params.is_empty()) {
        return Err(format!("a proc macro must be `fn {}(input: TokenStream) -> TokenStream`, found `{}`", t.func, sig_toks));
    }
    // the evaluator is chosen by the model type: `Bytes → MacroOut <T>`
    let ev = match t.model_type.rsplit('→').next().map(|s| s.trim()) {
        Some("MacroOut (Option Bytes)") => "MTok.evalLang",
        Some("MacroOut LangId") => "MTok.evalLangId",
        Some("MacroOut Locale") => "MTok.evalLocale",
        Some("MacroOut Bytes") => match t.func {
            "script" => "MTok.evalScript",
            "region" => "MTok.evalRegion",
            "variant_fn" => "MTok.evalVariant",
            _ => return Err("configuration: no evaluator for this macro".into()),
        },
        _ => return Err("configuration: the model type of a macro must end in `MacroOut ..`".into()),
    };
    let me = MEnv { env: Env::new(), toks: HashMap::new(), lit_var: None };
    tr.used_names.insert("lit".to_string());
    tr.mode = Mode::Pure;
    let (body, k) = tr.mac_block(&block.stmts, &me)?;
    if k != MK::Toks {
        return Err("a proc macro that yields a list of token streams".into());
    }
    if body.matches("MACRO_EVAL").count() != 1 {
        return Err("the literal must be parsed exactly once (`let parsed: T = id.value().parse().expect(..)`)".into());
    }
    let body = body.replace("MACRO_EVAL ", &format!("{} ", ev));
    let ret_lean = t.model_type.rsplit('→').next().unwrap().trim().to_string();
    let text = format!(
        "/-- the proc macro `{}` in `{}` (to be compared with `{}`): the literal is parsed at build time (an error there is a compile\n    error at the invocation), the emitted expression is a term of `UL.MTok`, evaluated as rustc evaluates the expansion -/\ndef {} (lit : Bytes) : {} :=\n  {}\n",
        t.func, t.file, t.model, t.lean, ret_lean, body
    );
    let fsig = FnSig {
        lean: t.lean.to_string(),
        params: vec!["Bytes".to_string()],
        ret: Ty::Unit,
        mode: Mode::Pure,
        iter_param: None,
        mut_self: false,
        ret_unit: false,
        plain_res: false,
        uses_t: false,
        uses_l: false,
        contracts: tr.contracts.iter().cloned().collect(),
    };
    Ok((text, fsig))
}

/// The declarative list macros of the façade crates (`langids!`, `langid_slice!`, `locales!`):
///
/// ```text
/// macro_rules! NAME {
///     ( $($x:expr),* )  => { vec![$( $crate::ELEM!($x), )*] };      // or  &[ .. ]
///     ( $($x:expr,)* )  => { $crate::NAME![$($x),*] };
/// }
/// ```
/// Exactly this shape is read (`macro_rules`' own semantics is the contract: an invocation without / with a trailing comma
/// matches the first / the second arm, `$( .. )*` repeats its body once per element in order, the second arm re-invokes the
/// macro without the trailing comma): the list of literals is mapped through the proc macro `ELEM` — which must itself be a
/// translated target — one invocation per element; `UL.Macros.list` (`Model/Macros.lean`) is how the outcomes of the elements
/// combine (the list compiles iff every element does).  Any other arm, matcher, transcriber or attribute is refused.
pub fn translate_list_macro(tr: &mut Tr) -> R<(String, FnSig)> {
    let t = tr.target;
    let f = tr.reg.file(t.file)?;
    let mut hits = Vec::new();
    for it in &f.items {
        if let syn::Item::Macro(m) = it {
            if m.mac.path.is_ident("macro_rules") && m.ident.as_ref().map(|i| i == t.func).unwrap_or(false) {
                hits.push(m);
            }
        }
    }
    let m = match hits.as_slice() {
        [m] => *m,
        [] => return Err(format!("macro `{}` not found in {}", t.func, t.file)),
        _ => return Err(format!("macro `{}` is defined more than once (cfg variants?)", t.func)),
    };
    for a in &m.attrs {
        let s = norm_tokens(a).replace(' ', "");
        let ok = a.path().is_ident("doc")
            || s == "#[macro_export]"
            || s == "#[cfg(feature=\"unic-langid-macros\")]"
            || s == "#[cfg(feature=\"unic-locale-macros\")]";
        if !ok {
            return Err(format!("attribute `{}` on `macro_rules! {}`", norm_tokens(a), t.func));
        }
    }
    // arms: ( matcher ) => { transcriber } ;
    let toks: Vec<TokenTree> = m.mac.tokens.clone().into_iter().collect();
    let mut arms: Vec<(String, String)> = Vec::new();
    let mut i = 0;
    while i < toks.len() {
        let (mg, tg) = match (toks.get(i), toks.get(i + 1), toks.get(i + 2), toks.get(i + 3)) {
            (Some(TokenTree::Group(mg)), Some(TokenTree::Punct(e)), Some(TokenTree::Punct(g)), Some(TokenTree::Group(tg)))
                if e.as_char() == '=' && g.as_char() == '>' =>
            {
                (mg, tg)
            }
            _ => return Err(format!("`macro_rules! {}`: an arm that is not `( .. ) => {{ .. }}`", t.func)),
        };
        arms.push((mg.stream().to_string().replace(' ', "").replace('\n', ""), tg.stream().to_string().replace(' ', "").replace('\n', "")));
        i += 4;
        if let Some(TokenTree::Punct(p)) = toks.get(i) {
            if p.as_char() == ';' {
                i += 1;
            }
        }
    }
    if arms.len() != 2 {
        return Err(format!("`macro_rules! {}` has {} arms, the modelled shape has 2", t.func, arms.len()));
    }
    // the element macro is named by the model type
    let (elem, elem_lean, ety) = match t.model_type.rsplit('→').next().map(|s| s.trim()) {
        Some("MacroOut (List LangId)") => ("langid", "Macros.langid", "LangId"),
        Some("MacroOut (List Locale)") => ("locale", "Macros.locale", "Locale"),
        _ => return Err("configuration: the model type of a list macro must end in `MacroOut (List ..)`".into()),
    };
    let var = {
        // `$($x:expr),*`
        let m0 = &arms[0].0;
        match m0.strip_prefix("$($").and_then(|r| r.strip_suffix(":expr),*")) {
            Some(v) if !v.is_empty() && v.chars().all(|c| c.is_ascii_alphanumeric() || c == '_') => v.to_string(),
            _ => return Err(format!("first arm matches `{}` (modelled: `$($x:expr),*`)", m0)),
        }
    };
    let body_vec = format!("vec![$($crate::{}!(${}),)*]", elem, var);
    let body_slice = format!("&[$($crate::{}!(${}),)*]", elem, var);
    if arms[0].1 != body_vec && arms[0].1 != body_slice {
        return Err(format!("first arm expands to `{}` (modelled: `{}` or `{}`)", arms[0].1, body_vec, body_slice));
    }
    let m1 = format!("$(${}:expr,)*", var);
    let t1 = format!("$crate::{}![$(${}),*]", t.func, var);
    if arms[1].0 != m1 || arms[1].1 != t1 {
        return Err(format!("second arm is `{}` => `{}` (modelled: `{}` => `{}`)", arms[1].0, arms[1].1, m1, t1));
    }
    if let Some(why) = tr.failed.get(elem_lean) {
        return Err(format!("invokes {} which is untranslated ({})", elem_lean, why));
    }
    let sig0 = tr.done.get(elem_lean).cloned().ok_or_else(|| format!("invokes {} which is not translated before it", elem_lean))?;
    for c in &sig0.contracts {
        tr.contracts.insert(c.clone());
    }
    let text = format!(
        "/-- `macro_rules! {}` in `{}` (to be compared with `{}`): one invocation of `{}!` per element, with or without a trailing comma -/\ndef {} (ls : List Bytes) : MacroOut (List {}) :=\n  UL.Macros.list UL.Src.{} ls\n",
        t.func, t.file, t.model, elem, t.lean, ety, elem_lean
    );
    let fsig = FnSig {
        lean: t.lean.to_string(),
        params: vec!["List Bytes".to_string()],
        ret: Ty::Unit,
        mode: Mode::Pure,
        iter_param: None,
        mut_self: false,
        ret_unit: false,
        plain_res: false,
        uses_t: false,
        uses_l: false,
        contracts: tr.contracts.iter().cloned().collect(),
    };
    Ok((text, fsig))
}
