//! `match` with nested patterns (tuples, `Option<Result<Enum, _>>`, enums, `binary_search`
//! results), translated to a Lean `match` with the same patterns in the same order (both
//! languages take the first arm that matches).  A guarded arm `P if g => a` becomes
//! `| P => if g then a else REST | _ => REST` where `REST` is the translation of the later arms.

use crate::config;
use crate::doc::Doc;
use crate::tr_core::*;
use crate::tr_stmt::*;
use crate::types::*;

type Arm<'x> = (&'x syn::Pat, Option<&'x syn::Expr>, &'x ArmBody<'x>);

impl<'a> Tr<'a> {
    /// Lean pattern, and whether it matches everything.
    fn pat_lean(&mut self, p: &syn::Pat, ty: &Ty, binds: &mut Vec<(String, String, Ty)>) -> R<(String, bool)> {
        match p {
            syn::Pat::Paren(pp) => self.pat_lean(&pp.pat, ty, binds),
            syn::Pat::Reference(r) => self.pat_lean(&r.pat, ty, binds),
            syn::Pat::Wild(_) => Ok(("_".into(), true)),
            syn::Pat::Ident(pi) => {
                let n = pi.ident.to_string();
                if pi.subpat.is_some() {
                    return self.unsup("`@` pattern");
                }
                if n == "None" {
                    return match ty {
                        Ty::Opt(_) => Ok(("none".into(), false)),
                        t => self.unsup(format!("`None` pattern on {:?}", t)),
                    };
                }
                if n.chars().next().map(|c| c.is_uppercase()).unwrap_or(false) || self.file_has_const(&n) {
                    return self.unsup(format!("constant or variant `{}` as a pattern", n));
                }
                let ln = self.fresh(&n);
                binds.push((n, ln.clone(), ty.clone()));
                Ok((ln, true))
            }
            syn::Pat::Path(pp) => {
                let segs: Vec<String> = pp.path.segments.iter().map(|s| s.ident.to_string()).collect();
                if segs.len() == 1 && segs[0] == "None" {
                    return match ty {
                        Ty::Opt(_) => Ok(("none".into(), false)),
                        t => self.unsup(format!("`None` pattern on {:?}", t)),
                    };
                }
                if segs.len() == 2 {
                    return self.variant_pat(&segs[0], &segs[1], &[], ty, binds);
                }
                self.unsup(format!("path pattern `{}`", segs.join("::")))
            }
            syn::Pat::TupleStruct(ts) => {
                let segs: Vec<String> = ts.path.segments.iter().map(|s| s.ident.to_string()).collect();
                let subs: Vec<&syn::Pat> = ts.elems.iter().collect();
                if segs.len() == 1 {
                    let ctor = segs[0].as_str();
                    if subs.len() != 1 {
                        return self.unsup("constructor pattern with other than one field");
                    }
                    return match (ctor, ty) {
                        ("Some", Ty::Opt(inner)) => {
                            let (q, _) = self.pat_lean(subs[0], inner, binds)?;
                            Ok((format!("(some {})", q), false))
                        }
                        ("Ok", Ty::ResPE(inner)) => {
                            let (q, _) = self.pat_lean(subs[0], inner, binds)?;
                            Ok((format!("(Res.ok {})", q), false))
                        }
                        ("Err", Ty::ResPE(_)) => {
                            let (q, _) = self.pat_lean(subs[0], &Ty::PErr, binds)?;
                            Ok((format!("(Res.err {})", q), false))
                        }
                        ("Ok", Ty::ResOpaque(inner)) => {
                            let (q, _) = self.pat_lean(subs[0], inner, binds)?;
                            Ok((format!("(some {})", q), false))
                        }
                        ("Err", Ty::ResOpaque(_)) => {
                            let mut sub = subs[0];
                            while let syn::Pat::Paren(pp) = sub {
                                sub = &pp.pat;
                            }
                            if !matches!(sub, syn::Pat::Wild(_)) {
                                return self.unsup("`Err(e)` pattern that binds a non-ParserError error value");
                            }
                            Ok(("none".into(), false))
                        }
                        ("Ok", Ty::BSearch) => {
                            let (q, _) = self.pat_lean(subs[0], &Ty::Usize, binds)?;
                            Ok((format!("(Sum.inl {})", q), false))
                        }
                        ("Err", Ty::BSearch) => {
                            let (q, _) = self.pat_lean(subs[0], &Ty::Usize, binds)?;
                            Ok((format!("(Sum.inr {})", q), false))
                        }
                        (c, t) => self.unsup(format!("pattern `{}(..)` on {:?}", c, t)),
                    };
                }
                if segs.len() == 2 {
                    return self.variant_pat(&segs[0], &segs[1], &subs, ty, binds);
                }
                self.unsup(format!("pattern `{}(..)`", segs.join("::")))
            }
            syn::Pat::Tuple(t) => {
                let tys = match ty {
                    Ty::Tuple(tys) if tys.len() == t.elems.len() => tys.clone(),
                    other => return self.unsup(format!("tuple pattern on {:?}", other)),
                };
                let mut parts = Vec::new();
                let mut all = true;
                for (q, qt) in t.elems.iter().zip(tys.iter()) {
                    let (s, irrefutable) = self.pat_lean(q, qt, binds)?;
                    all = all && irrefutable;
                    parts.push(s);
                }
                Ok((format!("({})", parts.join(", ")), all))
            }
            syn::Pat::Lit(l) => {
                let v = self.tr_lit(&l.lit, Some(ty))?;
                match v.ty {
                    Ty::Usize | Ty::U8 | Ty::Int | Ty::Char => Ok((v.t, false)),
                    Ty::Bool => Ok((v.t, false)),
                    t => self.unsup(format!("literal pattern of type {:?} in a nested pattern", t)),
                }
            }
            other => self.unsup(format!("pattern `{}`", norm_tokens(other))),
        }
    }

    fn variant_pat(&mut self, en: &str, var: &str, subs: &[&syn::Pat], ty: &Ty, binds: &mut Vec<(String, String, Ty)>) -> R<(String, bool)> {
        let en_resolved = if en == "Self" { self.self_ty.clone().unwrap_or_default() } else { en.to_string() };
        if en_resolved == "ParserError" {
            if *ty != Ty::PErr {
                return self.unsup("a ParserError pattern on a value of another type");
            }
            return match config::ERROR_VARIANTS.iter().find(|(r, _)| *r == var) {
                Some((_, l)) if subs.is_empty() => Ok((l.to_string(), false)),
                _ => self.unsup(format!("ParserError::{} as a pattern", var)),
            };
        }
        if let Some((cfg, _)) = self.reg.model_enum(&en_resolved)? {
            if *ty != Ty::Named(en_resolved.clone()) {
                return self.unsup(format!("a {} pattern on {:?}", en_resolved, ty));
            }
            self.named(&en_resolved)?;
            let (_, lean, arity) = match cfg.variants.iter().find(|(r, _, _)| *r == var) {
                Some(x) => x,
                None => return self.unsup(format!("{}::{} is not a variant the model knows", en_resolved, var)),
            };
            if subs.len() != *arity {
                return self.unsup(format!("{}::{} has {} fields", en_resolved, var, arity));
            }
            // payloads are dropped by the model: they may not be bound
            for s in subs {
                let mut s: &syn::Pat = s;
                while let syn::Pat::Paren(pp) = s {
                    s = &pp.pat;
                }
                if !matches!(s, syn::Pat::Wild(_)) {
                    return self.unsup(format!("the payload of {}::{} is bound, but the model drops it", en_resolved, var));
                }
            }
            let _ = binds;
            return Ok((format!("{}.{}", cfg.lean, lean), false));
        }
        self.unsup(format!("pattern `{}::{}`", en, var))
    }

    #[allow(clippy::too_many_arguments)]
    pub fn match_general(&mut self, s: &Val, arms: &[Arm], env: &Env, expected: Option<&Ty>, in_fn_tail: bool, k: K<'_, 'a>, may_panic: bool) -> R<Doc> {
        let mut out: Vec<(String, Doc)> = Vec::new();
        if may_panic {
            // the scrutinee contains the result of a call that may have panicked: in Rust the
            // panic happens before the `match`
            self.effect_guard("a `match` on a value that contains a call result")?;
            match &s.ty {
                Ty::Opt(inner) if matches!(**inner, Ty::ResPE(_)) => out.push(("(some Res.panic)".into(), Doc::Atom("Res.panic".into()))),
                Ty::ResPE(_) => out.push(("Res.panic".into(), Doc::Atom("Res.panic".into()))),
                t => return self.unsup(format!("`match` on a call result inside {:?}", t)),
            }
        }
        let mut i = 0;
        let mut exhaustive = false;
        while i < arms.len() {
            let (pat, guard, body) = arms[i];
            let mut binds: Vec<(String, String, Ty)> = Vec::new();
            let (lp, irrefutable) = self.pat_lean(pat, &s.ty, &mut binds)?;
            let mut env2 = env.clone();
            for (rn, ln, ty) in &binds {
                env2.insert(rn.clone(), Val::pure_(ln.clone(), ty.clone()));
            }
            match guard {
                None => {
                    let d = self.arm_body_pub(body, &env2, env, expected, in_fn_tail, k)?;
                    out.push((lp, d));
                    if irrefutable {
                        exhaustive = true;
                        break;
                    }
                    i += 1;
                }
                Some(g) => {
                    self.pure_only += 1;
                    let gv = self.tr_expr(g, &env2, Some(&Ty::Bool));
                    self.pure_only -= 1;
                    let gv = gv?;
                    if gv.ty != Ty::Bool || gv.eff() || gv.callres {
                        return self.unsup("match guard that is not a pure bool");
                    }
                    let this = self.arm_body_pub(body, &env2, env, expected, in_fn_tail, k)?;
                    let rest = self.match_general(s, &arms[i + 1..], env, expected, in_fn_tail, k, false)?;
                    out.push((lp, Doc::If(gv.t, Box::new(this), Box::new(rest.clone()))));
                    if !irrefutable {
                        out.push(("_".into(), rest));
                    }
                    exhaustive = true;
                    break;
                }
            }
        }
        if !exhaustive && arms.is_empty() {
            return self.unsup("`match`: the arms do not visibly cover every case");
        }
        // (a `match` whose arms are not exhaustive is rejected by Lean when the module is checked)
        Ok(Doc::Match(s.t.clone(), out))
    }

    #[allow(clippy::too_many_arguments)]
    pub fn match_bsearch(&mut self, s: &Val, arms: &[Arm], env: &Env, expected: Option<&Ty>, in_fn_tail: bool, k: K<'_, 'a>) -> R<Doc> {
        self.match_general(s, arms, env, expected, in_fn_tail, k, false)
    }
}
