//! Translator state, type resolution, Lean type printing, small helpers.

use crate::config::{self, ModuleCfg, Target};
use crate::types::*;
use std::collections::{BTreeMap, BTreeSet, HashMap};

#[derive(Clone, Debug)]
pub struct Val {
    /// Lean term (atomic or parenthesised) of type `ty`; it may mention the names bound by `binds`.
    pub t: String,
    pub ty: Ty,
    /// Pending effectful computations, in evaluation order: `(x, c)` stands for
    /// `Res.bind c fun x => ...`.  Non-empty = the expression may panic or return early.
    pub binds: Vec<(String, String)>,
    /// for `Ty::Range`: (lo, hi, inclusive)
    pub range: Option<(String, String, bool)>,
    /// the value is the result of calling a translated `Result`-returning function: its `Res`
    /// term may be `panic`, so it may only be used by `?` or as the function result
    pub callres: bool,
    /// the value is the result of calling a translated function that threads the subtag iterator
    /// (declaration id of the iterator variable that was passed): `t : Res (T × List Bytes)`,
    /// `ty = Result<T, ParserError>`
    pub itercall: Option<u32>,
}

impl Val {
    pub fn pure_(t: impl Into<String>, ty: Ty) -> Val {
        Val { t: t.into(), ty, binds: vec![], range: None, callres: false, itercall: None }
    }
    pub fn eff(&self) -> bool {
        !self.binds.is_empty()
    }
    /// The value as a computation of type `Res ty`.
    pub fn comp(&self) -> String {
        if self.binds.is_empty() {
            return format!("(Res.ok {})", self.t);
        }
        let n = self.binds.len();
        // `Res.bind c fun x => Res.ok x` is `c`
        let (mut out, upto) = if self.binds[n - 1].0 == self.t {
            (self.binds[n - 1].1.clone(), n - 1)
        } else {
            (format!("(Res.ok {})", self.t), n)
        };
        for (x, c) in self.binds[..upto].iter().rev() {
            out = format!("(Res.bind {} fun {} => {})", c, x, out);
        }
        out
    }
}

/// Variables in scope.  A Rust variable is a *declaration* (a number); a name resolves to the
/// innermost declaration of that name; the current value of every declaration that was ever in
/// scope is kept (a shadowed variable comes back when the shadowing scope ends, and an assignment
/// replaces the value of a declaration).
#[derive(Clone, Debug, Default)]
pub struct Env {
    names: HashMap<String, u32>,
    vals: BTreeMap<u32, (String, Val)>,
}

static NEXT_DECL: std::sync::atomic::AtomicU32 = std::sync::atomic::AtomicU32::new(1);

impl Env {
    pub fn new() -> Env {
        Env::default()
    }
    pub fn get(&self, n: &str) -> Option<&Val> {
        self.names.get(n).and_then(|d| self.vals.get(d)).map(|x| &x.1)
    }
    pub fn decl_of(&self, n: &str) -> Option<u32> {
        self.names.get(n).copied()
    }
    /// A new declaration (`let`, a parameter, a pattern binding).
    pub fn insert(&mut self, n: String, v: Val) -> u32 {
        let d = NEXT_DECL.fetch_add(1, std::sync::atomic::Ordering::SeqCst);
        self.names.insert(n.clone(), d);
        self.vals.insert(d, (n, v));
        d
    }
    /// A new value for an existing declaration (assignment).
    pub fn assign(&mut self, d: u32, v: Val) {
        if let Some(slot) = self.vals.get_mut(&d) {
            slot.1 = v;
        }
    }
    pub fn val_of(&self, d: u32) -> Option<&Val> {
        self.vals.get(&d).map(|x| &x.1)
    }
    pub fn name_of(&self, d: u32) -> Option<&str> {
        self.vals.get(&d).map(|x| x.0.as_str())
    }
    /// Make a name unreachable (a variable that is borrowed for the duration of a loop).
    pub fn hide(&mut self, n: &str) {
        self.names.remove(n);
    }
    /// The environment after a scope that started with `outer` ends in `self`: the names are
    /// `outer`'s again, the values are the current ones.
    pub fn scope_exit(&self, outer: &Env) -> Env {
        let mut vals = self.vals.clone();
        // declarations made inside the scope are dead
        vals.retain(|d, _| outer.vals.contains_key(d));
        Env { names: outer.names.clone(), vals }
    }
    /// All declarations with a value, in declaration order.
    pub fn decls(&self) -> Vec<(u32, String, Val)> {
        self.vals.iter().map(|(d, (n, v))| (*d, n.clone(), v.clone())).collect()
    }
}

#[derive(Clone, Copy, PartialEq, Debug)]
pub enum Mode {
    /// the Lean definition returns `Res T`
    Res,
    /// the Lean definition returns a plain value: nothing may panic or return early with `Err`
    Pure,
}

/// Signature of an already translated function (for calls).
#[derive(Clone)]
pub struct FnSig {
    pub lean: String,
    pub params: Vec<String>, // Lean types
    pub ret: Ty,
    pub mode: Mode,
    /// index of the parameter that is the subtag iterator the function advances (its final value
    /// is the second component of the result)
    pub iter_param: Option<usize>,
    /// the function takes `&mut self` (parameter 0) and returns the new value first
    pub mut_self: bool,
    pub ret_unit: bool,
    pub plain_res: bool,
    pub uses_t: bool,
    pub uses_l: bool,
    /// conversion targets this function's translation rests on, directly or through its callees
    pub contracts: Vec<String>,
}

pub struct Tr<'a> {
    pub reg: &'a Registry,
    pub module: &'a ModuleCfg,
    pub target: &'a Target,
    pub file: &'a str,
    pub self_ty: Option<String>,
    /// type parameter -> what it stands for
    pub tparams: HashMap<String, TParam>,
    pub mode: Mode,
    pub ret_ty: Ty,
    /// > 0 inside a closure body / a sub-expression where effects cannot be represented
    pub pure_only: u32,
    pub used_names: BTreeSet<String>,
    pub deps: BTreeMap<String, String>,
    pub done: &'a BTreeMap<String, FnSig>,
    pub failed: &'a BTreeMap<String, String>,
    /// variable updates caused by the expression being translated: (declaration, new value)
    pub pending: Vec<(u32, String)>,
    /// types that became known after the declaration (`let mut x = None;`)
    pub decl_ty: HashMap<u32, Ty>,
    /// declaration -> the `let` that made it (only for declarations whose type was not known)
    pub decl_site: HashMap<u32, usize>,
    /// `let` statement (address) -> the type later code gave the variable (found by the first pass)
    pub site_ty: HashMap<usize, Ty>,
    pub first_pass: bool,
    /// loop (address of its body) + names in scope -> the definition already emitted for it
    pub loop_cache: HashMap<(usize, Vec<String>), (String, Vec<String>)>,
    /// auxiliary definitions (loops), in dependency order
    pub aux: Vec<String>,
    pub aux_n: u32,
    pub loops: Vec<crate::tr_loop::LoopCtx>,
    /// declarations whose final value is part of the function's result, in this order:
    /// `&mut self`, the subtag iterator / the formatter buffer
    pub outs: Vec<u32>,
    pub self_out: Option<u32>,
    /// the declared result carries no information (`()`, `fmt::Result`, `Result<(), E>`)
    pub ret_unit: bool,
    /// the declared result is a plain `T`, but the body may panic (`.unwrap()`, indexing): the Lean definition returns `Res T`
    pub plain_res: bool,
    /// the definition takes the likely-subtags tables `T : Tables` / the layout tables `L : Layout` as leading parameters
    pub uses_t: bool,
    pub uses_l: bool,
    /// cargo features that are on for this target
    pub features: Vec<String>,
    /// conversion targets whose theorem this translation rests on (`need_contract`)
    pub contracts: BTreeSet<String>,
}

#[derive(Clone, Debug)]
pub enum TParam {
    /// `O: Borrow<Self>` / `O: AsRef<Self>`: stands for `Self`
    SelfLike,
    /// `P: PartialEq`, instantiated by the configuration
    Inst(Ty),
    /// `S: AsRef<[u8]>`: a byte string (`.as_ref()` is the identity)
    BytesLike,
}

const LEAN_RESERVED: &[&str] = &[
    "at", "from", "fun", "end", "open", "in", "let", "have", "show", "type", "Type", "do", "then", "else", "if",
    "match", "with", "where", "by", "this", "def", "theorem", "instance", "class", "structure", "namespace",
    "section", "variable", "import", "return", "for", "mut", "macro", "syntax", "deriving", "extends", "using",
    "calc", "exists", "forall", "Prop", "Sort", "set_option", "private", "protected", "local", "some", "none",
    "true", "false", "id", "max", "min", "toLower", "toUpper", "lower", "upper", "title", "idx", "sliceFrom",
    "sliceTo", "sliceRange", "tinyFromBytes", "okOr", "unwrapOpt", "isAlpha", "isDigit", "isAlnum", "isUpper",
    "isLower", "allAlpha", "allDigit", "allAlnum", "tinyOk", "Bytes", "Res", "Err", "LangId", "ExtType",
    "Language", "Script", "Region", "Variant", "parseKey", "parseType", "parseAttribute", "isType",
    "isAttribute", "parseTKey", "parseTValue", "isLanguageSubtag", "parsePrivate", "decide", "not", "and", "or",
    "attribute", "universe", "example", "abbrev", "inductive", "opaque", "axiom", "mutual", "noncomputable", "partial",
    "unsafe", "export", "notation", "infix", "infixl", "infixr", "prefix", "postfix", "nomatch", "nofun", "suffices",
    "termination_by", "decreasing_by", "fuel", "rest", "list_", "splitOn", "vecInsert", "vecRemove", "collectOpt",
    "sortBytes", "dedupAdj", "AMap", "UExt", "TExt", "ExtMap", "Locale", "open", "omit", "include", "elab", "initialize",
];

impl<'a> Tr<'a> {
    pub fn fresh(&mut self, base: &str) -> String {
        let mut b: String = base.chars().filter(|c| c.is_ascii_alphanumeric() || *c == '_').collect();
        if b.is_empty() || b == "_" || b.chars().next().unwrap().is_ascii_digit() {
            b = format!("x{}", b);
        }
        let b = b.trim_start_matches('_').to_string();
        let b = if b.is_empty() { "x".to_string() } else { b };
        let mut cand = b.clone();
        let mut i = 0;
        while self.used_names.contains(&cand) || LEAN_RESERVED.contains(&cand.as_str()) {
            i += 1;
            cand = format!("{}_{}", b, i);
        }
        self.used_names.insert(cand.clone());
        cand
    }

    /// A value computed by `comp : Res ty`.
    pub fn mk_eff(&mut self, comp: impl Into<String>, ty: Ty, mut before: Vec<(String, String)>) -> Val {
        let x = self.fresh("x");
        before.push((x.clone(), comp.into()));
        Val { t: x, ty, binds: before, range: None, callres: false, itercall: None }
    }

    pub fn unsup<T>(&self, what: impl AsRef<str>) -> R<T> {
        Err(what.as_ref().to_string())
    }

    /// An effect (panic / early `Err`) is about to be produced.
    pub fn effect_guard(&self, what: &str) -> R<()> {
        if self.mode == Mode::Pure {
            return Err(format!(
                "{} may panic or return early, but the function's model type has no panic/error value",
                what
            ));
        }
        if self.pure_only > 0 {
            return Err(format!("{} may panic or return early inside a closure or operand where that cannot be represented", what));
        }
        Ok(())
    }

    // ---------------------------------------------------------------- types

    fn path_generic_args(seg: &syn::PathSegment) -> Vec<&syn::Type> {
        match &seg.arguments {
            syn::PathArguments::AngleBracketed(a) => a
                .args
                .iter()
                .filter_map(|g| if let syn::GenericArgument::Type(t) = g { Some(t) } else { None })
                .collect(),
            _ => vec![],
        }
    }

    fn file_imports_tinystr(&self, name: &str) -> bool {
        // `use tinystr::{TinyStr4, TinyStr8};` or `use tinystr::TinyStr8;` in the file of the item
        fn tree_has(t: &syn::UseTree, name: &str, under_tinystr: bool) -> bool {
            match t {
                syn::UseTree::Path(p) => tree_has(&p.tree, name, under_tinystr || p.ident == "tinystr"),
                syn::UseTree::Name(n) => under_tinystr && n.ident == name,
                syn::UseTree::Group(g) => g.items.iter().any(|i| tree_has(i, name, under_tinystr)),
                syn::UseTree::Glob(_) => under_tinystr,
                syn::UseTree::Rename(_) => false,
            }
        }
        if let Ok(f) = self.reg.file(self.file) {
            for it in &f.items {
                if let syn::Item::Use(u) = it {
                    if tree_has(&u.tree, name, false) {
                        return true;
                    }
                }
            }
        }
        false
    }

    /// Is there a module-level `const`/`static` of that name in the current file?  (An identifier
    /// pattern with such a name is a constant pattern in Rust, not a binding.)
    pub fn file_has_const(&self, name: &str) -> bool {
        match self.reg.file(self.file) {
            Ok(f) => f.items.iter().any(|it| match it {
                syn::Item::Const(c) => c.ident == name,
                syn::Item::Static(c) => c.ident == name,
                _ => false,
            }),
            Err(_) => true,
        }
    }

    pub fn tiny_name(&self, name: &str) -> Option<u32> {
        let n = match name {
            "TinyStr4" => 4,
            "TinyStr8" => 8,
            "TinyStr16" => 16,
            _ => return None,
        };
        if self.file_imports_tinystr(name) {
            Some(n)
        } else {
            None
        }
    }

    pub fn resolve_ty(&mut self, t: &syn::Type) -> R<Ty> {
        match t {
            syn::Type::Reference(r) => {
                if r.mutability.is_some() {
                    return self.unsup("`&mut` type (mutation is outside the subset)");
                }
                match &*r.elem {
                    syn::Type::Slice(s) => {
                        let e = self.resolve_ty(&s.elem)?;
                        Ok(if e == Ty::U8 { Ty::Slice } else { Ty::List(Box::new(e)) })
                    }
                    other => self.resolve_ty(other),
                }
            }
            syn::Type::Paren(p) => self.resolve_ty(&p.elem),
            syn::Type::Group(p) => self.resolve_ty(&p.elem),
            syn::Type::Slice(s) => {
                let e = self.resolve_ty(&s.elem)?;
                Ok(if e == Ty::U8 { Ty::Slice } else { Ty::List(Box::new(e)) })
            }
            syn::Type::Path(p) => {
                if p.qself.is_some() {
                    return self.unsup("qualified-self type path");
                }
                let seg = match p.path.segments.last() {
                    Some(s) => s,
                    None => return self.unsup("empty type path"),
                };
                let name = seg.ident.to_string();
                let args = Self::path_generic_args(seg);
                if p.path.segments.len() == 2 && p.path.segments[0].ident == "Self" && (name == "Err" || name == "Error") {
                    // the associated type of the trait impl the target is in: `type Err = ParserError;`
                    let want_trait = self.target.imp.and_then(|i| i.split_once(" for ")).map(|(t, _)| t.replace(' ', ""));
                    let self_name = self.self_ty.clone().unwrap_or_default();
                    let mut found: Option<syn::Type> = None;
                    if let Ok(f) = self.reg.file(self.file) {
                        for it in &f.items {
                            if let syn::Item::Impl(im) = it {
                                let tn = im.trait_.as_ref().map(|(_, p, _)| p.segments.last().map(|s| norm_tokens(s).replace(' ', "")).unwrap_or_default());
                                let sn = match &*im.self_ty {
                                    syn::Type::Path(p) => p.path.segments.last().map(|s| s.ident.to_string()).unwrap_or_default(),
                                    _ => String::new(),
                                };
                                if tn != want_trait || sn != self_name {
                                    continue;
                                }
                                for ii in &im.items {
                                    if let syn::ImplItem::Type(ty) = ii {
                                        if ty.ident == name.as_str() {
                                            found = Some(ty.ty.clone());
                                        }
                                    }
                                }
                            }
                        }
                    }
                    return match found {
                        Some(t) => self.resolve_ty(&t),
                        None => self.unsup(format!("associated type `Self::{}` not found", name)),
                    };
                }
                if p.path.segments.len() == 1 {
                    if let Some(tp) = self.tparams.get(&name).cloned() {
                        return match tp {
                            TParam::SelfLike => self.self_named(),
                            TParam::Inst(_) => Ok(Ty::Param(name)),
                            TParam::BytesLike => Ok(Ty::Slice),
                        };
                    }
                }
                match name.as_str() {
                    "bool" => Ok(Ty::Bool),
                    "usize" => Ok(Ty::Usize),
                    "u32" | "u64" => Ok(Ty::UInt),
                    "u8" => Ok(Ty::U8),
                    "char" => Ok(Ty::Char),
                    "str" | "String" => Ok(Ty::Str),
                    "Self" => self.self_named(),
                    "Option" if args.len() == 1 => Ok(Ty::Opt(Box::new(self.resolve_ty(args[0])?))),
                    "Result" if args.len() == 2 => {
                        let ok = self.resolve_ty(args[0])?;
                        let is_pe = matches!(self.resolve_ty(args[1]), Ok(Ty::PErr));
                        Ok(if is_pe { Ty::ResPE(Box::new(ok)) } else { Ty::ResOpaque(Box::new(ok)) })
                    }
                    "Box" | "Vec" if args.len() == 1 => match args[0] {
                        syn::Type::Slice(s) if name == "Box" => {
                            let e = self.resolve_ty(&s.elem)?;
                            Ok(Ty::List(Box::new(e)))
                        }
                        other if name == "Vec" => Ok(Ty::List(Box::new(self.resolve_ty(other)?))),
                        _ => self.unsup("`Box<T>` where T is not a slice"),
                    },
                    "BTreeMap" if args.len() == 2 => {
                        let kt = self.resolve_ty(args[0])?;
                        let vt = self.resolve_ty(args[1])?;
                        if kt == Ty::Tiny(4) && vt == Ty::List(Box::new(Ty::Tiny(8))) {
                            Ok(Ty::Map)
                        } else {
                            self.unsup(format!("`BTreeMap<{:?}, {:?}>` (the model has only TinyStr4 -> Vec<TinyStr8> maps)", kt, vt))
                        }
                    }
                    "LanguageIdentifierError" | "LocaleError" => {
                        // a wrapper of ParserError: `From<ParserError>` must be the wrapping conversion
                        self.check_error_wrapper(&name)?;
                        Ok(Ty::PErr)
                    }
                    "Formatter" => Ok(Ty::Fmt),
                    "ParserError" => {
                        // both crates define it in parser/errors.rs
                        let ef = Registry::errors_file_for(self.file);
                        let info = self.reg.enum_in(&ef, "ParserError")?;
                        self.deps.insert(format!("{}::ParserError", ef), info.tokens);
                        Ok(Ty::PErr)
                    }
                    _ => {
                        if let Some(n) = self.tiny_name(&name) {
                            return Ok(Ty::Tiny(n));
                        }
                        self.named(&name)
                    }
                }
            }
            syn::Type::Infer(_) => Ok(Ty::Infer),
            syn::Type::ImplTrait(it) => {
                // `impl ExactSizeIterator<Item = T>` / `impl Iterator<Item = T>`: the list of the items
                for b in &it.bounds {
                    if let syn::TypeParamBound::Trait(tb) = b {
                        if let Some(last) = tb.path.segments.last() {
                            if last.ident == "ExactSizeIterator" || last.ident == "Iterator" || last.ident == "DoubleEndedIterator" {
                                if let syn::PathArguments::AngleBracketed(a) = &last.arguments {
                                    for g in &a.args {
                                        if let syn::GenericArgument::AssocType(at) = g {
                                            if at.ident == "Item" {
                                                let t = self.resolve_ty(&at.ty)?;
                                                return Ok(Ty::List(Box::new(t)));
                                            }
                                        }
                                    }
                                }
                            }
                        }
                    }
                }
                self.unsup(format!("type `{}`", norm_tokens(t)))
            }
            syn::Type::Tuple(t) => {
                if t.elems.is_empty() {
                    return Ok(Ty::Unit);
                }
                let mut out = Vec::new();
                for e in &t.elems {
                    out.push(self.resolve_ty(e)?);
                }
                Ok(Ty::Tuple(out))
            }
            other => self.unsup(format!("type `{}`", norm_tokens(other))),
        }
    }

    /// `LanguageIdentifierError` / `LocaleError`: the crate's `errors.rs` must define
    /// `impl From<ParserError> for X { fn from(e) -> Self { X::ParserError(e) } }`; then a
    /// `Result<T, X>` that is only ever built from `ParserError`s is the model's `Res T`.
    pub fn check_error_wrapper(&mut self, name: &str) -> R<()> {
        let krate = self.file.split('/').next().unwrap_or("").to_string();
        let ef = format!("{}/src/errors.rs", krate);
        let f = self.reg.file(&ef)?;
        for it in &f.items {
            if let syn::Item::Impl(im) = it {
                let tr = match &im.trait_ {
                    Some((_, p, _)) => p,
                    None => continue,
                };
                if tr.segments.last().map(|s| s.ident != "From").unwrap_or(true) {
                    continue;
                }
                let self_name = match &*im.self_ty {
                    syn::Type::Path(p) => p.path.segments.last().map(|s| s.ident.to_string()).unwrap_or_default(),
                    _ => String::new(),
                };
                if self_name != name {
                    continue;
                }
                let toks = norm_tokens(im);
                let want = format!("{} :: ParserError (", name);
                let want2 = "Self :: ParserError (";
                if toks.contains("From < ParserError >") && (toks.contains(&want) || toks.contains(want2)) {
                    let mut bare = im.clone();
                    bare.attrs.clear();
                    self.deps.insert(format!("{}::impl From<ParserError> for {}", ef, name), norm_tokens(&bare));
                    return Ok(());
                }
            }
        }
        self.unsup(format!("no wrapping `impl From<ParserError> for {}` found in {}", name, ef))
    }

    /// A call site that uses the `pack` / `unpack` contract rests on the conversion target that is translated from the
    /// conversion's own source text: it must have been translated, and the report names it so that the caller's tie is only
    /// counted when the conversion's theorem is proved too.
    pub fn need_contract(&mut self, target: &str) -> R<()> {
        if self.target.lean == target {
            return Ok(());
        }
        if !self.done.contains_key(target) {
            let why = self.failed.get(target).cloned().unwrap_or_else(|| "not a configured target".to_string());
            return self.unsup(format!("rests on the conversion {} which is untranslated ({})", target, why));
        }
        self.contracts.insert(target.to_string());
        Ok(())
    }

    pub fn self_named(&mut self) -> R<Ty> {
        match self.self_ty.clone() {
            Some(s) if s == "u32" || s == "u64" => Ok(Ty::UInt),
            Some(s) if s == "Option<u64>" || s == "Option<u32>" => Ok(Ty::Opt(Box::new(Ty::UInt))),
            Some(s) => self.named(&s),
            None => self.unsup("`Self` outside an impl"),
        }
    }

    /// A struct/enum name: must be known to the registry and usable in this module.
    pub fn named(&mut self, name: &str) -> R<Ty> {
        if let Some(nt) = self.reg.newtype(name)? {
            self.deps.insert(format!("struct {}", name), nt.tokens);
            return Ok(Ty::Named(name.to_string()));
        }
        if let Some((cfg, info)) = self.reg.record(name)? {
            if !self.module.may_use.contains(&cfg.lean) {
                return self.unsup(format!("struct {} ({}) is not available in module {}", name, cfg.lean, self.module.name));
            }
            // the fields must be what the model structure has
            let tokens = info.tokens.clone();
            if info.fields.len() != cfg.fields.len() {
                return self.unsup(format!("struct {} has {} fields, the model structure {} has {}", name, info.fields.len(), cfg.lean, cfg.fields.len()));
            }
            for (fname, fty) in &info.fields {
                let c = match cfg.fields.iter().find(|(r, _, _)| r == fname) {
                    Some(c) => c,
                    None => return self.unsup(format!("struct {} has a field `{}` the model structure does not have", name, fname)),
                };
                if c.1 == "-" {
                    // a field the model does not have: every use of it is refused
                    continue;
                }
                let saved = self.file;
                let saved_self = self.self_ty.clone();
                self.file = cfg.file;
                self.self_ty = Some(name.to_string());
                let rt = self.resolve_ty(fty);
                self.file = saved;
                self.self_ty = saved_self;
                let rt = rt?;
                let lt = self.lean_ty(&rt)?;
                if lt != c.2 {
                    return self.unsup(format!("field {}.{} has Lean type `{}`, the model has `{}`", name, fname, lt, c.2));
                }
            }
            self.deps.insert(format!("struct {}", name), tokens);
            return Ok(Ty::Named(name.to_string()));
        }
        if let Some((cfg, info)) = self.reg.model_enum(name)? {
            if !self.module.may_use.contains(&cfg.lean) {
                return self.unsup(format!("enum {} ({}) is not available in module {}", name, cfg.lean, self.module.name));
            }
            self.deps.insert(format!("enum {}", name), info.tokens);
            return Ok(Ty::Named(name.to_string()));
        }
        // a type alias of the current file (`type PartsTuple = (..);`)
        if let Ok(f) = self.reg.file(self.file) {
            for it in &f.items {
                if let syn::Item::Type(ta) = it {
                    if ta.ident == name && ta.generics.params.is_empty() {
                        let mut bare = ta.clone();
                        bare.attrs.clear();
                        self.deps.insert(format!("type {}", name), norm_tokens(&bare));
                        let ty = (*ta.ty).clone();
                        return self.resolve_ty(&ty);
                    }
                }
            }
        }
        self.unsup(format!("unknown type `{}`", name))
    }

    /// The representation of a newtype struct, `None` for records/enums.
    pub fn newtype_inner(&mut self, name: &str) -> R<Option<Ty>> {
        match self.reg.newtype(name)? {
            Some(nt) => {
                // the inner type is written in the struct's own file
                let saved = self.file;
                let f = config::NEWTYPES.iter().find(|(n, _)| *n == name).map(|(_, f)| *f).unwrap();
                self.file = f;
                let saved_self = self.self_ty.take();
                let r = self.resolve_ty(&nt.inner);
                self.file = saved;
                self.self_ty = saved_self;
                r.map(Some)
            }
            None => Ok(None),
        }
    }

    pub fn lean_ty(&mut self, t: &Ty) -> R<String> {
        fn atom(s: String) -> String {
            if s.contains(' ') {
                format!("({})", s)
            } else {
                s
            }
        }
        Ok(match t {
            Ty::Bool => "Bool".into(),
            Ty::Usize | Ty::U8 | Ty::Int | Ty::Char | Ty::UInt => "Nat".into(),
            Ty::Table1 => "Array Row1".into(),
            Ty::Table2 => "Array Row2".into(),
            Ty::NatList => "List Nat".into(),
            Ty::Slice | Ty::Str | Ty::Tiny(_) => "Bytes".into(),
            Ty::Opt(x) => format!("Option {}", atom(self.lean_ty(x)?)),
            Ty::ResPE(x) => format!("Res {}", atom(self.lean_ty(x)?)),
            Ty::ResOpaque(x) => format!("Option {}", atom(self.lean_ty(x)?)),
            Ty::List(x) | Ty::Iter(x) => format!("List {}", atom(self.lean_ty(x)?)),
            Ty::IterB => "List Bytes".into(),
            Ty::Map => "AMap".into(),
            Ty::Fmt => "Bytes".into(),
            Ty::FmtRes => "Unit".into(),
            Ty::BSearch => "Nat ⊕ Nat".into(),
            Ty::Tuple(xs) => {
                let mut parts = Vec::new();
                for x in xs {
                    parts.push(atom(self.lean_ty(x)?));
                }
                parts.join(" × ")
            }
            Ty::Named(n) => {
                if let Some(inner) = self.newtype_inner(n)? {
                    self.lean_ty(&inner)?
                } else if let Some((cfg, _)) = self.reg.record(n)? {
                    cfg.lean.to_string()
                } else if let Some((cfg, _)) = self.reg.model_enum(n)? {
                    cfg.lean.to_string()
                } else {
                    return self.unsup(format!("unknown type `{}`", n));
                }
            }
            Ty::Param(p) => match self.tparams.get(p).cloned() {
                Some(TParam::Inst(t)) => self.lean_ty(&t)?,
                _ => return self.unsup(format!("type parameter `{}` is not instantiated", p)),
            },
            Ty::PErr => "Err".into(),
            Ty::Unit => "Unit".into(),
            Ty::Range => return self.unsup("a range used as a value"),
            Ty::Infer => return self.unsup("a value whose type could not be inferred"),
        })
    }

    /// May `==` be used on this type, and does it mean equality of the Lean representation?
    pub fn eq_able(&mut self, t: &Ty) -> R<bool> {
        Ok(match t {
            Ty::Bool | Ty::Usize | Ty::U8 | Ty::Int | Ty::Char | Ty::Slice | Ty::Str | Ty::Tiny(_) | Ty::UInt => true,
            Ty::Tuple(xs) => {
                let mut ok = true;
                for x in xs.clone() {
                    ok = ok && self.eq_able(&x)?;
                }
                ok
            }
            Ty::Opt(x) | Ty::List(x) => self.eq_able(x)?,
            Ty::Named(n) => {
                if let Some(nt) = self.reg.newtype(n)? {
                    if !nt.derives.iter().any(|d| d == "PartialEq") {
                        return self.unsup(format!("`==` on {}: `PartialEq` is not derived", n));
                    }
                    let inner = self.newtype_inner(n)?.unwrap();
                    self.eq_able(&inner)?
                } else {
                    false
                }
            }
            Ty::Param(_) => true, // every instantiable parameter is bounded by PartialEq (checked at the signature)
            _ => false,
        })
    }

    /// Are the two types comparable with `==` (both sides the same representation)?
    pub fn eq_compatible(&mut self, a: &Ty, b: &Ty) -> R<bool> {
        let is_int = |t: &Ty| matches!(t, Ty::Usize | Ty::U8 | Ty::Int | Ty::UInt);
        if is_int(a) && is_int(b) {
            return Ok(!(matches!((a, b), (Ty::Usize, Ty::U8) | (Ty::U8, Ty::Usize))));
        }
        if let (Ty::Tuple(x), Ty::Tuple(y)) = (a, b) {
            if x.len() != y.len() {
                return Ok(false);
            }
            for (p, q) in x.clone().iter().zip(y.clone().iter()) {
                if !self.eq_compatible(p, q)? {
                    return Ok(false);
                }
            }
            return Ok(true);
        }
        let is_text = |t: &Ty| matches!(t, Ty::Str | Ty::Tiny(_));
        if is_text(a) && is_text(b) {
            return Ok(true);
        }
        match (a, b) {
            (Ty::Infer, _) | (_, Ty::Infer) => Ok(true),
            (Ty::Opt(x), Ty::Opt(y)) | (Ty::List(x), Ty::List(y)) => {
                let (x, y) = ((**x).clone(), (**y).clone());
                self.eq_compatible(&x, &y)
            }
            _ => {
                if a == b {
                    self.eq_able(a)
                } else {
                    Ok(false)
                }
            }
        }
    }
}
