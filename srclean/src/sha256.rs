//! SHA-256 (FIPS 180-4), written out here because the tool must build with no dependency
//! besides `syn`/`proc-macro2`/`quote`.

const K: [u32; 64] = [
    0x428a2f98, 0x71374491, 0xb5c0fbcf, 0xe9b5dba5, 0x3956c25b, 0x59f111f1, 0x923f82a4, 0xab1c5ed5,
    0xd807aa98, 0x12835b01, 0x243185be, 0x550c7dc3, 0x72be5d74, 0x80deb1fe, 0x9bdc06a7, 0xc19bf174,
    0xe49b69c1, 0xefbe4786, 0x0fc19dc6, 0x240ca1cc, 0x2de92c6f, 0x4a7484aa, 0x5cb0a9dc, 0x76f988da,
    0x983e5152, 0xa831c66d, 0xb00327c8, 0xbf597fc7, 0xc6e00bf3, 0xd5a79147, 0x06ca6351, 0x14292967,
    0x27b70a85, 0x2e1b2138, 0x4d2c6dfc, 0x53380d13, 0x650a7354, 0x766a0abb, 0x81c2c92e, 0x92722c85,
    0xa2bfe8a1, 0xa81a664b, 0xc24b8b70, 0xc76c51a3, 0xd192e819, 0xd6990624, 0xf40e3585, 0x106aa070,
    0x19a4c116, 0x1e376c08, 0x2748774c, 0x34b0bcb5, 0x391c0cb3, 0x4ed8aa4a, 0x5b9cca4f, 0x682e6ff3,
    0x748f82ee, 0x78a5636f, 0x84c87814, 0x8cc70208, 0x90befffa, 0xa4506ceb, 0xbef9a3f7, 0xc67178f2,
];

pub fn sha256_hex(data: &[u8]) -> String {
    let mut h: [u32; 8] = [
        0x6a09e667, 0xbb67ae85, 0x3c6ef372, 0xa54ff53a, 0x510e527f, 0x9b05688c, 0x1f83d9ab, 0x5be0cd19,
    ];
    let mut msg = data.to_vec();
    let bitlen = (data.len() as u64).wrapping_mul(8);
    msg.push(0x80);
    while msg.len() % 64 != 56 {
        msg.push(0);
    }
    msg.extend_from_slice(&bitlen.to_be_bytes());
    for chunk in msg.chunks(64) {
        let mut w = [0u32; 64];
        for i in 0..16 {
            w[i] = u32::from_be_bytes([chunk[4 * i], chunk[4 * i + 1], chunk[4 * i + 2], chunk[4 * i + 3]]);
        }
        for i in 16..64 {
            let s0 = w[i - 15].rotate_right(7) ^ w[i - 15].rotate_right(18) ^ (w[i - 15] >> 3);
            let s1 = w[i - 2].rotate_right(17) ^ w[i - 2].rotate_right(19) ^ (w[i - 2] >> 10);
            w[i] = w[i - 16].wrapping_add(s0).wrapping_add(w[i - 7]).wrapping_add(s1);
        }
        let (mut a, mut b, mut c, mut d, mut e, mut f, mut g, mut hh) =
            (h[0], h[1], h[2], h[3], h[4], h[5], h[6], h[7]);
        for i in 0..64 {
            let s1 = e.rotate_right(6) ^ e.rotate_right(11) ^ e.rotate_right(25);
            let ch = (e & f) ^ ((!e) & g);
            let t1 = hh.wrapping_add(s1).wrapping_add(ch).wrapping_add(K[i]).wrapping_add(w[i]);
            let s0 = a.rotate_right(2) ^ a.rotate_right(13) ^ a.rotate_right(22);
            let maj = (a & b) ^ (a & c) ^ (b & c);
            let t2 = s0.wrapping_add(maj);
            hh = g;
            g = f;
            f = e;
            e = d.wrapping_add(t1);
            d = c;
            c = b;
            b = a;
            a = t1.wrapping_add(t2);
        }
        h[0] = h[0].wrapping_add(a);
        h[1] = h[1].wrapping_add(b);
        h[2] = h[2].wrapping_add(c);
        h[3] = h[3].wrapping_add(d);
        h[4] = h[4].wrapping_add(e);
        h[5] = h[5].wrapping_add(f);
        h[6] = h[6].wrapping_add(g);
        h[7] = h[7].wrapping_add(hh);
    }
    h.iter().map(|x| format!("{:08x}", x)).collect()
}

#[cfg(test)]
mod tests {
    use super::sha256_hex;
    #[test]
    fn vectors() {
        assert_eq!(sha256_hex(b""), "e3b0c44298fc1c149afbf4c8996fb92427ae41e4649b934ca495991b7852b855");
        assert_eq!(sha256_hex(b"abc"), "ba7816bf8f01cfea414140de5dae2223b00361a396177a9cb410ff61f20015ad");
        assert_eq!(
            sha256_hex(b"abcdbcdecdefdefgefghfghighijhijkijkljklmklmnlmnomnopnopq"),
            "248d6a61d20638b8e5c026930c3e6039a33ce45964ff2167f6ecedd419db06c1"
        );
    }
}
