//! Method calls: the semantic mapping table for library methods (see README.md).

use crate::tr_core::*;
use crate::types::*;

fn contains_infer_ty(t: &Ty) -> bool {
    crate::tr_stmt::contains_infer(t)
}

/// `|(k,_)|k` (n = 1) or `|(a,b,_)|(a,b)` (n = 2), any names
fn regex_like(cl: &str, n: usize) -> bool {
    // cl has no spaces
    let inner = match cl.strip_prefix("|(") {
        Some(x) => x,
        None => return false,
    };
    let (params, body) = match inner.split_once(")|") {
        Some(x) => x,
        None => return false,
    };
    let ps: Vec<&str> = params.split(',').collect();
    if ps.len() != n + 1 || ps[n] != "_" {
        return false;
    }
    let is_id = |s: &str| !s.is_empty() && s.chars().all(|c| c.is_ascii_alphanumeric() || c == '_') && s != "_";
    if !ps[..n].iter().all(|p| is_id(p)) {
        return false;
    }
    if n == 1 {
        body == ps[0]
    } else {
        body == format!("({},{})", ps[0], ps[1])
    }
}

/// `t.as_ref()` / `t`: the name of the variable
fn c_arg(e: &syn::Expr) -> Option<String> {
    match e {
        syn::Expr::MethodCall(m) if m.method == "as_ref" && m.args.is_empty() => c_arg(&m.receiver),
        syn::Expr::Path(p) if p.path.segments.len() == 1 => Some(p.path.segments[0].ident.to_string()),
        syn::Expr::Paren(p) => c_arg(&p.expr),
        syn::Expr::Reference(r) => c_arg(&r.expr),
        _ => None,
    }
}

impl<'a> Tr<'a> {
    pub fn tr_method(&mut self, m: &syn::ExprMethodCall, env: &Env, _expected: Option<&Ty>) -> R<Val> {
        let name = m.method.to_string();
        let args: Vec<&syn::Expr> = m.args.iter().collect();
        // `xs.iter().filter_map(|t| F(t.as_ref()).transpose()).collect::<Result<Vec<_>, _>>()`: the values `F` yields, in
        // order, `Ok(None)` dropped, the first `Err` wins (Iterator::collect into a Result stops at the first error)
        if name == "collect" && args.is_empty() {
            if let Some(v) = self.tr_collect_idiom(m, env)? {
                return Ok(v);
            }
        }
        if m.turbofish.is_some() {
            return self.unsup(format!("turbofish on `.{}`", name));
        }
        // methods that change their receiver (a variable or a field path of one)
        if let Some(v) = self.tr_mut_method(m, env)? {
            return Ok(v);
        }
        // `x.fmt(f)`: `Display::fmt` of a translated type appends to the formatter buffer
        if name == "fmt" && args.len() == 1 && Self::is_place(args[0]) {
            if let Ok(p) = self.place(args[0], env) {
                if p.cur.ty == Ty::Fmt && p.steps.is_empty() {
                    let x = self.tr_expr(&m.receiver, env, None)?;
                    let piece = self.display_of(&x)?;
                    let new = if piece.ends_with(" [])") {
                        // `(UL.Src.T.fmt x [])` -> `(UL.Src.T.fmt x f)`
                        format!("{} {})", &piece[..piece.len() - 4], p.cur.t)
                    } else {
                        format!("({} ++ {})", p.cur.t, piece)
                    };
                    self.mutate(&p, new, "`.fmt(f)`")?;
                    return Ok(Val::pure_("()", Ty::FmtRes));
                }
            }
        }
        // `x.to_string()`: what `Display` writes into an empty buffer
        if name == "to_string" && args.is_empty() {
            let x = self.tr_expr(&m.receiver, env, None)?;
            if let Ty::Named(_) = &x.ty {
                let piece = self.display_of(&x)?;
                return Ok(Val { t: piece, ty: Ty::Str, ..x });
            }
        }
        let recv = self.tr_expr(&m.receiver, env, None)?;
        if recv.callres && !(name == "map_err" && matches!(recv.ty, Ty::ResPE(_))) {
            return self.unsup(format!("`.{}` on the result of a call to a Result-returning function (it may have panicked)", name));
        }
        let nargs = |me: &Self, n: usize| -> R<()> {
            if args.len() != n {
                me.unsup(format!("`.{}` with {} arguments", name, args.len()))
            } else {
                Ok(())
            }
        };
        // ----- ranges
        if recv.ty == Ty::Range {
            if name == "contains" {
                nargs(self, 1)?;
                let x = self.tr_expr(args[0], env, Some(&Ty::Usize))?;
                if !matches!(x.ty, Ty::Usize | Ty::U8 | Ty::Int) {
                    return self.unsup("range.contains of a non-integer");
                }
                let (lo, hi, incl) = recv.range.clone().unwrap();
                let up = if incl { "≤" } else { "<" };
                return self.lift(&[x], Ty::Bool, false, &|a| {
                    format!("(decide ({} ≤ {}) && decide ({} {} {}))", lo, a[0], a[0], up, hi)
                });
            }
            return self.unsup(format!("`.{}` on a range", name));
        }
        // ----- identity-like adapters on anything
        match (name.as_str(), &recv.ty) {
            ("clone", _) | ("to_owned", Ty::Tiny(_)) => {
                nargs(self, 0)?;
                return Ok(recv);
            }
            ("as_ref", Ty::Infer) => {
                // an element of a list whose element type is not known (the empty slice `&[]`)
                nargs(self, 0)?;
                return Ok(recv);
            }
            ("borrow", Ty::Named(_)) | ("as_ref", Ty::Named(_)) => {
                // only for parameters of a type `O: Borrow<Self>` / `O: AsRef<Self>` (resolved to Self),
                // or `AsRef<Self> for Self`, checked below
                nargs(self, 0)?;
                if name == "as_ref" {
                    self.check_asref_identity(&recv.ty)?;
                }
                return Ok(recv);
            }
            _ => {}
        }
        if name == "into" && args.is_empty() {
            return self.tr_into(recv);
        }
        match recv.ty.clone() {
            Ty::Table1 | Ty::Table2 if name == "binary_search_by_key" => {
                nargs(self, 2)?;
                let two = recv.ty == Ty::Table2;
                // the closure must project the key columns: |(k, _)| k   /   |(k1, k2, _)| (k1, k2)
                let cl = norm_tokens(args[1]).replace(' ', "");
                let ok = if two {
                    regex_like(&cl, 2)
                } else {
                    regex_like(&cl, 1)
                };
                if !ok {
                    return self.unsup(format!("binary_search_by_key with a key closure `{}` that is not the projection of the key columns", norm_tokens(args[1])));
                }
                let key = self.tr_expr(args[0], env, None)?;
                if key.callres {
                    return self.unsup("call result as a key");
                }
                match (&key.ty, two) {
                    (Ty::UInt, false) => self.lift(&[recv, key], Ty::ResOpaque(Box::new(Ty::Usize)), false, &|a| format!("(tblSearch1 {} {})", a[0], a[1])),
                    (Ty::Tuple(ts), true) if ts.len() == 2 && ts[0] == Ty::UInt && ts[1] == Ty::UInt => {
                        self.lift(&[recv, key], Ty::ResOpaque(Box::new(Ty::Usize)), false, &|a| format!("(tblSearch2 {} {}.1 {}.2)", a[0], a[1], a[1]))
                    }
                    (t, _) => self.unsup(format!("binary_search_by_key with a key of type {:?}", t)),
                }
            }
            Ty::NatList if name == "contains" => {
                nargs(self, 1)?;
                let x = self.tr_expr(args[0], env, Some(&Ty::UInt))?;
                if x.ty != Ty::UInt || x.callres {
                    return self.unsup("`contains` on a layout table with something that is not an integer");
                }
                self.lift(&[recv, x], Ty::Bool, false, &|a| format!("(List.contains {} {})", a[0], a[1]))
            }
            Ty::Slice => match name.as_str() {
                "len" => {
                    nargs(self, 0)?;
                    self.lift(&[recv], Ty::Usize, false, &|a| format!("(List.length {})", a[0]))
                }
                "is_empty" => {
                    nargs(self, 0)?;
                    self.lift(&[recv], Ty::Bool, false, &|a| format!("(List.isEmpty {})", a[0]))
                }
                "iter" => {
                    nargs(self, 0)?;
                    Ok(Val { ty: Ty::Iter(Box::new(Ty::U8)), ..recv })
                }
                "first" => {
                    nargs(self, 0)?;
                    self.lift(&[recv], Ty::Opt(Box::new(Ty::U8)), false, &|a| format!("(List.head? {})", a[0]))
                }
                "as_ref" | "to_vec" => {
                    nargs(self, 0)?;
                    Ok(recv)
                }
                "split" => {
                    nargs(self, 1)?;
                    let (x, body) = self.tr_closure1(args[0], env, Ty::U8)?;
                    if body.ty != Ty::Bool {
                        return self.unsup("closure of split does not return bool");
                    }
                    self.lift(&[recv], Ty::IterB, false, &|a| format!("(splitOn (fun {} => {}) {})", x, body.t, a[0]))
                }
                "get" => {
                    nargs(self, 1)?;
                    let i = self.tr_expr(args[0], env, Some(&Ty::Usize))?;
                    if !matches!(i.ty, Ty::Usize | Ty::Int) {
                        return self.unsup("`.get(i)` with a non-usize index (range `get` is outside the subset)");
                    }
                    self.lift(&[recv, i], Ty::Opt(Box::new(Ty::U8)), false, &|a| format!("({}[{}]?)", a[0], a[1]))
                }
                _ => self.unsup(format!("`.{}` on a byte slice", name)),
            },
            Ty::List(el) => match name.as_str() {
                "len" => {
                    nargs(self, 0)?;
                    self.lift(&[recv], Ty::Usize, false, &|a| format!("(List.length {})", a[0]))
                }
                "is_empty" => {
                    nargs(self, 0)?;
                    self.lift(&[recv], Ty::Bool, false, &|a| format!("(List.isEmpty {})", a[0]))
                }
                "iter" => {
                    nargs(self, 0)?;
                    Ok(Val { ty: Ty::Iter(el), ..recv })
                }
                "to_vec" | "into_boxed_slice" | "as_ref" | "into_vec" => {
                    nargs(self, 0)?;
                    Ok(recv)
                }
                "contains" => {
                    nargs(self, 1)?;
                    let x = self.tr_expr(args[0], env, Some(&el))?;
                    if x.callres || !self.eq_compatible(&x.ty, &el)? {
                        return self.unsup(format!("`.contains` of {:?} in a list of {:?}", x.ty, el));
                    }
                    self.lift(&[recv, x], Ty::Bool, false, &|a| format!("(List.contains {} {})", a[0], a[1]))
                }
                "binary_search" => {
                    nargs(self, 1)?;
                    let x = self.tr_expr(args[0], env, Some(&el))?;
                    let bytes = self.lean_ty(&el).map(|s| s == "Bytes").unwrap_or(false);
                    if x.callres || !bytes || !self.eq_compatible(&x.ty, &el)? {
                        return self.unsup("`binary_search` on something that is not a list of byte strings");
                    }
                    self.lift(&[recv, x], Ty::BSearch, false, &|a| format!("(UL.binarySearchBy {} (UL.cmpBytes {}))", a[0], a[1]))
                }
                _ => self.unsup(format!("`.{}` on a list", name)),
            },
            Ty::IterB => match name.as_str() {
                "peekable" => {
                    nargs(self, 0)?;
                    Ok(recv)
                }
                _ => self.unsup(format!("`.{}` on the subtag iterator (only through a variable)", name)),
            },
            Ty::Map => match name.as_str() {
                "is_empty" => {
                    nargs(self, 0)?;
                    self.lift(&[recv], Ty::Bool, false, &|a| format!("(List.isEmpty {})", a[0]))
                }
                "keys" => {
                    nargs(self, 0)?;
                    self.lift(&[recv], Ty::Iter(Box::new(Ty::Tiny(4))), false, &|a| format!("(UL.AMap.keys {})", a[0]))
                }
                "get" => {
                    nargs(self, 1)?;
                    let kx = self.tr_expr(args[0], env, Some(&Ty::Tiny(4)))?;
                    let bytes = self.lean_ty(&kx.ty).map(|s| s == "Bytes").unwrap_or(false);
                    if kx.callres || !bytes {
                        return self.unsup("map key");
                    }
                    self.lift(&[recv, kx], Ty::Opt(Box::new(Ty::List(Box::new(Ty::Tiny(8))))), false, &|a| format!("(UL.AMap.get {} {})", a[1], a[0]))
                }
                _ => self.unsup(format!("`.{}` on a map", name)),
            },
            Ty::Iter(el) => match name.as_str() {
                "any" | "all" => {
                    nargs(self, 1)?;
                    let (x, body) = self.tr_closure1(args[0], env, (*el).clone())?;
                    if body.ty != Ty::Bool {
                        return self.unsup("closure of any/all does not return bool");
                    }
                    let f = if name == "any" { "List.any" } else { "List.all" };
                    self.lift(&[recv], Ty::Bool, false, &|a| format!("({} {} (fun {} => {}))", f, a[0], x, body.t))
                }
                "copied" | "cloned" => {
                    nargs(self, 0)?;
                    Ok(recv)
                }
                "map" => {
                    nargs(self, 1)?;
                    let (x, body) = self.tr_closure1(args[0], env, (*el).clone())?;
                    let ty = Ty::Iter(Box::new(body.ty.clone()));
                    self.lift(&[recv], ty, false, &|a| format!("(List.map (fun {} => {}) {})", x, body.t, a[0]))
                }
                _ => self.unsup(format!("iterator method `.{}`", name)),
            },
            Ty::U8 => {
                let f = match name.as_str() {
                    "is_ascii_alphabetic" => ("isAlpha", Ty::Bool),
                    "is_ascii_digit" => ("isDigit", Ty::Bool),
                    "is_ascii_alphanumeric" => ("isAlnum", Ty::Bool),
                    "is_ascii_uppercase" => ("isUpper", Ty::Bool),
                    "is_ascii_lowercase" => ("isLower", Ty::Bool),
                    "to_ascii_lowercase" => ("toLower", Ty::U8),
                    "to_ascii_uppercase" => ("toUpper", Ty::U8),
                    _ => return self.unsup(format!("`.{}` on a u8", name)),
                };
                nargs(self, 0)?;
                self.lift(&[recv], f.1, false, &|a| format!("({} {})", f.0, a[0]))
            }
            Ty::Tiny(n) => {
                let f = match name.as_str() {
                    "is_ascii_alphabetic" => ("allAlpha", Ty::Bool),
                    "is_ascii_numeric" => ("allDigit", Ty::Bool),
                    "is_ascii_alphanumeric" => ("allAlnum", Ty::Bool),
                    "to_ascii_lowercase" => ("lower", Ty::Tiny(n)),
                    "to_ascii_uppercase" => ("upper", Ty::Tiny(n)),
                    "to_ascii_titlecase" => ("title", Ty::Tiny(n)),
                    "len" => ("List.length", Ty::Usize),
                    "is_empty" => ("List.isEmpty", Ty::Bool),
                    "as_str" | "as_ref" => {
                        nargs(self, 0)?;
                        return Ok(Val { ty: Ty::Str, ..recv });
                    }
                    "as_bytes" => {
                        nargs(self, 0)?;
                        return Ok(Val { ty: Ty::Slice, ..recv });
                    }
                    _ => return self.unsup(format!("`.{}` on a TinyAsciiStr", name)),
                };
                nargs(self, 0)?;
                self.lift(&[recv], f.1, false, &|a| format!("({} {})", f.0, a[0]))
            }
            Ty::Str => match name.as_str() {
                "as_str" | "as_ref" => {
                    nargs(self, 0)?;
                    Ok(recv)
                }
                "as_bytes" => {
                    nargs(self, 0)?;
                    Ok(Val { ty: Ty::Slice, ..recv })
                }
                "len" => {
                    nargs(self, 0)?;
                    self.lift(&[recv], Ty::Usize, false, &|a| format!("(List.length {})", a[0]))
                }
                "is_empty" => {
                    nargs(self, 0)?;
                    self.lift(&[recv], Ty::Bool, false, &|a| format!("(List.isEmpty {})", a[0]))
                }
                _ => self.unsup(format!("`.{}` on a str", name)),
            },
            Ty::Opt(inner) => self.tr_option_method(recv, *inner, &name, &args, env),
            Ty::ResOpaque(inner) => match name.as_str() {
                "map_err" => {
                    nargs(self, 1)?;
                    // the error value is not observable: the closure must ignore its argument
                    let (x, body) = self.tr_closure1(args[0], env, Ty::Infer)?;
                    if x != "_" {
                        return self.unsup("`map_err` closure that looks at a non-ParserError error value");
                    }
                    if body.ty != Ty::PErr {
                        return self.unsup("`map_err` closure that does not produce a ParserError");
                    }
                    self.lift(&[recv], Ty::ResPE(inner), false, &|a| format!("(okOr {} {})", a[0], body.t))
                }
                "ok" => {
                    nargs(self, 0)?;
                    Ok(Val { ty: Ty::Opt(inner), ..recv })
                }
                "is_ok" => {
                    nargs(self, 0)?;
                    self.lift(&[recv], Ty::Bool, false, &|a| format!("(Option.isSome {})", a[0]))
                }
                "is_err" => {
                    nargs(self, 0)?;
                    self.lift(&[recv], Ty::Bool, false, &|a| format!("(Option.isNone {})", a[0]))
                }
                _ => self.unsup(format!("`.{}` on a Result with an opaque error", name)),
            },
            Ty::ResPE(inner) => match name.as_str() {
                "map_err" => {
                    nargs(self, 1)?;
                    let (x, body) = self.tr_closure1(args[0], env, Ty::PErr)?;
                    if body.ty != Ty::PErr {
                        return self.unsup("`map_err` closure that does not produce a ParserError");
                    }
                    let (cr, ic) = (recv.callres, recv.itercall);
                    let mut r0 = recv.clone();
                    r0.callres = false;
                    let mut out = self.lift(&[r0], Ty::ResPE(inner), false, &|a| {
                        format!("(Res.mapErr (fun {} => {}) {})", x, body.t, a[0])
                    })?;
                    out.callres = cr;
                    out.itercall = ic;
                    Ok(out)
                }
                "is_ok" => {
                    nargs(self, 0)?;
                    self.lift(&[recv], Ty::Bool, false, &|a| format!("(Res.isOk {})", a[0]))
                }
                "is_err" => {
                    nargs(self, 0)?;
                    self.lift(&[recv], Ty::Bool, false, &|a| format!("(!(Res.isOk {}))", a[0]))
                }
                "ok" => {
                    nargs(self, 0)?;
                    self.lift(&[recv], Ty::Opt(inner), false, &|a| format!("(Res.toOption {})", a[0]))
                }
                _ => self.unsup(format!("`.{}` on a Result", name)),
            },
            Ty::Named(tn) => {
                // a method of a translated impl
                let r = recv.clone();
                self.tr_target_call(Some(&tn), &name, Some(r), &args, env)
            }
            t => self.unsup(format!("`.{}` on {:?}", name, t)),
        }
    }

    fn tr_option_method(&mut self, recv: Val, inner: Ty, name: &str, args: &[&syn::Expr], env: &Env) -> R<Val> {
        let nargs = |me: &Self, n: usize| -> R<()> {
            if args.len() != n {
                me.unsup(format!("`.{}` with {} arguments", name, args.len()))
            } else {
                Ok(())
            }
        };
        match name {
            "is_none" => {
                nargs(self, 0)?;
                self.lift(&[recv], Ty::Bool, false, &|a| format!("(Option.isNone {})", a[0]))
            }
            "is_some" => {
                nargs(self, 0)?;
                self.lift(&[recv], Ty::Bool, false, &|a| format!("(Option.isSome {})", a[0]))
            }
            "as_ref" | "copied" | "cloned" => {
                nargs(self, 0)?;
                Ok(recv)
            }
            "as_deref" => {
                nargs(self, 0)?;
                match inner {
                    Ty::Tiny(_) | Ty::Str => Ok(Val { ty: Ty::Opt(Box::new(Ty::Str)), ..recv }),
                    Ty::List(_) | Ty::Slice => Ok(recv),
                    t => self.unsup(format!("`.as_deref()` on Option<{:?}>", t)),
                }
            }
            "unwrap_or" => {
                nargs(self, 1)?;
                let d = self.tr_expr(args[0], env, Some(&inner))?;
                if !self.eq_compatible(&d.ty, &inner)? && d.ty != inner {
                    return self.unsup(format!("`.unwrap_or` default of type {:?} for Option<{:?}>", d.ty, inner));
                }
                self.lift(&[recv, d], inner, false, &|a| format!("(Option.getD {} {})", a[0], a[1]))
            }
            "unwrap" | "expect" => {
                self.effect_guard("`.unwrap()`")?;
                self.lift(&[recv], inner, true, &|a| format!("(unwrapOpt {})", a[0]))
            }
            "map_or" => {
                nargs(self, 2)?;
                let d = self.tr_expr(args[0], env, None)?;
                if d.eff() || d.callres {
                    return self.unsup("`map_or` default that may panic");
                }
                let (x, body) = self.tr_closure1(args[1], env, inner)?;
                let ty = if d.ty == Ty::Int { body.ty.clone() } else { d.ty.clone() };
                self.lift(&[recv], ty, false, &|a| {
                    format!("(match {} with | some {} => {} | none => {})", a[0], x, body.t, d.t)
                })
            }
            "map" => {
                nargs(self, 1)?;
                let (x, body) = self.tr_closure1x(args[0], env, inner, true)?;
                let ty = Ty::Opt(Box::new(body.ty.clone()));
                let mut out = self.lift(&[recv], ty, false, &|a| format!("(Option.map (fun {} => {}) {})", x, body.t, a[0]))?;
                // the closure's result may be a panic: only a `match` may look at the value
                out.callres = body.callres;
                Ok(out)
            }
            "or_else" => {
                nargs(self, 1)?;
                let cl = match args[0] {
                    syn::Expr::Closure(c) if c.inputs.is_empty() => c,
                    _ => return self.unsup("`or_else` with something that is not a closure without parameters"),
                };
                self.pure_only += 1;
                let body = self.tr_expr(&cl.body, env, Some(&Ty::Opt(Box::new(inner.clone()))));
                self.pure_only -= 1;
                let body = body?;
                if body.eff() || body.callres {
                    return self.unsup("`or_else` closure that may panic");
                }
                match &body.ty {
                    Ty::Opt(t) => {
                        let t = (**t).clone();
                        self.check_compat(&t, &inner)?;
                    }
                    t => return self.unsup(format!("`or_else` closure of type {:?}", t)),
                }
                let ty = if contains_infer_ty(&inner) { body.ty.clone() } else { Ty::Opt(Box::new(inner)) };
                self.lift(&[recv], ty, false, &|a| format!("(Option.orElse {} (fun _ => {}))", a[0], body.t))
            }
            "unwrap_or_default" => {
                nargs(self, 0)?;
                let d = self.default_term(&inner)?;
                self.lift(&[recv], inner, false, &|a| format!("(Option.getD {} {})", a[0], d))
            }
            "map_or_else" => {
                nargs(self, 2)?;
                // the default is a constructor path (`Vec::new`)
                let d = match args[0] {
                    syn::Expr::Path(p) if norm_tokens(p) == "Vec :: new" => "[]".to_string(),
                    _ => return self.unsup("`map_or_else` default that is not `Vec::new`"),
                };
                let (x, body) = self.tr_closure1(args[1], env, inner)?;
                let ty = body.ty.clone();
                self.lift(&[recv], ty, false, &|a| format!("(match {} with | some {} => {} | none => {})", a[0], x, body.t, d))
            }
            "is_some_and" => {
                nargs(self, 1)?;
                let (x, body) = self.tr_closure1(args[0], env, inner)?;
                if body.ty != Ty::Bool {
                    return self.unsup("`is_some_and` closure that does not return bool");
                }
                self.lift(&[recv], Ty::Bool, false, &|a| {
                    format!("(match {} with | some {} => {} | none => false)", a[0], x, body.t)
                })
            }
            "ok_or" => {
                nargs(self, 1)?;
                let e = self.tr_expr(args[0], env, Some(&Ty::PErr))?;
                if e.ty != Ty::PErr || e.eff() {
                    return self.unsup("`ok_or` of something that is not a ParserError");
                }
                self.lift(&[recv], Ty::ResPE(Box::new(inner)), false, &|a| format!("(okOr {} {})", a[0], e.t))
            }
            _ => self.unsup(format!("`.{}` on an Option", name)),
        }
    }

    fn tr_collect_idiom(&mut self, m: &syn::ExprMethodCall, env: &Env) -> R<Option<Val>> {
        // turbofish must be `Result<Vec<_>, _>`
        match &m.turbofish {
            Some(tf) if norm_tokens(tf).replace(' ', "") == "::<Result<Vec<_>,_>>" => {}
            _ => return Ok(None),
        }
        let fm = match &*m.receiver {
            syn::Expr::MethodCall(fm) if fm.method == "filter_map" && fm.args.len() == 1 => fm,
            _ => return Ok(None),
        };
        let it = match &*fm.receiver {
            syn::Expr::MethodCall(it) if it.method == "iter" && it.args.is_empty() => it,
            _ => return Ok(None),
        };
        let list = self.tr_expr(&it.receiver, env, None)?;
        let elt = match &list.ty {
            Ty::List(t) => (**t).clone(),
            _ => return Ok(None),
        };
        if self.lean_ty(&elt)? != "Bytes" || list.callres {
            return self.unsup("the collect idiom over something that is not a list of byte strings");
        }
        // the closure: |t| F(t.as_ref()).transpose()
        let cl = match &fm.args[0] {
            syn::Expr::Closure(c) if c.inputs.len() == 1 => c,
            _ => return Ok(None),
        };
        let pname = match &cl.inputs[0] {
            syn::Pat::Ident(pi) => pi.ident.to_string(),
            _ => return Ok(None),
        };
        let tr = match &*cl.body {
            syn::Expr::MethodCall(t) if t.method == "transpose" && t.args.is_empty() => t,
            _ => return Ok(None),
        };
        let call = match &*tr.receiver {
            syn::Expr::Call(c) if c.args.len() == 1 => c,
            _ => return Ok(None),
        };
        let arg_ok = match &c_arg(&call.args[0]) {
            Some(n) => *n == pname,
            None => false,
        };
        if !arg_ok {
            return Ok(None);
        }
        // translate `F(x)` with a fresh variable to learn the target's Lean name and type
        let x = self.fresh(&pname);
        let mut env2 = env.clone();
        env2.insert(pname.clone(), Val::pure_(x.clone(), Ty::Slice));
        self.pure_only += 1;
        let fv = self.tr_expr(&syn::Expr::Call(call.clone()), &env2, None);
        self.pure_only -= 1;
        let fv = fv?;
        let inner = match &fv.ty {
            Ty::ResPE(t) => match &**t {
                Ty::Opt(u) => (**u).clone(),
                _ => return self.unsup("the collect idiom: the function does not return Result<Option<_>, _>"),
            },
            _ => return self.unsup("the collect idiom: the function does not return Result<Option<_>, _>"),
        };
        if fv.eff() {
            return self.unsup("the collect idiom: effects in the argument");
        }
        let f = format!("(fun {} => {})", x, fv.t);
        let mut out = self.lift(&[list], Ty::ResPE(Box::new(Ty::List(Box::new(inner)))), false, &|a| format!("(collectOpt {} {})", f, a[0]))?;
        out.callres = true;
        Ok(Some(out))
    }

    /// `x.as_ref()` on a `LanguageIdentifier` is the identity only if the source says so:
    /// `impl AsRef<T> for T { fn as_ref(&self) -> &T { self } }`.
    fn check_asref_identity(&mut self, t: &Ty) -> R<()> {
        let name = match t {
            Ty::Named(n) => n.clone(),
            _ => return Ok(()),
        };
        // look in every parsed file
        for (fname, f) in &self.reg.files {
            for it in &f.items {
                if let syn::Item::Impl(im) = it {
                    let tr = match &im.trait_ {
                        Some((_, p, _)) => p,
                        None => continue,
                    };
                    let last = match tr.segments.last() {
                        Some(l) => l,
                        None => continue,
                    };
                    if last.ident != "AsRef" {
                        continue;
                    }
                    let self_name = match &*im.self_ty {
                        syn::Type::Path(p) => p.path.segments.last().map(|s| s.ident.to_string()).unwrap_or_default(),
                        _ => String::new(),
                    };
                    if self_name != name {
                        continue;
                    }
                    let arg_is_self = match &last.arguments {
                        syn::PathArguments::AngleBracketed(a) => a.args.iter().any(|g| match g {
                            syn::GenericArgument::Type(syn::Type::Path(p)) => {
                                p.path.segments.last().map(|s| s.ident == name.as_str() || s.ident == "Self").unwrap_or(false)
                            }
                            _ => false,
                        }),
                        _ => false,
                    };
                    if !arg_is_self {
                        continue;
                    }
                    for ii in &im.items {
                        if let syn::ImplItem::Fn(func) = ii {
                            if func.sig.ident == "as_ref" {
                                let body_is_self = func.block.stmts.len() == 1
                                    && matches!(&func.block.stmts[0], syn::Stmt::Expr(syn::Expr::Path(p), None) if p.path.is_ident("self"));
                                if body_is_self {
                                    let mut bare = im.clone();
                                    bare.attrs.clear();
                                    self.deps.insert(format!("{}::impl AsRef for {}", fname, name), norm_tokens(&bare));
                                    return Ok(());
                                }
                                return self.unsup(format!("`AsRef<{0}> for {0}` is not the identity any more", name));
                            }
                        }
                    }
                }
            }
        }
        self.unsup(format!("no `impl AsRef<{0}> for {0}` found: `.as_ref()` cannot be resolved", name))
    }
}
