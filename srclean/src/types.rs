//! The small type language of the translator, and the registry of Rust items read from the sources.

use crate::config;
use quote::ToTokens;
use std::collections::BTreeMap;

#[derive(Clone, Debug, PartialEq)]
pub enum Ty {
    Bool,
    Usize,
    U8,
    /// an integer literal without suffix
    Int,
    /// `u32` / `u64` (the integer forms of the subtags)
    UInt,
    /// a likely-subtags table keyed by one / two integers (a field of the model's `Tables`)
    Table1,
    Table2,
    /// a layout table: a list of integers (a field of the model's `Layout`)
    NatList,
    Char,
    /// `&[u8]`
    Slice,
    /// `&str`
    Str,
    /// `TinyAsciiStr<N>`
    Tiny(u32),
    Opt(Box<Ty>),
    /// `Result<T, ParserError>`
    ResPE(Box<Ty>),
    /// `Result<T, E>` for any other `E`; the error value is not observable
    ResOpaque(Box<Ty>),
    /// `Box<[T]>`, `Vec<T>`, `&[T]` (T != u8)
    List(Box<Ty>),
    /// `.iter()` of a slice / list
    Iter(Box<Ty>),
    /// the subtag iterator (`Peekable<Split<..>>` / `impl Iterator<Item = &[u8]>`): the list of
    /// the subtags that are left
    IterB,
    /// `BTreeMap<TinyStr4, Vec<TinyStr8>>`: the model's key-sorted association list `AMap`
    Map,
    /// a tuple
    Tuple(Vec<Ty>),
    /// `std::fmt::Formatter` used as an output buffer (the bytes written so far)
    Fmt,
    /// `std::fmt::Result` (writing to the buffer cannot fail)
    FmtRes,
    /// the result of `binary_search`: `Ok(i)` / `Err(i)` (Lean `Nat ⊕ Nat`)
    BSearch,
    /// a struct or enum of the registry
    Named(String),
    /// a type parameter instantiated by the configuration
    Param(String),
    /// `ParserError`
    PErr,
    /// a range of integers (exists at translation time only)
    Range,
    Unit,
    /// not yet known (`None`, `Err(..)`)
    Infer,
}

pub type R<T> = Result<T, String>;

pub struct NewtypeInfo {
    pub inner: syn::Type,
    pub derives: Vec<String>,
    pub tokens: String,
}

pub struct RecordInfo {
    pub fields: Vec<(String, syn::Type)>,
    pub tokens: String,
    pub derives: Vec<String>,
}

pub struct EnumInfo {
    pub variants: Vec<(String, usize)>,
    pub tokens: String,
}

pub struct Registry {
    pub files: BTreeMap<String, syn::File>,
    pub file_errors: BTreeMap<String, String>,
}

fn derives_of(attrs: &[syn::Attribute]) -> Vec<String> {
    let mut out = Vec::new();
    for a in attrs {
        if a.path().is_ident("derive") {
            let _ = a.parse_nested_meta(|m| {
                if let Some(s) = m.path.segments.last() {
                    out.push(s.ident.to_string());
                }
                Ok(())
            });
        }
    }
    out
}

/// Token text of an item without its attributes (doc comments are attributes).
pub fn norm_tokens<T: ToTokens>(t: &T) -> String {
    t.to_token_stream().to_string()
}

impl Registry {
    /// `features`: when given, `#[cfg]` / `cfg!` are resolved for exactly this cargo feature set before anything is looked up
    pub fn load(root: &std::path::Path, features: Option<&[String]>) -> Registry {
        let mut files = BTreeMap::new();
        let mut file_errors = BTreeMap::new();
        for f in config::FILES {
            let p = root.join(f);
            match std::fs::read_to_string(&p) {
                Err(e) => {
                    file_errors.insert(f.to_string(), format!("cannot read {}: {}", f, e));
                }
                Ok(text) => match syn::parse_file(&text) {
                    Ok(mut ast) => {
                        if let Some(fs) = features {
                            use syn::visit_mut::VisitMut;
                            crate::cfgres::CfgRes { features: fs }.visit_file_mut(&mut ast);
                        }
                        files.insert(f.to_string(), ast);
                    }
                    Err(e) => {
                        file_errors.insert(f.to_string(), format!("cannot parse {}: {}", f, e));
                    }
                },
            }
        }
        // a file whose `mod` declaration (in the crate's lib.rs) is compiled out in this configuration does not exist in it
        if features.is_some() {
            let names: Vec<String> = files.keys().cloned().collect();
            for f in names {
                let parts: Vec<&str> = f.split('/').collect();
                // `<crate>/src/<m>.rs` or `<crate>/src/<m>/mod.rs`
                let m = match parts.as_slice() {
                    [_, "src", file] if *file != "lib.rs" => file.trim_end_matches(".rs").to_string(),
                    [_, "src", dir, "mod.rs"] => dir.to_string(),
                    _ => continue,
                };
                let lib = format!("{}/src/lib.rs", parts[0]);
                let declared_raw = std::fs::read_to_string(root.join(&lib)).ok().and_then(|t| syn::parse_file(&t).ok()).map(|ast| {
                    ast.items.iter().any(|it| matches!(it, syn::Item::Mod(x) if x.ident == m.as_str()))
                });
                let declared_now = files.get(&lib).map(|ast| ast.items.iter().any(|it| matches!(it, syn::Item::Mod(x) if x.ident == m.as_str())));
                if declared_raw == Some(true) && declared_now == Some(false) {
                    files.remove(&f);
                    file_errors.insert(f.clone(), format!("module `{}` not found in this configuration of {} (its `mod` item is compiled out)", m, parts[0]));
                }
            }
        }
        Registry { files, file_errors }
    }

    pub fn file(&self, f: &str) -> R<&syn::File> {
        match self.files.get(f) {
            Some(x) => Ok(x),
            None => Err(self.file_errors.get(f).cloned().unwrap_or_else(|| format!("file {} is not in the configured list", f))),
        }
    }

    fn find_struct(&self, file: &str, name: &str) -> R<&syn::ItemStruct> {
        for it in &self.file(file)?.items {
            if let syn::Item::Struct(s) = it {
                if s.ident == name {
                    return Ok(s);
                }
            }
        }
        Err(format!("struct {} not found in {}", name, file))
    }

    pub fn newtype(&self, name: &str) -> R<Option<NewtypeInfo>> {
        let file = match config::NEWTYPES.iter().find(|(n, _)| *n == name) {
            Some((_, f)) => *f,
            None => return Ok(None),
        };
        let s = self.find_struct(file, name)?;
        if !s.generics.params.is_empty() {
            return Err(format!("struct {} has generic parameters", name));
        }
        match &s.fields {
            syn::Fields::Unnamed(u) if u.unnamed.len() == 1 => {
                let mut bare = s.clone();
                bare.attrs.retain(|a| a.path().is_ident("derive"));
                Ok(Some(NewtypeInfo {
                    inner: u.unnamed[0].ty.clone(),
                    derives: derives_of(&s.attrs),
                    tokens: norm_tokens(&bare),
                }))
            }
            _ => Err(format!("struct {} is not a one-field tuple struct any more", name)),
        }
    }

    pub fn record(&self, name: &str) -> R<Option<(&'static config::RecordCfg, RecordInfo)>> {
        let cfg = match config::RECORDS.iter().find(|r| r.rust == name) {
            Some(c) => c,
            None => return Ok(None),
        };
        let s = self.find_struct(cfg.file, name)?;
        if !s.generics.params.is_empty() {
            return Err(format!("struct {} has generic parameters", name));
        }
        match &s.fields {
            syn::Fields::Named(n) => {
                let fields = n.named.iter().map(|f| (f.ident.as_ref().unwrap().to_string(), f.ty.clone())).collect();
                let mut bare = s.clone();
                bare.attrs.retain(|a| a.path().is_ident("derive"));
                for f in bare.fields.iter_mut() {
                    f.attrs.clear();
                }
                Ok(Some((cfg, RecordInfo { fields, tokens: norm_tokens(&bare), derives: derives_of(&s.attrs) })))
            }
            _ => Err(format!("struct {} has no named fields any more", name)),
        }
    }

    pub fn enum_in(&self, file: &str, name: &str) -> R<EnumInfo> {
        for it in &self.file(file)?.items {
            if let syn::Item::Enum(e) = it {
                if e.ident == name {
                    let variants = e
                        .variants
                        .iter()
                        .map(|v| {
                            let n = match &v.fields {
                                syn::Fields::Unit => 0,
                                syn::Fields::Unnamed(u) => u.unnamed.len(),
                                syn::Fields::Named(n) => 1000 + n.named.len(),
                            };
                            (v.ident.to_string(), n)
                        })
                        .collect();
                    let mut bare = e.clone();
                    bare.attrs.retain(|a| a.path().is_ident("derive"));
                    for v in bare.variants.iter_mut() {
                        v.attrs.clear();
                    }
                    return Ok(EnumInfo { variants, tokens: norm_tokens(&bare) });
                }
            }
        }
        Err(format!("enum {} not found in {}", name, file))
    }

    /// The model enumeration for a Rust enum, after checking that the source still has exactly
    /// the variants the configuration expects.
    pub fn model_enum(&self, name: &str) -> R<Option<(&'static config::EnumCfg, EnumInfo)>> {
        let cfg = match config::ENUMS.iter().find(|e| e.rust == name) {
            Some(c) => c,
            None => return Ok(None),
        };
        let info = self.enum_in(cfg.file, name)?;
        let mut src: Vec<(String, usize)> = info.variants.clone();
        let mut exp: Vec<(String, usize)> = cfg.variants.iter().map(|(r, _, n)| (r.to_string(), *n)).collect();
        src.sort();
        exp.sort();
        if src != exp {
            return Err(format!("enum {} has variants {:?}, the model expects {:?}", name, src, exp));
        }
        Ok(Some((cfg, info)))
    }

    /// `<crate>/src/parser/errors.rs` for the crate a file belongs to.
    pub fn errors_file_for(file: &str) -> String {
        let krate = file.split('/').next().unwrap_or("");
        format!("{}/src/parser/errors.rs", krate)
    }
}
