//! Loops.  A loop becomes a recursive Lean definition from the variables in scope to the
//! variables the loop may assign:
//!
//! ```text
//! while let Some(x) = e { BODY }        def F.loopN : Nat → T1 → … → Tn → Res (M1 × … × Mk)
//! while c { BODY }                        | 0, … => Res.panic                    -- out of fuel
//!                                         | fuel+1, v1, …, vn => match e with
//!                                             | some x => ⟦BODY⟧ ; F.loopN fuel v1' … vn'
//!                                             | none => Res.ok (m1, …, mk)
//! for x in list { BODY }                def F.forN : List α → T1 → … → Tn → [Res] (M1 × … × Mk)
//!                                         | [], … => (m1, …, mk)
//!                                         | x :: xs, v1, …, vn => ⟦BODY⟧ ; F.forN xs v1' … vn'
//! ```
//!
//! `break` yields the current values of the assigned variables, `continue` is the recursive call,
//! `return Err(e)` / `?` is `Res.err e` (any other `return` inside a loop is refused).  A `while`
//! loop has no structural measure, so it is driven by fuel; the caller passes
//! `Σ length(subtag iterators in scope) + 2`, and the equality theorem with the fuel-free model
//! definition shows that this is always enough (out of fuel is `Res.panic`, which the model
//! never returns).  After the loop the caller goes on with the returned values.

use crate::doc::Doc;
use crate::tr_core::*;
use crate::tr_stmt::*;
use crate::types::*;
use std::collections::BTreeSet;
use syn::visit::Visit;

pub struct LoopCtx {
    pub name: String,
    /// every declaration passed to the loop definition (in declaration order)
    pub vars: Vec<u32>,
    /// the declarations it returns
    pub mutated: Vec<u32>,
    pub fuel: bool,
    /// `for`: the Lean name of the remaining list
    pub rest_list: Option<String>,
    /// `for x in iter` over the subtag iterator: its declaration (hidden inside the body)
    pub over_iter: Option<u32>,
    /// is the definition's result a `Res`?
    pub res: bool,
}

pub fn tuple_term(parts: &[String]) -> String {
    match parts.len() {
        0 => "()".to_string(),
        1 => parts[0].clone(),
        _ => format!("({})", parts.join(", ")),
    }
}

const MUTATING_METHODS: &[&str] = &[
    "push", "sort_unstable", "sort", "dedup", "insert", "remove", "clear", "next", "retain", "pop", "truncate",
    "extend", "write_str", "write_char", "write_fmt", "peek", "fmt", "append", "drain", "swap", "reverse",
];

/// Names that the code may assign: the root of an assignment's left side, the root of the
/// receiver of a mutating method, every name that is passed by `&mut`, to a call, or written to
/// by `write!`.  A superset is harmless (the loop returns a variable it did not change).
struct Assigned {
    names: BTreeSet<String>,
}

fn root_ident(e: &syn::Expr) -> Option<String> {
    match e {
        syn::Expr::Path(p) if p.path.segments.len() == 1 => Some(p.path.segments[0].ident.to_string()),
        syn::Expr::Field(f) => root_ident(&f.base),
        syn::Expr::Paren(p) => root_ident(&p.expr),
        syn::Expr::Group(p) => root_ident(&p.expr),
        syn::Expr::Reference(r) => root_ident(&r.expr),
        syn::Expr::Unary(u) if matches!(u.op, syn::UnOp::Deref(_)) => root_ident(&u.expr),
        syn::Expr::Index(i) => root_ident(&i.expr),
        _ => None,
    }
}

impl<'ast> Visit<'ast> for Assigned {
    fn visit_expr_assign(&mut self, a: &'ast syn::ExprAssign) {
        if let Some(n) = root_ident(&a.left) {
            self.names.insert(n);
        }
        syn::visit::visit_expr_assign(self, a);
    }
    fn visit_expr_binary(&mut self, b: &'ast syn::ExprBinary) {
        use syn::BinOp::*;
        if matches!(b.op, AddAssign(_) | SubAssign(_) | MulAssign(_) | DivAssign(_) | RemAssign(_) | BitAndAssign(_) | BitOrAssign(_) | BitXorAssign(_) | ShlAssign(_) | ShrAssign(_)) {
            if let Some(n) = root_ident(&b.left) {
                self.names.insert(n);
            }
        }
        syn::visit::visit_expr_binary(self, b);
    }
    fn visit_expr_method_call(&mut self, m: &'ast syn::ExprMethodCall) {
        if MUTATING_METHODS.contains(&m.method.to_string().as_str()) {
            if let Some(n) = root_ident(&m.receiver) {
                self.names.insert(n);
            }
        }
        // arguments that are plain names may be `&mut` parameters of the callee
        for a in &m.args {
            if let Some(n) = root_ident(a) {
                self.names.insert(n);
            }
        }
        syn::visit::visit_expr_method_call(self, m);
    }
    fn visit_expr_call(&mut self, c: &'ast syn::ExprCall) {
        for a in &c.args {
            if let Some(n) = root_ident(a) {
                self.names.insert(n);
            }
        }
        syn::visit::visit_expr_call(self, c);
    }
    fn visit_expr_reference(&mut self, r: &'ast syn::ExprReference) {
        if r.mutability.is_some() {
            if let Some(n) = root_ident(&r.expr) {
                self.names.insert(n);
            }
        }
        syn::visit::visit_expr_reference(self, r);
    }
    fn visit_macro(&mut self, m: &'ast syn::Macro) {
        // `write!(f, ..)`: the first token is the sink
        if let Some(proc_macro2::TokenTree::Ident(i)) = m.tokens.clone().into_iter().next() {
            self.names.insert(i.to_string());
        }
    }
    fn visit_expr_for_loop(&mut self, f: &'ast syn::ExprForLoop) {
        if let Some(n) = root_ident(&f.expr) {
            self.names.insert(n);
        }
        syn::visit::visit_expr_for_loop(self, f);
    }
}

pub fn assigned_names(b: &syn::Block) -> BTreeSet<String> {
    let mut a = Assigned { names: BTreeSet::new() };
    a.visit_block(b);
    a.names
}

impl<'a> Tr<'a> {
    fn next_aux(&mut self, kind: &str) -> String {
        self.aux_n += 1;
        format!("{}.{}{}", self.target.lean, kind, self.aux_n)
    }

    /// The declarations a loop definition takes as parameters: everything in scope that has a
    /// value (ranges and units are translation-time only).
    fn loop_vars(&self, env: &Env) -> Vec<(u32, String, Val)> {
        env.decls().into_iter().filter(|(_, _, v)| !matches!(v.ty, Ty::Range | Ty::Unit)).collect()
    }

    fn decl_type(&mut self, d: u32, v: &Val) -> R<String> {
        let ty = match self.decl_ty.get(&d) {
            Some(t) if contains_infer(&v.ty) => t.clone(),
            _ => v.ty.clone(),
        };
        if contains_infer(&ty) {
            return self.unsup("a variable that is passed to a loop has a type that could not be inferred");
        }
        self.lean_ty(&ty)
    }

    fn args_of(&self, ctx_vars: &[u32], env: &Env) -> R<Vec<String>> {
        let mut out = Vec::new();
        for d in ctx_vars {
            match env.val_of(*d) {
                Some(v) => out.push(v.t.clone()),
                None => return Err("internal: a loop variable is not in scope".into()),
            }
        }
        Ok(out)
    }

    /// `break`, and leaving the loop because its condition failed.
    pub fn loop_exit_term(&mut self, env: &Env, rest_for_iter: Option<String>) -> R<Doc> {
        let (mutated, res, over_iter) = match self.loops.last() {
            Some(c) => (c.mutated.clone(), c.res, c.over_iter),
            None => return self.unsup("`break` outside a loop"),
        };
        let mut parts = Vec::new();
        for d in &mutated {
            if Some(*d) == over_iter {
                parts.push(rest_for_iter.clone().unwrap_or_else(|| "[]".to_string()));
                continue;
            }
            match env.val_of(*d) {
                Some(v) => parts.push(v.t.clone()),
                None => return self.unsup("internal: a loop variable is not in scope"),
            }
        }
        let t = tuple_term(&parts);
        Ok(Doc::Atom(if res { format!("Res.ok {}", t) } else { t }))
    }

    pub fn loop_break(&mut self, env: &Env) -> R<Doc> {
        let rest = self.loops.last().and_then(|c| if c.over_iter.is_some() { c.rest_list.clone() } else { None });
        self.loop_exit_term(env, rest)
    }

    pub fn loop_continue(&mut self, env: &Env) -> R<Doc> {
        let (name, vars, fuel, rest_list) = match self.loops.last() {
            Some(c) => (c.name.clone(), c.vars.clone(), c.fuel, c.rest_list.clone()),
            None => return self.unsup("`continue` outside a loop"),
        };
        let mut args = Vec::new();
        if fuel {
            args.push("fuel".to_string());
        }
        if let Some(r) = rest_list {
            args.push(r);
        }
        args.extend(self.args_of(&vars, env)?);
        Ok(Doc::Atom(format!("UL.Src.{} {}", name, args.join(" "))))
    }

    /// Common part: parameters, the body, the definition text, the call and the rest of the block.
    #[allow(clippy::too_many_arguments)]
    fn emit_loop(
        &mut self,
        kind: &str,
        body_block: &syn::Block,
        env: &Env,
        // `for`: (Lean type of the elements, the list term, the declaration of the iterator if the loop runs over it)
        for_list: Option<(String, String, Option<u32>)>,
        // builds the definition's body from the environment of the parameters
        build: &dyn Fn(&mut Tr<'a>, &Env) -> R<Doc>,
        rest: &[syn::Stmt],
        in_fn_tail: bool,
        k: K<'_, 'a>,
    ) -> R<Doc> {
        if self.pure_only > 0 {
            return self.unsup("a loop inside an operand or closure");
        }
        let fuel = for_list.is_none();
        let res = self.mode == Mode::Res;
        if fuel && !res {
            return self.unsup("a `while` loop in a function whose model type has no panic value (out of fuel cannot be represented)");
        }
        let vars = self.loop_vars(env);
        let over_iter = for_list.as_ref().and_then(|x| x.2);
        // the same loop reached again (the code before it branched): its definition exists
        let cache_key = (body_block as *const syn::Block as usize, vars.iter().map(|x| x.1.clone()).collect::<Vec<_>>());
        if let Some((name, mut_names)) = self.loop_cache.get(&cache_key).cloned() {
            let mutated: Vec<u32> = vars.iter().filter(|(_, n, _)| mut_names.contains(n)).map(|x| x.0).collect();
            return self.loop_call_and_rest(&name, &vars, &mutated, fuel, res, &for_list, env, rest, in_fn_tail, k);
        }
        let name = self.next_aux(kind);
        // what may be assigned
        let assigned = assigned_names(body_block);
        let mut mutated: Vec<u32> = Vec::new();
        for (d, n, _) in &vars {
            if Some(*d) == over_iter || (assigned.contains(n) && env.decl_of(n) == Some(*d)) {
                mutated.push(*d);
            }
        }
        // parameters
        let mut env_p = env.clone();
        let mut pnames: Vec<(u32, String)> = Vec::new();
        for (d, n, v) in &vars {
            let ln = self.fresh(n);
            env_p.assign(*d, Val::pure_(ln.clone(), v.ty.clone()));
            pnames.push((*d, ln));
        }
        let rest_list = if for_list.is_some() { Some(self.fresh("rest")) } else { None };
        self.loops.push(LoopCtx {
            name: name.clone(),
            vars: vars.iter().map(|x| x.0).collect(),
            mutated: mutated.clone(),
            fuel,
            rest_list: rest_list.clone(),
            over_iter,
            res,
        });
        let saved_pending = std::mem::take(&mut self.pending);
        let body = build(self, &env_p);
        self.pending = saved_pending;
        self.loops.pop();
        let body = body?;
        // ---- the definition
        let mut ptys: Vec<String> = Vec::new();
        for (d, _, v) in &vars {
            ptys.push(self.decl_type(*d, v)?);
        }
        let mut mtys: Vec<String> = Vec::new();
        for d in &mutated {
            let v = env.val_of(*d).cloned().unwrap();
            mtys.push(self.decl_type(*d, &v)?);
        }
        let atom = |s: &String| if s.contains(' ') { format!("({})", s) } else { s.clone() };
        let out_ty = match mtys.len() {
            0 => "Unit".to_string(),
            1 => mtys[0].clone(),
            _ => mtys.iter().map(atom).collect::<Vec<_>>().join(" × "),
        };
        let out_ty = if res { format!("Res {}", atom(&out_ty)) } else { out_ty };
        let pats: Vec<String> = pnames.iter().map(|x| x.1.clone()).collect();
        let wild: Vec<String> = pnames.iter().map(|_| "_".to_string()).collect();
        let mut text = String::new();
        let mut sig: Vec<String> = Vec::new();
        if fuel {
            sig.push("Nat".into());
        }
        if let Some((elt, _, _)) = &for_list {
            sig.push(format!("List {}", atom(elt)));
        }
        sig.extend(ptys.iter().map(|t| if t.contains('→') || t.contains(' ') { format!("({})", t) } else { t.clone() }));
        sig.push(out_ty);
        text.push_str(&format!("/-- a loop of `{}` -/\ndef {} : {}\n", self.target.func, name, sig.join(" → ")));
        if fuel {
            let mut w = vec!["0".to_string()];
            w.extend(wild.iter().cloned());
            text.push_str(&format!("  | {} => Res.panic\n", w.join(", ")));
            let mut p = vec!["fuel + 1".to_string()];
            p.extend(pats.iter().cloned());
            text.push_str(&format!("  | {} =>\n    {}\n", p.join(", "), body.render(4)));
        } else {
            // the body Doc is a `match` on the list written by `build`; here: two equations
            let mut p = vec!["LIST".to_string()];
            p.extend(pats.iter().cloned());
            text.push_str(&format!("  | {} =>\n    {}\n", p.join(", "), body.render(4)));
        }
        self.aux.push(text);
        let mut_names: Vec<String> = vars.iter().filter(|x| mutated.contains(&x.0)).map(|x| x.1.clone()).collect();
        self.loop_cache.insert(cache_key, (name.clone(), mut_names));
        self.loop_call_and_rest(&name, &vars, &mutated, fuel, res, &for_list, env, rest, in_fn_tail, k)
    }

    /// The call of a loop definition and the rest of the enclosing block with the returned values.
    #[allow(clippy::too_many_arguments)]
    fn loop_call_and_rest(
        &mut self,
        name: &str,
        vars: &[(u32, String, Val)],
        mutated: &[u32],
        fuel: bool,
        res: bool,
        for_list: &Option<(String, String, Option<u32>)>,
        env: &Env,
        rest: &[syn::Stmt],
        in_fn_tail: bool,
        k: K<'_, 'a>,
    ) -> R<Doc> {
        // the rest of the enclosing block, with the returned values
        let mut env_after = env.clone();
        let mut out_names: Vec<String> = Vec::new();
        for d in mutated {
            let (n, ty) = match (env.name_of(*d), env.val_of(*d)) {
                (Some(n), Some(v)) => (n.to_string(), v.ty.clone()),
                _ => return self.unsup("internal: loop variable"),
            };
            let ln = self.fresh(&n);
            // the type may have been refined inside the loop
            let ty = match self.decl_ty.get(d) {
                Some(t) if contains_infer(&ty) => t.clone(),
                _ => ty,
            };
            env_after.assign(*d, Val::pure_(ln.clone(), ty));
            out_names.push(ln);
        }
        let after = self.tr_block(rest, &env_after, in_fn_tail, k)?;
        // ---- the call
        let mut args: Vec<String> = Vec::new();
        if fuel {
            let mut lens: Vec<String> = Vec::new();
            for (_, _, v) in vars {
                if v.ty == Ty::IterB {
                    lens.push(format!("List.length {}", v.t));
                }
            }
            if lens.is_empty() {
                return self.unsup("a `while` loop without a subtag iterator in scope (no termination measure to derive the fuel from)");
            }
            lens.push("2".into());
            args.push(format!("({})", lens.join(" + ")));
        }
        if let Some((_, l, _)) = &for_list {
            args.push(l.clone());
        }
        args.extend(self.args_of(&vars.iter().map(|x| x.0).collect::<Vec<_>>(), env)?);
        let call = format!("(UL.Src.{} {})", name, args.join(" "));
        let binder = match out_names.len() {
            0 => "_".to_string(),
            1 => out_names[0].clone(),
            _ => self.fresh("out"),
        };
        let inner = if out_names.len() > 1 {
            Doc::Match(binder.clone(), vec![(format!("({})", out_names.join(", ")), after)])
        } else {
            after
        };
        if res {
            Ok(Doc::Bind(Box::new(Doc::Atom(call)), binder, Box::new(inner)))
        } else {
            Ok(Doc::Let(binder, call, Box::new(inner)))
        }
    }

    pub fn tr_while(&mut self, w: &syn::ExprWhile, rest: &[syn::Stmt], env: &Env, in_fn_tail: bool, k: K<'_, 'a>) -> R<Doc> {
        if w.label.is_some() || !w.attrs.is_empty() {
            return self.unsup("labelled loop");
        }
        let build = |me: &mut Tr<'a>, env_p: &Env| -> R<Doc> {
            let k_cont = |me2: &mut Tr<'a>, _v: Val, env_end: &Env| me2.loop_continue(env_end);
            if let syn::Expr::Let(l) = &*w.cond {
                // `while let Some(x) = e`
                let s = me.tr_expr(&l.expr, env_p, None)?;
                if s.eff() || s.callres || !me.pending.is_empty() {
                    return me.unsup("`while let` on an expression that may panic or that changes a variable");
                }
                let inner = match &s.ty {
                    Ty::Opt(t) => (**t).clone(),
                    t => return me.unsup(format!("`while let` on {:?}", t)),
                };
                let mut p: &syn::Pat = &l.pat;
                while let syn::Pat::Paren(pp) = p {
                    p = &pp.pat;
                }
                let sub = match p {
                    syn::Pat::TupleStruct(ts) if ts.path.is_ident("Some") && ts.elems.len() == 1 => &ts.elems[0],
                    _ => return me.unsup("`while let` with a pattern other than `Some(x)`"),
                };
                let mut env_b = env_p.clone();
                let pat = match sub {
                    syn::Pat::Ident(pi) if pi.subpat.is_none() && pi.mutability.is_none() => {
                        let ln = me.fresh(&pi.ident.to_string());
                        env_b.insert(pi.ident.to_string(), Val::pure_(ln.clone(), inner));
                        format!("some {}", ln)
                    }
                    syn::Pat::Wild(_) => "some _".to_string(),
                    _ => return me.unsup("nested pattern in `while let Some(..)`"),
                };
                let body = me.tr_block(&w.body.stmts, &env_b, false, &k_cont)?;
                let exit = me.loop_exit_term(env_p, None)?;
                return Ok(Doc::Match(s.t, vec![(pat, body), ("none".to_string(), exit)]));
            }
            let c = me.tr_expr(&w.cond, env_p, Some(&Ty::Bool))?;
            if c.ty != Ty::Bool || c.eff() || c.callres || !me.pending.is_empty() {
                return me.unsup("`while` condition that is not a pure bool");
            }
            let body = me.tr_block(&w.body.stmts, env_p, false, &k_cont)?;
            let exit = me.loop_exit_term(env_p, None)?;
            Ok(Doc::If(c.t, Box::new(body), Box::new(exit)))
        };
        self.emit_loop("loop", &w.body, env, None, &build, rest, in_fn_tail, k)
    }

    pub fn tr_for(&mut self, f: &syn::ExprForLoop, rest: &[syn::Stmt], env: &Env, in_fn_tail: bool, k: K<'_, 'a>) -> R<Doc> {
        if f.label.is_some() || !f.attrs.is_empty() {
            return self.unsup("labelled loop");
        }
        // what is iterated
        let mut e: &syn::Expr = &f.expr;
        loop {
            match e {
                syn::Expr::Reference(r) => e = &r.expr,
                syn::Expr::Paren(p) => e = &p.expr,
                syn::Expr::Group(p) => e = &p.expr,
                _ => break,
            }
        }
        let lv = self.tr_expr(e, env, None)?;
        if lv.eff() || lv.callres || !self.pending.is_empty() {
            return self.unsup("`for` over an expression that may panic or that changes a variable");
        }
        let (elt_ty, over_iter): (Ty, Option<u32>) = match &lv.ty {
            Ty::List(t) | Ty::Iter(t) => ((**t).clone(), None),
            Ty::Map => (Ty::Tuple(vec![Ty::Tiny(4), Ty::List(Box::new(Ty::Tiny(8)))]), None),
            Ty::IterB => {
                let d = match e {
                    syn::Expr::Path(p) if p.path.segments.len() == 1 => env.decl_of(&p.path.segments[0].ident.to_string()),
                    _ => None,
                };
                match d {
                    Some(d) => (Ty::Slice, Some(d)),
                    None => return self.unsup("`for` over a subtag iterator that is not a variable"),
                }
            }
            t => return self.unsup(format!("`for` over {:?}", t)),
        };
        let elt_lean = self.lean_ty(&elt_ty)?;
        let pat = (*f.pat).clone();
        let build = |me: &mut Tr<'a>, env_p: &Env| -> R<Doc> {
            let k_cont = |me2: &mut Tr<'a>, _v: Val, env_end: &Env| me2.loop_continue(env_end);
            let rest_name = me.loops.last().and_then(|c| c.rest_list.clone()).unwrap_or_else(|| "rest".into());
            let mut env_b = env_p.clone();
            if over_iter.is_some() {
                if let syn::Expr::Path(p) = e {
                    env_b.hide(&p.path.segments[0].ident.to_string());
                }
            }
            let mut p: &syn::Pat = &pat;
            loop {
                match p {
                    syn::Pat::Paren(pp) => p = &pp.pat,
                    syn::Pat::Reference(r) => p = &r.pat,
                    _ => break,
                }
            }
            let head = match (p, &elt_ty) {
                (syn::Pat::Ident(pi), _) if pi.subpat.is_none() => {
                    let ln = me.fresh(&pi.ident.to_string());
                    env_b.insert(pi.ident.to_string(), Val::pure_(ln.clone(), elt_ty.clone()));
                    ln
                }
                (syn::Pat::Wild(_), _) => "_".to_string(),
                (syn::Pat::Tuple(t), Ty::Tuple(tys)) if t.elems.len() == tys.len() => {
                    let mut ns = Vec::new();
                    for (q, ty) in t.elems.iter().zip(tys.iter()) {
                        match q {
                            syn::Pat::Ident(pi) if pi.subpat.is_none() => {
                                let ln = me.fresh(&pi.ident.to_string());
                                env_b.insert(pi.ident.to_string(), Val::pure_(ln.clone(), ty.clone()));
                                ns.push(ln);
                            }
                            syn::Pat::Wild(_) => ns.push("_".into()),
                            _ => return me.unsup("nested pattern in a `for` pattern"),
                        }
                    }
                    format!("({})", ns.join(", "))
                }
                _ => return me.unsup("`for` pattern"),
            };
            let body = me.tr_block(&f.body.stmts, &env_b, false, &k_cont)?;
            let exit = me.loop_exit_term(env_p, None)?;
            Ok(Doc::Match("LIST".into(), vec![("[]".to_string(), exit), (format!("{} :: {}", head, rest_name), body)]))
        };
        let r = self.emit_loop("for", &f.body, env, Some((elt_lean, lv.t.clone(), over_iter)), &build, rest, in_fn_tail, k)?;
        Ok(r)
    }
}
