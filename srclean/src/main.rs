//! srclean — translate the loop-free target functions of unic-locale into Lean 4 definitions.
//!
//! `srclean <repo-root> [--module Src|SrcMatch|SrcExtType] [--out-dir DIR]`
//!
//! stdout: the Lean module (default `Src`); stderr: a JSON object with one entry per target.
//! With `--out-dir`, every module is also written to `DIR/<module>.lean`.

mod cfgres;
mod config;
mod doc;
mod sha256;
mod tr_core;
mod tr_expr;
mod tr_loop;
mod tr_macro;
mod tr_serde;
mod tr_method;
mod tr_mut;
mod tr_pat;
mod tr_stmt;
mod types;

use config::{ModuleCfg, Target, MODULES, TARGETS};
use std::collections::{BTreeMap, BTreeSet, HashMap};
use tr_core::*;
use types::*;

struct Outcome {
    ok: bool,
    reason: String,
    rust: String,
    sha: String,
    text: String, // the `def` or the `-- UNTRANSLATED` comment
    contracts: Vec<String>,
}

fn find_fn<'r>(reg: &'r Registry, t: &Target) -> R<(&'r syn::Signature, &'r syn::Block, String)> {
    let f = reg.file(t.file)?;
    match t.imp {
        None => {
            let mut hits = Vec::new();
            for it in &f.items {
                if let syn::Item::Fn(func) = it {
                    if func.sig.ident == t.func {
                        hits.push(func);
                    }
                }
            }
            match hits.len() {
                0 => Err(format!("function `{}` not found in {}", t.func, t.file)),
                1 => {
                    let func = hits[0];
                    if has_cfg(&func.attrs) {
                        return Err(format!("function `{}` is conditionally compiled (#[cfg])", t.func));
                    }
                    let toks = format!("{} {}", norm_tokens(&func.sig), norm_tokens(&func.block));
                    Ok((&func.sig, &func.block, toks))
                }
                _ => Err(format!("function `{}` is defined more than once (cfg variants?)", t.func)),
            }
        }
        Some(imp) => {
            let mut hits = Vec::new();
            for it in &f.items {
                if let syn::Item::Impl(im) = it {
                    // `Display for X` selects the trait impl, a plain name the inherent impls
                    let (want_trait, imp) = match imp.split_once(" for ") {
                        Some((t, x)) => (Some(t), x),
                        None => (None, imp),
                    };
                    // the trait with its generic arguments (`PartialEq<&str>`), without a module prefix
                    let has_trait = im.trait_.as_ref().map(|(_, p, _)| p.segments.last().map(|s| norm_tokens(s).replace(' ', "")).unwrap_or_default());
                    let want_trait = want_trait.map(|w| w.replace(' ', ""));
                    if has_trait != want_trait {
                        continue;
                    }
                    let name = match &*im.self_ty {
                        // `impl From<Language> for Option<u64>`: the whole type text
                        syn::Type::Path(p) if imp.contains('<') => norm_tokens(p).replace(' ', ""),
                        syn::Type::Path(p) => p.path.segments.last().map(|s| s.ident.to_string()).unwrap_or_default(),
                        _ => String::new(),
                    };
                    if name != imp {
                        continue;
                    }
                    // `impl<T> .. where T: AsRef<[u8]>`: a byte-string parameter (registered by translate_fn through IMPL_BYTESLIKE)
                    let gen_ok = im.generics.params.iter().all(|g| match g {
                        syn::GenericParam::Lifetime(_) => true,
                        syn::GenericParam::Type(tp) => {
                            let n = tp.ident.to_string();
                            let w = im.generics.where_clause.as_ref().map(|w| norm_tokens(w).replace(' ', "")).unwrap_or_default();
                            let b = norm_tokens(&tp.bounds).replace(' ', "");
                            b == "AsRef<[u8]>" || w.contains(&format!("{}:AsRef<[u8]>", n))
                        }
                        _ => false,
                    });
                    if !gen_ok {
                        return Err(format!("`impl {}` has generic parameters", imp));
                    }
                    if has_cfg(&im.attrs) {
                        return Err(format!("an `impl {}` block is conditionally compiled (#[cfg])", imp));
                    }
                    for ii in &im.items {
                        if let syn::ImplItem::Fn(func) = ii {
                            if func.sig.ident == t.func {
                                hits.push(func);
                            }
                        }
                    }
                }
            }
            match hits.len() {
                0 => Err(format!("method `{}::{}` not found in {}", imp, t.func, t.file)),
                1 => {
                    let func = hits[0];
                    if has_cfg(&func.attrs) {
                        return Err(format!("method `{}::{}` is conditionally compiled (#[cfg])", imp, t.func));
                    }
                    let toks = format!("{} {}", norm_tokens(&func.sig), norm_tokens(&func.block));
                    Ok((&func.sig, &func.block, toks))
                }
                _ => Err(format!("method `{}::{}` is defined more than once (cfg variants?)", imp, t.func)),
            }
        }
    }
}

fn has_cfg(attrs: &[syn::Attribute]) -> bool {
    // `#[cfg(feature = "likelysubtags")]` items exist in the configuration the targets are translated for
    attrs.iter().any(|a| (a.path().is_ident("cfg") && norm_tokens(a).replace(' ', "") != "#[cfg(feature=\"likelysubtags\")]") || a.path().is_ident("cfg_attr"))
}

fn norm_ws(s: &str) -> String {
    s.split_whitespace().collect::<Vec<_>>().join(" ")
}

fn translate_one(
    reg: &Registry,
    module: &ModuleCfg,
    t: &Target,
    done: &BTreeMap<String, FnSig>,
    failed: &BTreeMap<String, String>,
    cfg_features: &Option<Vec<String>>,
) -> (Outcome, Option<FnSig>) {
    let rust = match t.imp {
        Some(i) => format!("{}::{}::{}", t.file, i, t.func),
        None => format!("{}::{}", t.file, t.func),
    };
    if t.group == "ListMacros" {
        return translate_list_macro_target(reg, module, t, done, failed, cfg_features, rust);
    }
    let (sig, block, toks) = match find_fn(reg, t) {
        Ok(x) => x,
        Err(e) => {
            return (
                Outcome { ok: false, reason: e.clone(), rust, sha: String::new(), text: format!("-- UNTRANSLATED {}: {}\n", t.lean, e), contracts: Vec::new() },
                None,
            )
        }
    };
    let mut tr = Tr {
        reg,
        module,
        target: t,
        file: t.file,
        self_ty: t.imp.map(|s| s.to_string()),
        tparams: HashMap::new(),
        mode: Mode::Pure,
        ret_ty: Ty::Unit,
        pure_only: 0,
        used_names: BTreeSet::new(),
        deps: BTreeMap::new(),
        done,
        failed,
        pending: Vec::new(),
        decl_ty: HashMap::new(),
        decl_site: HashMap::new(),
        site_ty: HashMap::new(),
        first_pass: false,
        loop_cache: HashMap::new(),
        aux: Vec::new(),
        aux_n: 0,
        loops: Vec::new(),
        outs: Vec::new(),
        self_out: None,
        ret_unit: false,
        plain_res: false,
        uses_t: false,
        uses_l: false,
        features: cfg_features.clone().unwrap_or_else(|| config::features_of(t.lean)),
        contracts: BTreeSet::new(),
    };
    if let Some(i) = t.imp {
        if let Some((tr_name, x)) = i.split_once(" for ") {
            tr.self_ty = Some(x.to_string());
            // `impl<T> TryFrom<Option<T>> for X where T: AsRef<[u8]>` (checked by find_fn): `T` is a byte string
            if tr_name.contains("<Option<T>>") {
                tr.tparams.insert("T".to_string(), TParam::BytesLike);
            }
        }
    }
    let res = if t.group == "Macros" {
        tr_macro::translate_macro_fn(&mut tr, sig, block)
    } else if t.group == "Serde" && t.func == "serialize" {
        tr_serde::translate_serialize(&mut tr, sig, block)
    } else if t.group == "Serde" {
        tr_serde::translate_deserialize(&mut tr, sig, block)
    } else {
        translate_fn(&mut tr, sig, block)
    };
    // hash: the item, and every source item that was consulted to translate it
    let mut hashed = toks;
    for (k, v) in &tr.deps {
        hashed.push_str("\n");
        hashed.push_str(k);
        hashed.push_str(" = ");
        hashed.push_str(v);
    }
    let sha = sha256::sha256_hex(hashed.as_bytes());
    match res {
        Ok((text, fsig)) => (Outcome { ok: true, reason: String::new(), rust, sha, text, contracts: tr.contracts.iter().cloned().collect() }, Some(fsig)),
        Err(e) => {
            let e1 = norm_ws(&e);
            (Outcome { ok: false, reason: e1.clone(), rust, sha, text: format!("-- UNTRANSLATED {}: {}\n", t.lean, e1), contracts: Vec::new() }, None)
        }
    }
}

fn new_tr<'a>(
    reg: &'a Registry,
    module: &'a ModuleCfg,
    t: &'a Target,
    done: &'a BTreeMap<String, FnSig>,
    failed: &'a BTreeMap<String, String>,
    cfg_features: &Option<Vec<String>>,
) -> Tr<'a> {
    Tr {
        reg,
        module,
        target: t,
        file: t.file,
        self_ty: t.imp.map(|s| s.to_string()),
        tparams: HashMap::new(),
        mode: Mode::Pure,
        ret_ty: Ty::Unit,
        pure_only: 0,
        used_names: BTreeSet::new(),
        deps: BTreeMap::new(),
        done,
        failed,
        pending: Vec::new(),
        decl_ty: HashMap::new(),
        decl_site: HashMap::new(),
        site_ty: HashMap::new(),
        first_pass: false,
        loop_cache: HashMap::new(),
        aux: Vec::new(),
        aux_n: 0,
        loops: Vec::new(),
        outs: Vec::new(),
        self_out: None,
        ret_unit: false,
        plain_res: false,
        uses_t: false,
        uses_l: false,
        features: cfg_features.clone().unwrap_or_else(|| config::features_of(t.lean)),
        contracts: BTreeSet::new(),
    }
}

fn translate_list_macro_target(
    reg: &Registry,
    module: &ModuleCfg,
    t: &Target,
    done: &BTreeMap<String, FnSig>,
    failed: &BTreeMap<String, String>,
    cfg_features: &Option<Vec<String>>,
    rust: String,
) -> (Outcome, Option<FnSig>) {
    let mut tr = new_tr(reg, module, t, done, failed, cfg_features);
    let res = tr_macro::translate_list_macro(&mut tr);
    // hash: the macro item's tokens
    let mut hashed = String::new();
    if let Ok(f) = reg.file(t.file) {
        for it in &f.items {
            if let syn::Item::Macro(m) = it {
                if m.ident.as_ref().map(|i| i == t.func).unwrap_or(false) {
                    hashed.push_str(&norm_tokens(m));
                }
            }
        }
    }
    let sha = sha256::sha256_hex(hashed.as_bytes());
    match res {
        Ok((text, fsig)) => (Outcome { ok: true, reason: String::new(), rust, sha, text, contracts: tr.contracts.iter().cloned().collect() }, Some(fsig)),
        Err(e) => {
            let e1 = norm_ws(&e);
            (Outcome { ok: false, reason: e1.clone(), rust, sha, text: format!("-- UNTRANSLATED {}: {}\n", t.lean, e1), contracts: Vec::new() }, None)
        }
    }
}

fn bound_name(b: &syn::TypeParamBound) -> Option<(String, Vec<String>)> {
    if let syn::TypeParamBound::Trait(tb) = b {
        let last = tb.path.segments.last()?;
        let mut args = Vec::new();
        if let syn::PathArguments::AngleBracketed(a) = &last.arguments {
            for g in &a.args {
                if let syn::GenericArgument::Type(syn::Type::Path(p)) = g {
                    args.push(p.path.segments.last().map(|s| s.ident.to_string()).unwrap_or_default());
                } else if let syn::GenericArgument::Type(syn::Type::Slice(sl)) = g {
                    args.push(format!("[{}]", norm_tokens(&*sl.elem)));
                } else {
                    args.push("?".into());
                }
            }
        }
        return Some((last.ident.to_string(), args));
    }
    None
}

fn translate_fn(tr: &mut Tr, sig: &syn::Signature, block: &syn::Block) -> R<(String, FnSig)> {
    let t = tr.target;
    // (`unsafe fn`: what the function computes is translated; the contracts of the unsafe operations it uses are in the
    // translator's table)
    if sig.asyncness.is_some() {
        return Err("`async fn`".into());
    }
    if sig.variadic.is_some() {
        return Err("variadic function".into());
    }
    if sig.generics.where_clause.is_some() {
        return Err("`where` clause".into());
    }
    // ---- type parameters
    for gp in &sig.generics.params {
        match gp {
            syn::GenericParam::Lifetime(_) => {}
            syn::GenericParam::Const(_) => return Err("const generic parameter".into()),
            syn::GenericParam::Type(tp) => {
                let name = tp.ident.to_string();
                let bounds: Vec<(String, Vec<String>)> = tp.bounds.iter().filter_map(bound_name).collect();
                if bounds.len() != tp.bounds.len() {
                    return Err(format!("bound on type parameter `{}`", name));
                }
                let self_name = tr.self_ty.clone().unwrap_or_default();
                let selflike = bounds.len() == 1
                    && (bounds[0].0 == "Borrow" || bounds[0].0 == "AsRef")
                    && bounds[0].1.len() == 1
                    && (bounds[0].1[0] == "Self" || (!self_name.is_empty() && bounds[0].1[0] == self_name));
                if bounds.len() == 1 && bounds[0].0 == "AsRef" && bounds[0].1 == vec!["[u8]".to_string()] {
                    tr.tparams.insert(name, TParam::BytesLike);
                    continue;
                }
                if selflike {
                    // `other.borrow()` / `other.as_ref()` yield a `&Self`; the parameter is
                    // modelled as a `Self` (for `AsRef` the identity impl is checked at the use)
                    tr.tparams.insert(name, TParam::SelfLike);
                    continue;
                }
                let inst = t.generics.iter().find(|(p, _)| *p == name);
                let only_eq = !bounds.is_empty()
                    && bounds.iter().all(|(b, a)| a.is_empty() && ["PartialEq", "Eq", "Clone", "Copy", "Debug"].contains(&b.as_str()))
                    && bounds.iter().any(|(b, _)| b == "PartialEq");
                match (inst, only_eq) {
                    (Some((_, ty)), true) => {
                        let ty = match *ty {
                            "TinyStr4" => Ty::Tiny(4),
                            "TinyStr8" => Ty::Tiny(8),
                            other => return Err(format!("configuration: unknown instantiation `{}`", other)),
                        };
                        tr.tparams.insert(name, TParam::Inst(ty));
                    }
                    _ => return Err(format!("type parameter `{}` with bounds the translator cannot interpret", name)),
                }
            }
        }
    }
    // ---- parameters
    let mut env = Env::new();
    let mut params: Vec<(String, String)> = Vec::new(); // (lean name, lean type)
    let mut iter_param: Option<usize> = None;
    let mut mut_self = false;
    let mut out_tys: Vec<String> = Vec::new();
    for a in &sig.inputs {
        match a {
            syn::FnArg::Receiver(r) => {
                if r.mutability.is_some() && r.reference.is_none() {
                    return Err("`mut self`".into());
                }
                let ty = tr.self_named()?;
                let lt = tr.lean_ty(&ty)?;
                let ln = tr.fresh("self");
                let d = env.insert("self".into(), Val::pure_(ln.clone(), ty));
                if r.mutability.is_some() {
                    // `&mut self`: the new value is part of the result
                    tr.outs.push(d);
                    tr.self_out = Some(d);
                    mut_self = true;
                    out_tys.push(lt.clone());
                }
                params.push((ln, lt));
            }
            syn::FnArg::Typed(pt) => {
                let name = match &*pt.pat {
                    syn::Pat::Ident(pi) if pi.mutability.is_none() && pi.by_ref.is_none() && pi.subpat.is_none() => pi.ident.to_string(),
                    _ => return Err("parameter pattern (only plain, immutable names)".into()),
                };
                // `&mut Peekable<impl Iterator<Item = &[u8]>>`, `&mut impl Iterator<Item = &[u8]>`,
                // `&mut Formatter`
                let ty = match &*pt.ty {
                    syn::Type::Reference(r) if r.mutability.is_some() => {
                        let toks = norm_tokens(&*r.elem);
                        let is_iter = (toks.starts_with("Peekable < impl Iterator < Item = &") || toks.starts_with("impl Iterator < Item = &"))
                            && toks.contains("[u8]");
                        let is_fmt = toks.ends_with("Formatter") || toks.ends_with("Formatter < '_ >");
                        if is_iter {
                            Ty::IterB
                        } else if is_fmt {
                            Ty::Fmt
                        } else {
                            return Err(format!("parameter of type `&mut {}`", toks));
                        }
                    }
                    other => tr.resolve_ty(other)?,
                };
                let lt = tr.lean_ty(&ty)?;
                let ln = tr.fresh(&name);
                let is_out = matches!(ty, Ty::IterB | Ty::Fmt);
                let is_iter = ty == Ty::IterB;
                let d = env.insert(name, Val::pure_(ln.clone(), ty));
                if is_out {
                    if tr.outs.len() > if mut_self { 1 } else { 0 } {
                        return Err("more than one iterator / formatter parameter".into());
                    }
                    tr.outs.push(d);
                    out_tys.push(lt.clone());
                    if is_iter {
                        iter_param = Some(params.len());
                    }
                }
                params.push((ln, lt));
            }
        }
    }
    // ---- result
    let ret = match &sig.output {
        syn::ReturnType::Default => Ty::Unit,
        syn::ReturnType::Type(_, ty) => {
            let toks = norm_tokens(&**ty);
            if toks == "std :: fmt :: Result" || toks == "fmt :: Result" {
                Ty::FmtRes
            } else {
                tr.resolve_ty(ty)?
            }
        }
    };
    let atom = |s: &String| if s.contains(' ') { format!("({})", s) } else { s.clone() };
    // a plain result type whose model definition returns `Res`: the body may panic (`.unwrap()`, table indexing)
    let want_res = t.model_type.rsplit('→').next().map(|x| x.trim().starts_with("Res ")).unwrap_or(false);
    let (mode, inner) = match &ret {
        Ty::ResPE(x) => (Mode::Res, (**x).clone()),
        Ty::ResOpaque(_) => return Err("result type `Result<_, E>` with an error type that is not ParserError".into()),
        other if want_res => {
            tr.plain_res = true;
            (Mode::Res, other.clone())
        }
        other => (Mode::Pure, other.clone()),
    };
    tr.ret_unit = matches!(inner, Ty::Unit | Ty::FmtRes);
    let mut parts: Vec<String> = Vec::new();
    if mut_self {
        parts.push(out_tys[0].clone());
    }
    if !tr.ret_unit {
        parts.push(tr.lean_ty(&inner)?);
    }
    parts.extend(out_tys.iter().skip(if mut_self { 1 } else { 0 }).cloned());
    if parts.is_empty() {
        return Err("function without a result that changes nothing".into());
    }
    let tuple_ty = if parts.len() == 1 { parts[0].clone() } else { parts.iter().map(atom).collect::<Vec<_>>().join(" × ") };
    let ret_lean = if mode == Mode::Res { format!("Res {}", atom(&tuple_ty)) } else { tuple_ty };
    tr.mode = mode;
    tr.ret_ty = if tr.plain_res { Ty::ResPE(Box::new(ret.clone())) } else { ret.clone() };
    let ret = tr.ret_ty.clone();
    // ---- body
    // first pass: only to learn the types of variables declared as `None` / `vec![]`
    tr.first_pass = true;
    let saved_names = tr.used_names.clone();
    let _ = tr.tr_block(&block.stmts, &env, true, &|me: &mut Tr, v: Val, env1: &Env| me.k_ret(v, env1));
    tr.first_pass = false;
    tr.used_names = saved_names;
    tr.aux.clear();
    tr.aux_n = 0;
    tr.pending.clear();
    tr.loops.clear();
    tr.loop_cache.clear();
    tr.decl_ty.clear();
    tr.decl_site.clear();
    tr.pure_only = 0;
    let body = tr.tr_block(&block.stmts, &env, true, &|me: &mut Tr, v: Val, env1: &Env| me.k_ret(v, env1))?;
    if tr.uses_l {
        params.insert(0, ("L".to_string(), "Layout".to_string()));
    }
    if tr.uses_t {
        params.insert(0, ("T".to_string(), "Tables".to_string()));
    }
    // ---- the Lean type must be the model's
    let mut parts: Vec<String> = params.iter().map(|(_, t)| if t.contains('→') { format!("({})", t) } else { t.clone() }).collect();
    parts.push(ret_lean.clone());
    let lean_type = parts.join(" → ");
    let strip = |x: &str| norm_ws(&x.replace('(', " ").replace(')', " "));
    if strip(&lean_type) != strip(t.model_type) {
        return Err(format!("the signature gives the Lean type `{}`, the model definition {} has `{}`", lean_type, t.model, t.model_type));
    }
    let binders: Vec<String> = params.iter().map(|(n, t)| format!("({} : {})", n, t)).collect();
    let rust = match t.imp {
        Some(i) => format!("{}::{}", i, t.func),
        None => t.func.to_string(),
    };
    let mut aux_text = String::new();
    for a in &tr.aux {
        aux_text.push_str(&a.replace("LIST", "list_"));
        aux_text.push('\n');
    }
    let text = format!(
        "{}/-- `{}` in `{}` (to be compared with `{}`) -/\ndef {} {} : {} :=\n  {}\n",
        aux_text,
        rust,
        t.file,
        t.model,
        t.lean,
        binders.join(" "),
        ret_lean,
        body.render(2)
    );
    let fsig = FnSig {
        lean: t.lean.to_string(),
        params: params.iter().filter(|(n, _)| n != "T" && n != "L").map(|(_, t)| t.clone()).collect(),
        ret,
        mode,
        iter_param,
        mut_self,
        ret_unit: tr.ret_unit,
        plain_res: tr.plain_res,
        uses_t: tr.uses_t,
        uses_l: tr.uses_l,
        contracts: tr.contracts.iter().cloned().collect(),
    };
    Ok((text, fsig))
}

const PRELUDE: &str = r#"/-! ### Library contracts used by the translation (see srclean/README.md, "semantic mapping") -/

/-- `v[i]` on a slice: panics when out of range. -/
def idx (v : Bytes) (i : Nat) : Res Nat :=
  match v[i]? with
  | some x => Res.ok x
  | none => Res.panic
/-- `v[a..]`: panics when `a > v.len()`. -/
def sliceFrom (v : Bytes) (a : Nat) : Res Bytes :=
  if a ≤ v.length then Res.ok (v.drop a) else Res.panic
/-- `v[..b]`: panics when `b > v.len()`. -/
def sliceTo (v : Bytes) (b : Nat) : Res Bytes :=
  if b ≤ v.length then Res.ok (v.take b) else Res.panic
/-- `v[a..b]`: panics when `a > b` or `b > v.len()`. -/
def sliceRange (v : Bytes) (a b : Nat) : Res Bytes :=
  if a ≤ b ∧ b ≤ v.length then Res.ok ((v.take b).drop a) else Res.panic
/-- `TinyAsciiStr::<N>::from_bytes(v)` as an `Option` (the error value is never looked at). -/
def tinyFromBytes (n : Nat) (v : Bytes) : Option Bytes :=
  if tinyOk n v then some v else none
/-- `.map_err(|_| e)` on a result whose error is not observable / `.ok_or(e)`. -/
def okOr {α : Type} (o : Option α) (e : Err) : Res α :=
  match o with
  | some x => Res.ok x
  | none => Res.err e
/-- `.unwrap()` on an `Option`. -/
def unwrapOpt {α : Type} (o : Option α) : Res α :=
  match o with
  | some x => Res.ok x
  | none => Res.panic
/-- `bytes.split(p)`: the subtags between the bytes that satisfy `p` (never the empty list). -/
def splitOn (p : Nat → Bool) : Bytes → List Bytes
  | [] => [[]]
  | b :: t =>
    if p b then [] :: splitOn p t
    else match splitOn p t with
      | h :: r => (b :: h) :: r
      | [] => [[b]]
/-- `xs.iter().filter_map(|t| p(t).transpose()).collect::<Result<Vec<_>, _>>()`: the values in order, `Ok(None)`
    dropped, the first error (or panic) wins. -/
def collectOpt {α : Type} (p : Bytes → Res (Option α)) : List Bytes → Res (List α)
  | [] => Res.ok []
  | t :: ts =>
    match p t with
    | Res.err e => Res.err e
    | Res.panic => Res.panic
    | Res.ok o =>
      match collectOpt p ts with
      | Res.err e => Res.err e
      | Res.panic => Res.panic
      | Res.ok r => Res.ok (o.toList ++ r)
/-- `Vec::insert(i, x)`: panics when `i > len`. -/
def vecInsert {α : Type} (v : List α) (i : Nat) (x : α) : Res (List α) :=
  if i ≤ v.length then Res.ok (v.take i ++ x :: v.drop i) else Res.panic
/-- `Vec::remove(i)`: the removed element and the rest; panics when `i ≥ len`. -/
def vecRemove {α : Type} (v : List α) (i : Nat) : Res (α × List α) :=
  match v[i]? with
  | some x => Res.ok (x, v.eraseIdx i)
  | none => Res.panic
"#;

const LIKELY_PRELUDE: &str = r#"/-! ### Contracts of the generated tables (`likelysubtags/tables.rs`, `layout_table.rs`) as the translation uses them.
The tables themselves are the parameters `T : Tables`, `L : Layout` of the model; their content is read from the compiled
crate on every run (`Gen/Tables.lean`).  A row's value `(Option<u64>, Option<u32>, Option<u32>)` is stored by the table
translator as three numbers with `0 = None`, `n + 1 = Some(n)` (`optOf`). -/

/-- `TABLE.binary_search_by_key(&k, |(key, _)| key).ok()`: the index found by the toolchain's algorithm (`bsLoopA`). -/
def tblSearch1 (a : Array Row1) (k : Nat) : Option Nat :=
  if a.size == 0 then none
  else
    let base := bsLoopA a (fun x => cmpNat k x.k == 2) a.size 0 a.size
    match a[base]? with
    | some x => if cmpNat k x.k == 1 then some base else none
    | none => none
/-- `TABLE.binary_search_by_key(&(&k1, &k2), |(a, b, _)| (a, b)).ok()` -/
def tblSearch2 (a : Array Row2) (k1 k2 : Nat) : Option Nat :=
  if a.size == 0 then none
  else
    let base := bsLoopA a (fun x => cmpPair k1 k2 x.k1 x.k2 == 2) a.size 0 a.size
    match a[base]? with
    | some x => if cmpPair k1 k2 x.k1 x.k2 == 1 then some base else none
    | none => none
/-- `TABLE[i]` of a one-key table: panics out of range. -/
def tblRow1 (a : Array Row1) (i : Nat) : Res (Nat × (Option Nat × Option Nat × Option Nat)) :=
  match a[i]? with
  | some r => Res.ok (r.k, (optOf r.l, optOf r.s, optOf r.r))
  | none => Res.panic
/-- `TABLE[i]` of a two-key table: panics out of range. -/
def tblRow2 (a : Array Row2) (i : Nat) : Res (Nat × Nat × (Option Nat × Option Nat × Option Nat)) :=
  match a[i]? with
  | some r => Res.ok (r.k1, r.k2, (optOf r.l, optOf r.s, optOf r.r))
  | none => Res.panic
"#;

fn json_str(s: &str) -> String {
    let mut out = String::from("\"");
    for c in s.chars() {
        match c {
            '"' => out.push_str("\\\""),
            '\\' => out.push_str("\\\\"),
            '\n' => out.push_str("\\n"),
            '\t' => out.push_str("\\t"),
            '\r' => out.push_str("\\r"),
            c if (c as u32) < 0x20 => out.push_str(&format!("\\u{:04x}", c as u32)),
            c => out.push(c),
        }
    }
    out.push('"');
    out
}

fn main() {
    let args: Vec<String> = std::env::args().skip(1).collect();
    let mut root: Option<String> = None;
    let mut module = "Src".to_string();
    let mut out_dir: Option<String> = None;
    // `--features a,b --ns F0`: translate the sources as cargo compiles them with exactly these features of the impl crates
    // (cfg resolved first, `cfgres.rs`), into namespace `UL.Src<ns>` (files `<out-dir>/<ns>/<Module>.lean`); used for C20
    let mut cfg_features: Option<Vec<String>> = None;
    let mut ns: Option<String> = None;
    let mut i = 0;
    while i < args.len() {
        match args[i].as_str() {
            "--module" => {
                i += 1;
                module = args.get(i).cloned().unwrap_or_default();
            }
            "--out-dir" => {
                i += 1;
                out_dir = args.get(i).cloned();
            }
            "--features" => {
                i += 1;
                cfg_features = Some(args.get(i).cloned().unwrap_or_default().split(',').filter(|x| !x.is_empty()).map(|x| x.to_string()).collect());
            }
            "--ns" => {
                i += 1;
                ns = args.get(i).cloned();
            }
            "-h" | "--help" => {
                println!("usage: srclean <repo-root> [--module Src|SrcMatch|SrcExtType] [--out-dir DIR]");
                return;
            }
            a => root = Some(a.to_string()),
        }
        i += 1;
    }
    let root = match root {
        Some(r) => r,
        None => {
            eprintln!("usage: srclean <repo-root> [--module NAME] [--out-dir DIR]");
            std::process::exit(2);
        }
    };
    if !MODULES.iter().any(|m| m.name == module) {
        eprintln!("unknown module `{}`", module);
        std::process::exit(2);
    }
    if cfg_features.is_some() != ns.is_some() {
        eprintln!("--features and --ns go together");
        std::process::exit(2);
    }
    let reg = Registry::load(std::path::Path::new(&root), cfg_features.as_deref());

    let mut done: BTreeMap<String, FnSig> = BTreeMap::new();
    let mut failed: BTreeMap<String, String> = BTreeMap::new();
    let mut outcomes: Vec<(&Target, Outcome)> = Vec::new();
    for t in TARGETS {
        if let Some(fs) = &cfg_features {
            // one translation of `character_direction` per configuration: the one whose type fits
            let likely = fs.iter().any(|f| f == "likelysubtags");
            if (t.lean == "LangId.directionNoLikely" && likely) || (t.lean == "LangId.direction" && !likely) {
                continue;
            }
        }
        let m = MODULES.iter().find(|m| m.name == t.module).expect("module of target");
        let (o, sig) = translate_one(&reg, m, t, &done, &failed, &cfg_features);
        match sig {
            Some(s) => {
                done.insert(t.lean.to_string(), s);
            }
            None => {
                failed.insert(t.lean.to_string(), o.reason.clone());
            }
        }
        outcomes.push((t, o));
    }

    let mut texts: BTreeMap<&str, String> = BTreeMap::new();
    for m in MODULES {
        let mut s = String::new();
        s.push_str("/-\n  GENERATED by srclean from the Rust sources — do not edit.\n");
        s.push_str("  One definition per target item, saying what the source text says, in the vocabulary of\n");
        s.push_str("  `UnicLocale/Model/Basic.lean`.  `UnicLocale/SrcTie/*.lean` proves each equal to the model.\n-/\n");
        for imp in m.imports {
            match (&ns, imp.strip_prefix("UnicLocale.Gen.")) {
                (Some(n), Some(rest)) => s.push_str(&format!("import UnicLocale.Gen.{}.{}\n", n, rest)),
                _ => s.push_str(&format!("import {}\n", imp)),
            }
        }
        if ns.is_some() {
            // the library contracts (`idx`, `okOr`, `tblSearch1`, ..) are those of the default modules
            s.push_str("import UnicLocale.Gen.Src\n");
            if m.name == "SrcLikely" {
                s.push_str("import UnicLocale.Gen.SrcLikely\n");
            }
        }
        s.push_str("\nset_option linter.unusedVariables false\n\nnamespace UL.Src\n\n");
        if ns.is_some() {
            s.push_str("open UL.Src\n\n");
        }
        if m.prelude && ns.is_none() {
            s.push_str(PRELUDE);
            s.push('\n');
        }
        if m.name == "SrcLikely" && ns.is_none() {
            s.push_str(LIKELY_PRELUDE);
            s.push('\n');
        }
        for (t, o) in &outcomes {
            if t.module == m.name {
                s.push_str(&o.text);
                s.push('\n');
            }
        }
        s.push_str("end UL.Src\n");
        if let Some(n) = &ns {
            // every target (and its loops) lives in `UL.Src<ns>`; the contracts stay in `UL.Src` (opened above)
            s = s.replace("UL.Src.", &format!("UL.Src{}.", n));
            s = s.replace("namespace UL.Src\n", &format!("namespace UL.Src{}\n", n));
            s = s.replace("end UL.Src\n", &format!("end UL.Src{}\n", n));
            s = s.replace(&format!("open UL.Src{}\n", n), "open UL.Src\n");
        }
        texts.insert(m.name, s);
    }
    if let Some(d) = &out_dir {
        let d = match &ns {
            Some(n) => {
                let p = std::path::Path::new(d).join(n);
                let _ = std::fs::create_dir_all(&p);
                p.to_string_lossy().to_string()
            }
            None => d.clone(),
        };
        for (name, text) in &texts {
            let p = std::path::Path::new(&d).join(format!("{}.lean", name));
            if let Err(e) = std::fs::write(&p, text) {
                eprintln!("cannot write {}: {}", p.display(), e);
                std::process::exit(1);
            }
        }
    }
    print!("{}", texts[module.as_str()]);

    let mut js = String::from("{\"functions\": {");
    let mut first = true;
    for (t, o) in &outcomes {
        if !first {
            js.push_str(", ");
        }
        first = false;
        js.push_str(&format!(
            "{}: {{\"status\": {}, \"reason\": {}, \"rust\": {}, \"sha\": {}, \"module\": {}, \"group\": {}, \"model\": {}, \"arity\": {}, \"contracts\": [{}]}}",
            json_str(t.lean),
            json_str(if o.ok { "ok" } else if ns.is_some() && o.reason.contains("not found in") { "absent" } else { "unsupported" }),
            json_str(&o.reason),
            json_str(&o.rust),
            json_str(&o.sha),
            json_str(t.module),
            json_str(t.group),
            json_str(t.model),
            t.model_type.matches('→').count(),
            o.contracts.iter().map(|c| json_str(c)).collect::<Vec<_>>().join(", ")
        ));
    }
    js.push_str("}, \"types\": {");
    // what the derived / hand-written trait impls of the modelled types are in this configuration (the model takes
    // `PartialEq` / `Ord` / `Hash` / `Default` of these types by contract from the `derive` list): the item text of every
    // configured struct / enum, and the list of `impl Trait for Type` blocks of the parsed files
    let mut first = true;
    let mut type_names: Vec<(&str, &str)> = Vec::new();
    for r in config::RECORDS {
        type_names.push((r.rust, r.file));
    }
    for (n, f) in config::NEWTYPES {
        type_names.push((n, f));
    }
    for e in config::ENUMS {
        type_names.push((e.rust, e.file));
    }
    for (name, file) in type_names {
        let mut text = String::from("?");
        if let Ok(f) = reg.file(file) {
            for it in &f.items {
                let (ident, toks) = match it {
                    syn::Item::Struct(x) => (x.ident.to_string(), {
                        let mut y = x.clone();
                        y.attrs.retain(|a| !a.path().is_ident("doc"));
                        norm_tokens(&y)
                    }),
                    syn::Item::Enum(x) => (x.ident.to_string(), {
                        let mut y = x.clone();
                        y.attrs.retain(|a| !a.path().is_ident("doc"));
                        for v in y.variants.iter_mut() {
                            v.attrs.retain(|a| !a.path().is_ident("doc"));
                        }
                        norm_tokens(&y)
                    }),
                    _ => continue,
                };
                if ident == name {
                    text = toks;
                }
            }
        }
        if !first {
            js.push_str(", ");
        }
        first = false;
        // (a trailing comma is not part of what the item says; resolving `cfg` rebuilds the field lists without it)
        let text = norm_ws(&text.replace(", }", " }").replace(", )", " )"));
        js.push_str(&format!("{}: {}", json_str(name), json_str(&text)));
    }
    js.push_str("}, \"impls\": [");
    let mut impls: Vec<String> = Vec::new();
    for (fname, f) in &reg.files {
        for it in &f.items {
            if let syn::Item::Impl(im) = it {
                if let Some((_, p, _)) = &im.trait_ {
                    let attrs: Vec<String> = im.attrs.iter().filter(|a| !a.path().is_ident("doc")).map(|a| norm_tokens(a)).collect();
                    impls.push(format!("{}: {} impl {} for {}", fname, attrs.join(" "), norm_tokens(p), norm_tokens(&*im.self_ty)));
                }
            }
        }
    }
    impls.sort();
    for (i, x) in impls.iter().enumerate() {
        if i > 0 {
            js.push_str(", ");
        }
        js.push_str(&json_str(x));
    }
    js.push_str("], \"absent_files\": [");
    // files whose module is compiled out in this configuration
    let absent: Vec<String> = reg.file_errors.iter().filter(|(_, e)| e.contains("not found in this configuration")).map(|(f, _)| json_str(f)).collect();
    js.push_str(&absent.join(", "));
    js.push_str("]}");
    eprintln!("{}", js);
}
