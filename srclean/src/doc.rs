//! Statement-level Lean terms with a readable layout.  Expression-level terms are plain strings
//! (always atomic or parenthesised).

#[derive(Clone, Debug)]
pub enum Doc {
    /// an expression-level term (atomic or parenthesised)
    Atom(String),
    /// `let x := e` / rest
    Let(String, String, Box<Doc>),
    /// `if c then a else b` (c : Bool)
    If(String, Box<Doc>, Box<Doc>),
    /// `Res.bind e fun x => rest`
    Bind(Box<Doc>, String, Box<Doc>),
    /// `match s with | p => d ...`
    Match(String, Vec<(String, Doc)>),
}

fn pad(n: usize) -> String {
    " ".repeat(n)
}

impl Doc {
    /// Render at indentation `ind`; the first line is *not* indented (the caller placed it).
    pub fn render(&self, ind: usize) -> String {
        match self {
            Doc::Atom(s) => s.clone(),
            Doc::Let(x, e, rest) => format!("let {} := {}\n{}{}", x, e, pad(ind), rest.render(ind)),
            Doc::If(c, a, b) => {
                let mut s = format!("if {} then\n{}{}\n{}", c, pad(ind + 2), a.render(ind + 2), pad(ind));
                match &**b {
                    Doc::If(..) => {
                        s.push_str("else ");
                        s.push_str(&b.render(ind));
                    }
                    _ => {
                        s.push_str(&format!("else\n{}{}", pad(ind + 2), b.render(ind + 2)));
                    }
                }
                s
            }
            Doc::Bind(e, x, rest) => {
                let es = match &**e {
                    Doc::Atom(s) => s.clone(),
                    d => format!("({})", d.render(ind + 4)),
                };
                format!("Res.bind {} fun {} =>\n{}{}", es, x, pad(ind), rest.render(ind))
            }
            Doc::Match(s, arms) => {
                let mut out = format!("(match {} with", s);
                for (p, d) in arms {
                    out.push_str(&format!("\n{}| {} =>\n{}{}", pad(ind + 2), p, pad(ind + 6), d.render(ind + 6)));
                }
                out.push(')');
                out
            }
        }
    }

    /// One-line-ish rendering inside parentheses, for a statement-level term used as an operand.
    pub fn inline(&self) -> String {
        match self {
            Doc::Atom(s) => s.clone(),
            d => format!("({})", d.render(8)),
        }
    }
}
