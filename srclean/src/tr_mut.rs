//! Mutation: places (`x`, `x.f`, `x.f.g`, `x.0`), assignment, the mutating library methods
//! (`Vec`, `BTreeMap`, the subtag iterator, `fmt::Formatter` as an output buffer) and `write!`.
//!
//! A mutation inside an expression is recorded in `Tr::pending` as (declaration, new value term);
//! `force` binds the new value to a fresh Lean name right after the expression's own effects.
//! This is exact only when the expression mentions the variable once and evaluates the mutation
//! unconditionally, so mutations are refused inside closures, short-circuit operands and
//! block-like operands (`pure_only > 0`), and a second mutation of the same variable in one
//! expression is refused.

use crate::doc::Doc;
use crate::tr_core::*;
use crate::tr_stmt::*;
use crate::types::*;

pub struct Place {
    pub decl: u32,
    /// (term of the container, Lean field name or None for a transparent wrapper)
    pub steps: Vec<(String, Option<String>)>,
    /// current value
    pub cur: Val,
}

impl<'a> Tr<'a> {
    fn strip_place(e: &syn::Expr) -> &syn::Expr {
        match e {
            syn::Expr::Reference(r) => Self::strip_place(&r.expr),
            syn::Expr::Paren(p) => Self::strip_place(&p.expr),
            syn::Expr::Group(g) => Self::strip_place(&g.expr),
            syn::Expr::Unary(u) if matches!(u.op, syn::UnOp::Deref(_)) => Self::strip_place(&u.expr),
            _ => e,
        }
    }

    /// Is the expression a variable or a field path of a variable?
    pub fn is_place(e: &syn::Expr) -> bool {
        match Self::strip_place(e) {
            syn::Expr::Path(p) => p.path.segments.len() == 1 && p.qself.is_none(),
            syn::Expr::Field(f) => Self::is_place(&f.base),
            _ => false,
        }
    }

    pub fn place(&mut self, e: &syn::Expr, env: &Env) -> R<Place> {
        match Self::strip_place(e) {
            syn::Expr::Path(p) if p.path.segments.len() == 1 && p.qself.is_none() => {
                let n = p.path.segments[0].ident.to_string();
                let d = match env.decl_of(&n) {
                    Some(d) => d,
                    None => return self.unsup(format!("`{}` is not a variable that can be assigned", n)),
                };
                let cur = env.val_of(d).cloned().unwrap();
                if cur.eff() || cur.callres {
                    return self.unsup("internal: a variable with effects");
                }
                Ok(Place { decl: d, steps: vec![], cur })
            }
            syn::Expr::Field(f) => {
                let mut base = self.place(&f.base, env)?;
                let (lean_field, ty) = self.field_info(&base.cur.ty, &f.member)?;
                let container = base.cur.t.clone();
                let cur_t = match &lean_field {
                    Some(lf) => format!("({}.{})", container, lf),
                    None => container.clone(),
                };
                base.steps.push((container, lean_field));
                base.cur = Val::pure_(cur_t, ty);
                Ok(base)
            }
            other => self.unsup(format!("`{}` is not a place the translator can assign to", norm_tokens(other))),
        }
    }

    /// The new value of the root variable when the place gets the value `new`.
    pub fn place_set(&self, p: &Place, new: String) -> String {
        let mut t = new;
        for (container, field) in p.steps.iter().rev() {
            if let Some(f) = field {
                t = format!("{{ {} with {} := {} }}", container, f, t);
            }
        }
        t
    }

    /// Record that the place now has the value `new` (a term that may mention names bound by the
    /// surrounding expression's binds).
    pub fn mutate(&mut self, p: &Place, new: String, what: &str) -> R<()> {
        if self.pure_only > 0 {
            return self.unsup(format!("{} inside a closure or an operand whose evaluation is conditional", what));
        }
        if self.pending.iter().any(|(d, _)| *d == p.decl) {
            return self.unsup(format!("{}: a second mutation of the same variable in one expression", what));
        }
        let root = self.place_set(p, new);
        self.pending.push((p.decl, root));
        Ok(())
    }

    pub fn tr_assign(&mut self, a: &syn::ExprAssign, rest: &[syn::Stmt], env: &Env, in_fn_tail: bool, k: K<'_, 'a>) -> R<Doc> {
        if !Self::is_place(&a.left) {
            return self.unsup(format!("assignment to `{}`", norm_tokens(&*a.left)));
        }
        let p0 = self.place(&a.left, env)?;
        let want = p0.cur.ty.clone();
        self.tr_tail(&a.right, env, Some(&want), false, &|me: &mut Tr<'a>, v: Val, env1: &Env| {
            if v.callres {
                return me.unsup("the result of a call to a Result-returning function is stored (use `?` directly)");
            }
            // the place as it is now (the right side may have changed variables)
            let p = me.place(&a.left, env1)?;
            me.check_compat(&v.ty, &p.cur.ty)?;
            let mut env2 = env1.clone();
            if p.steps.is_empty() {
                me.refine(&mut env2, p.decl, &v.ty);
            }
            let root_ty = env2.val_of(p.decl).map(|x| x.ty.clone()).unwrap();
            let name = env2.name_of(p.decl).unwrap_or("x").to_string();
            let ln = me.fresh(&name);
            let new_root = me.place_set(&p, v.t.clone());
            env2.assign(p.decl, Val::pure_(ln.clone(), root_ty));
            let body = me.tr_block(rest, &env2, in_fn_tail, k)?;
            Ok(Doc::Let(ln, new_root, Box::new(body)))
        })
    }

    /// `x.push(v);`, `iter.next();`, `f.write_str("..")?;`, `call(iter)?;` — an expression
    /// evaluated for what it does to variables.
    pub fn tr_effect_stmt(&mut self, e: &syn::Expr, rest: &[syn::Stmt], env: &Env, in_fn_tail: bool, k: K<'_, 'a>) -> R<Doc> {
        let v = self.tr_expr(e, env, None)?;
        if v.callres {
            return self.unsup("the result of a call to a Result-returning function is dropped");
        }
        if self.pending.is_empty() && !v.eff() {
            return self.unsup(format!("expression statement `{}` has no effect the translator knows", norm_tokens(e)));
        }
        self.force(v, env, &|me: &mut Tr<'a>, _v: Val, env1: &Env| me.tr_block(rest, env1, in_fn_tail, k))
    }

    /// Methods that change their receiver.  `None` = not a mutating method of that type.
    pub fn tr_mut_method(&mut self, m: &syn::ExprMethodCall, env: &Env) -> R<Option<Val>> {
        let name = m.method.to_string();
        if !Self::is_place(&m.receiver) {
            return Ok(None);
        }
        // only look at the receiver's type first
        let p = match self.place(&m.receiver, env) {
            Ok(p) => p,
            Err(_) => return Ok(None),
        };
        let args: Vec<&syn::Expr> = m.args.iter().collect();
        let cur = p.cur.clone();
        let is_bytes_like = |t: &Ty, me: &mut Self| -> bool { (me.first_pass && *t == Ty::Infer) || me.lean_ty(t).map(|s| s == "Bytes").unwrap_or(false) };
        match (cur.ty.clone(), name.as_str()) {
            (Ty::List(el), "push") if args.len() == 1 => {
                let v = self.tr_expr(args[0], env, Some(&el))?;
                if v.callres {
                    return self.unsup("call result pushed");
                }
                if *el == Ty::Infer {
                    // `let mut v = vec![]; v.push(x)`: the element type becomes known
                    if p.steps.is_empty() && !contains_infer(&v.ty) {
                        let t = Ty::List(Box::new(v.ty.clone()));
                        self.decl_ty.insert(p.decl, t.clone());
                        if let Some(site) = self.decl_site.get(&p.decl) {
                            self.site_ty.entry(*site).or_insert(t);
                        }
                    }
                } else {
                    self.check_compat(&v.ty, &el)?;
                }
                let new = format!("({} ++ [{}])", cur.t, v.t);
                let out = Val { t: "()".into(), ty: Ty::Unit, binds: v.binds.clone(), range: None, callres: false, itercall: None };
                self.mutate(&p, new, "`.push(..)`")?;
                Ok(Some(out))
            }
            (Ty::List(el), "sort_unstable") | (Ty::List(el), "sort") if args.is_empty() => {
                if !is_bytes_like(&el, self) && *el != Ty::Infer {
                    return self.unsup(format!("`.{}()` on a list of {:?} (only byte strings have the model's order)", name, el));
                }
                self.mutate(&p, format!("(sortBytes {})", cur.t), "`.sort_unstable()`")?;
                Ok(Some(unit()))
            }
            (Ty::List(el), "dedup") if args.is_empty() => {
                if !is_bytes_like(&el, self) && *el != Ty::Infer {
                    return self.unsup("`.dedup()` on a list of something that is not a byte string");
                }
                self.mutate(&p, format!("(dedupAdj {})", cur.t), "`.dedup()`")?;
                Ok(Some(unit()))
            }
            (Ty::List(_), "clear") | (Ty::Map, "clear") if args.is_empty() => {
                self.mutate(&p, "[]".into(), "`.clear()`")?;
                Ok(Some(unit()))
            }
            (Ty::List(el), "insert") if args.len() == 2 => {
                let i = self.tr_expr(args[0], env, Some(&Ty::Usize))?;
                let v = self.tr_expr(args[1], env, Some(&el))?;
                if !matches!(i.ty, Ty::Usize | Ty::Int) {
                    return self.unsup("`Vec::insert` with a non-usize index");
                }
                self.check_compat(&v.ty, &el)?;
                self.effect_guard("`Vec::insert` (panics when the index is out of range)")?;
                let r = self.lift(&[i, v], Ty::List(el), true, &|a| format!("(vecInsert {} {} {})", cur.t, a[0], a[1]))?;
                self.mutate(&p, r.t.clone(), "`Vec::insert`")?;
                Ok(Some(Val { t: "()".into(), ty: Ty::Unit, ..r }))
            }
            (Ty::List(el), "remove") if args.len() == 1 => {
                let i = self.tr_expr(args[0], env, Some(&Ty::Usize))?;
                if !matches!(i.ty, Ty::Usize | Ty::Int) {
                    return self.unsup("`Vec::remove` with a non-usize index");
                }
                self.effect_guard("`Vec::remove` (panics when the index is out of range)")?;
                let pair_ty = Ty::Tuple(vec![(*el).clone(), Ty::List(el.clone())]);
                let r = self.lift(&[i], pair_ty, true, &|a| format!("(vecRemove {} {})", cur.t, a[0]))?;
                self.mutate(&p, format!("{}.2", r.t), "`Vec::remove`")?;
                Ok(Some(Val { t: format!("{}.1", r.t), ty: *el, ..r }))
            }
            (Ty::Map, "insert") if args.len() == 2 => {
                let kx = self.tr_expr(args[0], env, Some(&Ty::Tiny(4)))?;
                let v = self.tr_expr(args[1], env, Some(&Ty::List(Box::new(Ty::Tiny(8)))))?;
                if kx.callres || v.callres {
                    return self.unsup("call result inserted");
                }
                if !is_bytes_like(&kx.ty, self) {
                    return self.unsup(format!("map key of type {:?}", kx.ty));
                }
                self.check_compat(&v.ty, &Ty::List(Box::new(Ty::Tiny(8))))?;
                let r = self.lift(&[kx, v], Ty::Unit, false, &|a| format!("(UL.AMap.insert {} {} {})", a[0], a[1], cur.t))?;
                self.mutate(&p, r.t.clone(), "`BTreeMap::insert`")?;
                // the previous value (the method's result) is not modelled: usable only as a statement
                Ok(Some(Val { t: "()".into(), ty: Ty::Unit, ..r }))
            }
            (Ty::Map, "remove") if args.len() == 1 => {
                let kx = self.tr_expr(args[0], env, Some(&Ty::Tiny(4)))?;
                if kx.callres || !is_bytes_like(&kx.ty, self) {
                    return self.unsup("map key");
                }
                let old = self.lift(&[kx.clone()], Ty::Opt(Box::new(Ty::List(Box::new(Ty::Tiny(8))))), false, &|a| format!("(UL.AMap.get {} {})", a[0], cur.t))?;
                self.mutate(&p, format!("(UL.AMap.remove {} {})", kx.t, cur.t), "`BTreeMap::remove`")?;
                Ok(Some(old))
            }
            (Ty::IterB, "next") if args.is_empty() => {
                self.mutate(&p, format!("(List.tail {})", cur.t), "`.next()`")?;
                Ok(Some(Val::pure_(format!("(List.head? {})", cur.t), Ty::Opt(Box::new(Ty::Slice)))))
            }
            (Ty::IterB, "peek") if args.is_empty() => Ok(Some(Val::pure_(format!("(List.head? {})", cur.t), Ty::Opt(Box::new(Ty::Slice))))),
            (Ty::IterB, "peekable") if args.is_empty() => Ok(Some(cur)),
            (Ty::Fmt, "write_str") if args.len() == 1 => {
                let s = self.tr_expr(args[0], env, Some(&Ty::Str))?;
                if !is_bytes_like(&s.ty, self) || s.callres {
                    return self.unsup("`write_str` of something that is not a string");
                }
                let r = self.lift(&[s], Ty::FmtRes, false, &|a| format!("({} ++ {})", cur.t, a[0]))?;
                self.mutate(&p, r.t.clone(), "`write_str`")?;
                Ok(Some(Val { t: "()".into(), ..r }))
            }
            (Ty::Fmt, "write_char") if args.len() == 1 => {
                let s = self.tr_expr(args[0], env, Some(&Ty::Char))?;
                if s.ty != Ty::Char || s.callres {
                    return self.unsup("`write_char` of something that is not a char");
                }
                // only ASCII characters are one byte
                let r = self.lift(&[s], Ty::FmtRes, false, &|a| format!("({} ++ [{}])", cur.t, a[0]))?;
                self.mutate(&p, r.t.clone(), "`write_char`")?;
                Ok(Some(Val { t: "()".into(), ..r }))
            }
            _ => Ok(None),
        }
    }

    /// What `Display` writes for a value: the bytes.
    pub fn display_of(&mut self, v: &Val) -> R<String> {
        if v.eff() || v.callres {
            return self.unsup("a formatted argument that may panic");
        }
        match &v.ty {
            Ty::Tiny(_) | Ty::Str => Ok(v.t.clone()),
            Ty::Named(n) => {
                // a type whose `Display::fmt` is a translated target: `fmt x [] `
                let n = n.clone();
                let key = format!("Display for {}", n);
                let tgt = crate::config::TARGETS.iter().find(|t| t.imp == Some(Box::leak(key.clone().into_boxed_str())) && t.func == "fmt");
                match tgt {
                    Some(t) => {
                        if let Some(why) = self.failed.get(t.lean) {
                            return self.unsup(format!("uses the Display of {} which is untranslated ({})", n, why));
                        }
                        if self.done.get(t.lean).is_none() {
                            return self.unsup(format!("uses the Display of {} which is not translated before it", n));
                        }
                        Ok(format!("(UL.Src.{} {} [])", t.lean, v.t))
                    }
                    None => self.unsup(format!("`Display` of {} is not a translated target", n)),
                }
            }
            t => self.unsup(format!("`Display` of {:?}", t)),
        }
    }

    /// `write!(f, "lit{}lit", a, b)`: (declaration of `f`, its new value).
    pub fn tr_write_macro(&mut self, m: &syn::Macro, env: &Env) -> R<(u32, String)> {
        struct Args(syn::Expr, syn::LitStr, Vec<syn::Expr>);
        impl syn::parse::Parse for Args {
            fn parse(input: syn::parse::ParseStream) -> syn::Result<Self> {
                let f: syn::Expr = input.parse()?;
                let _: syn::Token![,] = input.parse()?;
                let s: syn::LitStr = input.parse()?;
                let mut rest = Vec::new();
                while !input.is_empty() {
                    let _: syn::Token![,] = input.parse()?;
                    if input.is_empty() {
                        break;
                    }
                    rest.push(input.parse()?);
                }
                Ok(Args(f, s, rest))
            }
        }
        let a: Args = syn::parse2(m.tokens.clone()).map_err(|e| format!("write! arguments: {}", e))?;
        let p = self.place(&a.0, env)?;
        if p.cur.ty != Ty::Fmt || !p.steps.is_empty() {
            return self.unsup("`write!` to something that is not the formatter parameter");
        }
        let fmt = a.1.value();
        let mut pieces: Vec<String> = Vec::new();
        let mut lit = String::new();
        let mut argi = 0usize;
        let cs: Vec<char> = fmt.chars().collect();
        let mut i = 0;
        while i < cs.len() {
            match cs[i] {
                '{' if i + 1 < cs.len() && cs[i + 1] == '{' => {
                    lit.push('{');
                    i += 2;
                }
                '}' if i + 1 < cs.len() && cs[i + 1] == '}' => {
                    lit.push('}');
                    i += 2;
                }
                '{' if i + 1 < cs.len() && cs[i + 1] == '}' => {
                    if !lit.is_empty() {
                        pieces.push(crate::tr_expr::bytes_lit(lit.as_bytes()));
                        lit.clear();
                    }
                    let e = match a.2.get(argi) {
                        Some(e) => e,
                        None => return self.unsup("write!: fewer arguments than `{}`"),
                    };
                    argi += 1;
                    let v = self.tr_expr(e, env, None)?;
                    pieces.push(self.display_of(&v)?);
                    i += 2;
                }
                '{' | '}' => return self.unsup("write!: a format specification other than `{}`"),
                c => {
                    lit.push(c);
                    i += 1;
                }
            }
        }
        if !lit.is_empty() {
            pieces.push(crate::tr_expr::bytes_lit(lit.as_bytes()));
        }
        if argi != a.2.len() {
            return self.unsup("write!: more arguments than `{}`");
        }
        let mut t = p.cur.t.clone();
        for pc in pieces {
            t = format!("({} ++ {})", t, pc);
        }
        Ok((p.decl, t))
    }
}
