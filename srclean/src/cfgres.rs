//! Resolution of `#[cfg(..)]` / `cfg!(..)` for one cargo feature set (used with `--features`, i.e. when the sources are
//! translated once per configuration for C20).  Every item, impl item, trait item, statement, match arm, field, variant and
//! field value whose `cfg` predicate evaluates to false is removed; a `cfg` attribute that evaluates to true is dropped;
//! `cfg!(p)` becomes a Boolean literal.  A predicate that mentions anything but `feature = ".."`, `test` and the
//! verification hook's own `unic_locale_verif` cannot be evaluated: its attribute stays where it is, and the translator
//! refuses the function that contains it, as it does without `--features`.

use syn::punctuated::Punctuated;
use syn::visit_mut::{self, VisitMut};

pub struct CfgRes<'a> {
    pub features: &'a [String],
}

fn eval(m: &syn::Meta, feats: &[String]) -> Option<bool> {
    match m {
        syn::Meta::Path(p) => {
            if p.is_ident("test") || p.is_ident("unic_locale_verif") || p.is_ident("doc") || p.is_ident("doctest") {
                Some(false)
            } else {
                None
            }
        }
        syn::Meta::NameValue(nv) => {
            if nv.path.is_ident("feature") {
                if let syn::Expr::Lit(syn::ExprLit { lit: syn::Lit::Str(s), .. }) = &nv.value {
                    return Some(feats.iter().any(|f| *f == s.value()));
                }
            }
            None
        }
        syn::Meta::List(l) => {
            let inner: Vec<syn::Meta> = match l.parse_args_with(Punctuated::<syn::Meta, syn::Token![,]>::parse_terminated) {
                Ok(p) => p.into_iter().collect(),
                Err(_) => return None,
            };
            let vals: Vec<Option<bool>> = inner.iter().map(|x| eval(x, feats)).collect();
            if l.path.is_ident("not") {
                if vals.len() == 1 {
                    vals[0].map(|b| !b)
                } else {
                    None
                }
            } else if l.path.is_ident("all") {
                if vals.iter().any(|v| *v == Some(false)) {
                    Some(false)
                } else if vals.iter().all(|v| *v == Some(true)) {
                    Some(true)
                } else {
                    None
                }
            } else if l.path.is_ident("any") {
                if vals.iter().any(|v| *v == Some(true)) {
                    Some(true)
                } else if vals.iter().all(|v| *v == Some(false)) {
                    Some(false)
                } else {
                    None
                }
            } else {
                None
            }
        }
    }
}

impl<'a> CfgRes<'a> {
    /// false: the thing carrying these attributes does not exist in this configuration.
    /// `#[cfg_attr(p, a, b)]` becomes `#[a] #[b]` when `p` holds and disappears when it does not.
    fn keep(&self, attrs: &mut Vec<syn::Attribute>) -> bool {
        let mut alive = true;
        let old = std::mem::take(attrs);
        for a in old {
            if a.path().is_ident("cfg") {
                match a.parse_args::<syn::Meta>().ok().and_then(|m| eval(&m, self.features)) {
                    Some(true) => {}
                    Some(false) => {
                        alive = false;
                        attrs.push(a);
                    }
                    None => attrs.push(a),
                }
            } else if a.path().is_ident("cfg_attr") {
                let parts: Vec<syn::Meta> = match a.parse_args_with(Punctuated::<syn::Meta, syn::Token![,]>::parse_terminated) {
                    Ok(p) => p.into_iter().collect(),
                    Err(_) => {
                        attrs.push(a);
                        continue;
                    }
                };
                match parts.first().and_then(|m| eval(m, self.features)) {
                    Some(true) => {
                        for m in &parts[1..] {
                            let na: syn::Attribute = syn::parse_quote!(#[#m]);
                            attrs.push(na);
                        }
                    }
                    Some(false) => {}
                    None => attrs.push(a),
                }
            } else {
                attrs.push(a);
            }
        }
        alive
    }
}

fn item_attrs(it: &mut syn::Item) -> Option<&mut Vec<syn::Attribute>> {
    use syn::Item::*;
    Some(match it {
        Const(x) => &mut x.attrs,
        Enum(x) => &mut x.attrs,
        ExternCrate(x) => &mut x.attrs,
        Fn(x) => &mut x.attrs,
        ForeignMod(x) => &mut x.attrs,
        Impl(x) => &mut x.attrs,
        Macro(x) => &mut x.attrs,
        Mod(x) => &mut x.attrs,
        Static(x) => &mut x.attrs,
        Struct(x) => &mut x.attrs,
        Trait(x) => &mut x.attrs,
        TraitAlias(x) => &mut x.attrs,
        Type(x) => &mut x.attrs,
        Union(x) => &mut x.attrs,
        Use(x) => &mut x.attrs,
        _ => return None,
    })
}

fn impl_item_attrs(it: &mut syn::ImplItem) -> Option<&mut Vec<syn::Attribute>> {
    use syn::ImplItem::*;
    Some(match it {
        Const(x) => &mut x.attrs,
        Fn(x) => &mut x.attrs,
        Type(x) => &mut x.attrs,
        Macro(x) => &mut x.attrs,
        _ => return None,
    })
}

fn trait_item_attrs(it: &mut syn::TraitItem) -> Option<&mut Vec<syn::Attribute>> {
    use syn::TraitItem::*;
    Some(match it {
        Const(x) => &mut x.attrs,
        Fn(x) => &mut x.attrs,
        Type(x) => &mut x.attrs,
        Macro(x) => &mut x.attrs,
        _ => return None,
    })
}

fn expr_attrs(e: &mut syn::Expr) -> Option<&mut Vec<syn::Attribute>> {
    use syn::Expr::*;
    Some(match e {
        Array(x) => &mut x.attrs,
        Assign(x) => &mut x.attrs,
        Binary(x) => &mut x.attrs,
        Block(x) => &mut x.attrs,
        Break(x) => &mut x.attrs,
        Call(x) => &mut x.attrs,
        Cast(x) => &mut x.attrs,
        Closure(x) => &mut x.attrs,
        Continue(x) => &mut x.attrs,
        Field(x) => &mut x.attrs,
        ForLoop(x) => &mut x.attrs,
        If(x) => &mut x.attrs,
        Index(x) => &mut x.attrs,
        Let(x) => &mut x.attrs,
        Lit(x) => &mut x.attrs,
        Loop(x) => &mut x.attrs,
        Macro(x) => &mut x.attrs,
        Match(x) => &mut x.attrs,
        MethodCall(x) => &mut x.attrs,
        Paren(x) => &mut x.attrs,
        Path(x) => &mut x.attrs,
        Reference(x) => &mut x.attrs,
        Return(x) => &mut x.attrs,
        Struct(x) => &mut x.attrs,
        Try(x) => &mut x.attrs,
        Tuple(x) => &mut x.attrs,
        Unary(x) => &mut x.attrs,
        Unsafe(x) => &mut x.attrs,
        While(x) => &mut x.attrs,
        _ => return None,
    })
}

impl<'a> VisitMut for CfgRes<'a> {
    fn visit_file_mut(&mut self, f: &mut syn::File) {
        let me = &*self;
        f.items.retain_mut(|it| item_attrs(it).map_or(true, |a| me.keep(a)));
        visit_mut::visit_file_mut(self, f);
    }
    fn visit_item_mod_mut(&mut self, m: &mut syn::ItemMod) {
        let me = &*self;
        if let Some((_, items)) = &mut m.content {
            items.retain_mut(|it| item_attrs(it).map_or(true, |a| me.keep(a)));
        }
        visit_mut::visit_item_mod_mut(self, m);
    }
    fn visit_item_impl_mut(&mut self, im: &mut syn::ItemImpl) {
        let me = &*self;
        im.items.retain_mut(|it| impl_item_attrs(it).map_or(true, |a| me.keep(a)));
        visit_mut::visit_item_impl_mut(self, im);
    }
    fn visit_item_trait_mut(&mut self, t: &mut syn::ItemTrait) {
        let me = &*self;
        t.items.retain_mut(|it| trait_item_attrs(it).map_or(true, |a| me.keep(a)));
        visit_mut::visit_item_trait_mut(self, t);
    }
    fn visit_block_mut(&mut self, b: &mut syn::Block) {
        let me = &*self;
        b.stmts.retain_mut(|s| match s {
            syn::Stmt::Local(l) => me.keep(&mut l.attrs),
            syn::Stmt::Item(it) => item_attrs(it).map_or(true, |a| me.keep(a)),
            syn::Stmt::Expr(e, _) => expr_attrs(e).map_or(true, |a| me.keep(a)),
            syn::Stmt::Macro(m) => me.keep(&mut m.attrs),
        });
        visit_mut::visit_block_mut(self, b);
    }
    fn visit_expr_match_mut(&mut self, m: &mut syn::ExprMatch) {
        let me = &*self;
        m.arms.retain_mut(|a| me.keep(&mut a.attrs));
        visit_mut::visit_expr_match_mut(self, m);
    }
    fn visit_fields_named_mut(&mut self, f: &mut syn::FieldsNamed) {
        let old = std::mem::take(&mut f.named);
        f.named = old.into_iter().filter_map(|mut x| if self.keep(&mut x.attrs) { Some(x) } else { None }).collect();
        visit_mut::visit_fields_named_mut(self, f);
    }
    fn visit_fields_unnamed_mut(&mut self, f: &mut syn::FieldsUnnamed) {
        let old = std::mem::take(&mut f.unnamed);
        f.unnamed = old.into_iter().filter_map(|mut x| if self.keep(&mut x.attrs) { Some(x) } else { None }).collect();
        visit_mut::visit_fields_unnamed_mut(self, f);
    }
    fn visit_item_enum_mut(&mut self, e: &mut syn::ItemEnum) {
        let old = std::mem::take(&mut e.variants);
        e.variants = old.into_iter().filter_map(|mut x| if self.keep(&mut x.attrs) { Some(x) } else { None }).collect();
        visit_mut::visit_item_enum_mut(self, e);
    }
    fn visit_expr_struct_mut(&mut self, s: &mut syn::ExprStruct) {
        let old = std::mem::take(&mut s.fields);
        s.fields = old.into_iter().filter_map(|mut x| if self.keep(&mut x.attrs) { Some(x) } else { None }).collect();
        visit_mut::visit_expr_struct_mut(self, s);
    }
    fn visit_expr_mut(&mut self, e: &mut syn::Expr) {
        if let syn::Expr::Macro(m) = e {
            if m.mac.path.is_ident("cfg") {
                if let Some(b) = m.mac.parse_body::<syn::Meta>().ok().and_then(|p| eval(&p, self.features)) {
                    *e = syn::Expr::Lit(syn::ExprLit {
                        attrs: Vec::new(),
                        lit: syn::Lit::Bool(syn::LitBool::new(b, proc_macro2::Span::call_site())),
                    });
                    return;
                }
            }
        }
        visit_mut::visit_expr_mut(self, e);
    }
}
