//! Blocks, `let`, assignment, `if`, `match`, loops, `return`, `?` at statement level, in
//! continuation-passing style: `k` receives the (pure) value of the expression and the variables
//! as they are at that point, and produces the rest of the function.  Code after an `if` whose
//! branch falls through is duplicated into the branch.  Mutation is translated by rebinding: an
//! assignment gives the variable's declaration a new Lean name; a loop becomes a recursive
//! definition from the variables in scope to the variables it assigns (see `tr_loop.rs`).

use crate::doc::Doc;
use crate::tr_core::*;
use crate::tr_loop::tuple_term;
use crate::types::*;

pub type K<'k, 'a> = &'k dyn Fn(&mut Tr<'a>, Val, &Env) -> R<Doc>;

pub fn unit() -> Val {
    Val::pure_("()", Ty::Unit)
}

fn is_int(t: &Ty) -> bool {
    matches!(t, Ty::Usize | Ty::U8 | Ty::Int | Ty::UInt)
}

/// `Some(<something that is not a plain binding or wildcard>)`
fn nested_some(p: &syn::Pat) -> bool {
    match p {
        syn::Pat::Paren(pp) => nested_some(&pp.pat),
        syn::Pat::TupleStruct(ts) if ts.elems.len() == 1 => {
            let mut sub = &ts.elems[0];
            loop {
                match sub {
                    syn::Pat::Reference(r) => sub = &r.pat,
                    syn::Pat::Paren(pp) => sub = &pp.pat,
                    _ => break,
                }
            }
            !matches!(sub, syn::Pat::Ident(_) | syn::Pat::Wild(_))
        }
        _ => false,
    }
}

pub fn contains_infer(t: &Ty) -> bool {
    match t {
        Ty::Infer => true,
        Ty::Opt(x) | Ty::List(x) | Ty::ResPE(x) | Ty::ResOpaque(x) | Ty::Iter(x) => contains_infer(x),
        Ty::Tuple(xs) => xs.iter().any(contains_infer),
        _ => false,
    }
}

impl<'a> Tr<'a> {
    /// Bind an effectful value (and apply the variable updates its evaluation caused) before
    /// handing it to the continuation.
    pub fn force(&mut self, v: Val, env: &Env, k: K<'_, 'a>) -> R<Doc> {
        let ups = std::mem::take(&mut self.pending);
        if !v.eff() && ups.is_empty() {
            return k(self, v, env);
        }
        if v.eff() {
            self.effect_guard("a sub-expression")?;
        }
        let mut pure_v = v.clone();
        pure_v.binds = vec![];
        // variables mutated by the expression (the subtag iterator advanced, a map entry removed)
        let mut env2 = env.clone();
        let mut lets: Vec<(String, String)> = Vec::new();
        for (d, term) in ups {
            let (name, ty) = match (env2.name_of(d), env2.val_of(d)) {
                (Some(n), Some(v)) => (n.to_string(), v.ty.clone()),
                _ => return self.unsup("internal: update of an unknown variable"),
            };
            let ln = self.fresh(&name);
            lets.push((ln.clone(), term));
            env2.assign(d, Val::pure_(ln, ty));
        }
        let mut d = k(self, pure_v, &env2)?;
        for (ln, term) in lets.into_iter().rev() {
            d = Doc::Let(ln, term, Box::new(d));
        }
        for (x, c) in v.binds.iter().rev() {
            d = Doc::Bind(Box::new(Doc::Atom(c.clone())), x.clone(), Box::new(d));
        }
        Ok(d)
    }

    /// The terms of the variables whose final values are part of the function result
    /// (`&mut self`, the subtag iterator, the formatter buffer), in that order.
    fn out_terms(&self, env: &Env) -> R<Vec<String>> {
        let mut out = Vec::new();
        for d in &self.outs {
            match env.val_of(*d) {
                Some(v) => out.push(v.t.clone()),
                None => return Err("internal: an output variable is not in scope at a return".into()),
            }
        }
        Ok(out)
    }

    /// The function result: `return e` and the tail expression of the body.
    pub fn k_ret(&mut self, v: Val, env: &Env) -> R<Doc> {
        // a pending update of a variable does not matter any more, unless it is an output
        let ups = std::mem::take(&mut self.pending);
        let mut env = env.clone();
        let mut lets: Vec<(String, String)> = Vec::new();
        for (d, term) in ups {
            if self.outs.contains(&d) {
                let (name, ty) = match (env.name_of(d), env.val_of(d)) {
                    (Some(n), Some(v)) => (n.to_string(), v.ty.clone()),
                    _ => return self.unsup("internal: update of an unknown variable"),
                };
                let ln = self.fresh(&name);
                lets.push((ln.clone(), term));
                env.assign(d, Val::pure_(ln, ty));
            }
        }
        let env = &env;
        let wrap = |mut d: Doc, v: &Val| -> Doc {
            for (ln, term) in lets.iter().rev() {
                d = Doc::Let(ln.clone(), term.clone(), Box::new(d));
            }
            for (x, c) in v.binds.iter().rev() {
                d = Doc::Bind(Box::new(Doc::Atom(c.clone())), x.clone(), Box::new(d));
            }
            d
        };
        if !self.loops.is_empty() {
            // inside a loop definition (its result is the loop's variables): only an error leaves
            // the function
            if self.mode == Mode::Res && matches!(v.ty, Ty::ResPE(_)) && v.t.starts_with("(Res.err ") && !v.callres {
                return Ok(wrap(Doc::Atom(v.t.clone()), &v));
            }
            return self.unsup("`return` of something that is not an `Err(..)` inside a loop");
        }
        let outs = self.out_terms(env)?;
        // a plain result in a function whose Lean definition returns `Res` (the body may panic)
        let v = if self.plain_res && self.mode == Mode::Res && !matches!(v.ty, Ty::ResPE(_)) {
            if v.callres {
                return self.unsup("call result returned from a function with a plain result type");
            }
            let mut v2 = v.clone();
            v2.t = format!("(Res.ok {})", v.t);
            v2.ty = Ty::ResPE(Box::new(v.ty.clone()));
            v2
        } else {
            v
        };
        match self.mode {
            Mode::Pure => {
                if v.eff() || v.callres {
                    return self.unsup("the function result may panic, but the model type has no panic value");
                }
                if self.ret_unit {
                    // `()`, `fmt::Result`: only the outputs are returned
                    if !matches!(v.ty, Ty::Unit | Ty::FmtRes) {
                        return self.unsup(format!("function result of type {:?} where `()` is expected", v.ty));
                    }
                    if outs.is_empty() {
                        return self.unsup("a function that returns nothing and changes nothing");
                    }
                    return Ok(wrap(Doc::Atom(tuple_term(&outs)), &v));
                }
                self.check_ret_ty(&v.ty)?;
                let mut parts = Vec::new();
                let self_first = self.self_out.is_some();
                if self_first {
                    parts.push(outs[0].clone());
                }
                parts.push(v.t.clone());
                parts.extend(outs.iter().skip(if self_first { 1 } else { 0 }).cloned());
                Ok(wrap(Doc::Atom(tuple_term(&parts)), &v))
            }
            Mode::Res => {
                let inner = match self.ret_ty.clone() {
                    Ty::ResPE(x) => *x,
                    _ => return self.unsup("internal: Res mode without a Result return type"),
                };
                match &v.ty {
                    Ty::ResPE(t) => {
                        let t = (**t).clone();
                        self.check_compat(&t, &inner)?;
                        if let Some(d) = v.itercall {
                            // `v.t : Res (T × List Bytes)`, the callee advanced iterator `d`
                            if self.outs == vec![d] && !self.ret_unit {
                                return Ok(wrap(Doc::Atom(v.t.clone()), &v));
                            }
                            if self.outs.is_empty() && !self.ret_unit {
                                return Ok(wrap(Doc::Atom(format!("(Res.map Prod.fst {})", v.t)), &v));
                            }
                            return self.unsup("the result of an iterator-threading call returned from a function with other outputs");
                        }
                        if outs.is_empty() {
                            // `v.t : Res T` is the result, after the pending binds
                            return Ok(wrap(Doc::Atom(v.t.clone()), &v));
                        }
                        // `Ok(x)` / `Err(e)` written out: no bind needed
                        if v.t.starts_with("(Res.err ") && v.t.ends_with(')') {
                            return Ok(wrap(Doc::Atom(v.t.clone()), &v));
                        }
                        let direct: Option<String> = if v.t.starts_with("(Res.ok ") && v.t.ends_with(')') {
                            Some(v.t[8..v.t.len() - 1].to_string())
                        } else {
                            None
                        };
                        let r = match &direct {
                            Some(x) => x.clone(),
                            None => self.fresh("r"),
                        };
                        let mut parts = Vec::new();
                        let self_first = self.self_out.is_some();
                        if self_first {
                            parts.push(outs[0].clone());
                        }
                        if !self.ret_unit {
                            parts.push(r.clone());
                        }
                        parts.extend(outs.iter().skip(if self_first { 1 } else { 0 }).cloned());
                        if direct.is_some() {
                            return Ok(wrap(Doc::Atom(format!("Res.ok {}", tuple_term(&parts))), &v));
                        }
                        let binder = if self.ret_unit { "_".to_string() } else { r };
                        let d = Doc::Bind(
                            Box::new(Doc::Atom(v.t.clone())),
                            binder,
                            Box::new(Doc::Atom(format!("Res.ok {}", tuple_term(&parts)))),
                        );
                        Ok(wrap(d, &v))
                    }
                    t => self.unsup(format!("function result of type {:?} where a Result<_, ParserError> is expected", t)),
                }
            }
        }
    }

    fn check_ret_ty(&mut self, t: &Ty) -> R<()> {
        let r = self.ret_ty.clone();
        self.check_compat(t, &r)
    }

    /// `t` (what the expression has) against `want` (what is declared).
    pub fn check_compat(&mut self, t: &Ty, want: &Ty) -> R<()> {
        let ok = match (t, want) {
            (Ty::Infer, _) | (_, Ty::Infer) => true,
            (a, b) if is_int(a) && is_int(b) => !matches!((a, b), (Ty::Usize, Ty::U8) | (Ty::U8, Ty::Usize)),
            (Ty::Opt(a), Ty::Opt(b))
            | (Ty::List(a), Ty::List(b))
            | (Ty::Iter(a), Ty::List(b))
            | (Ty::List(a), Ty::Iter(b))
            | (Ty::Iter(a), Ty::Iter(b))
            | (Ty::ResPE(a), Ty::ResPE(b)) => {
                let (a, b) = ((**a).clone(), (**b).clone());
                return self.check_compat(&a, &b);
            }
            (Ty::Tuple(a), Ty::Tuple(b)) if a.len() == b.len() => {
                for (x, y) in a.clone().iter().zip(b.clone().iter()) {
                    self.check_compat(x, y)?;
                }
                true
            }
            (a, b) => a == b || self.lean_ty(a).ok() == self.lean_ty(b).ok() && self.lean_ty(a).is_ok(),
        };
        if ok {
            Ok(())
        } else {
            self.unsup(format!("type mismatch: {:?} where {:?} is expected", t, want))
        }
    }

    /// A more specific type became known for a declaration (`let mut x = None; .. x = Some(s)`).
    pub fn refine(&mut self, env: &mut Env, d: u32, ty: &Ty) {
        if let Some(v) = env.val_of(d) {
            if contains_infer(&v.ty) && !contains_infer(ty) {
                let mut nv = v.clone();
                nv.ty = ty.clone();
                env.assign(d, nv);
                self.decl_ty.insert(d, ty.clone());
                if let Some(site) = self.decl_site.get(&d) {
                    self.site_ty.entry(*site).or_insert_with(|| ty.clone());
                }
            }
        }
    }

    pub fn tr_block(&mut self, stmts: &[syn::Stmt], env: &Env, in_fn_tail: bool, k: K<'_, 'a>) -> R<Doc> {
        if stmts.is_empty() {
            return k(self, unit(), env);
        }
        let last = stmts.len() == 1;
        let rest = &stmts[1..];
        match &stmts[0] {
            syn::Stmt::Local(l) => self.tr_let(l, rest, env, in_fn_tail, k),
            syn::Stmt::Expr(e, semi) => {
                // `#[cfg(feature = "likelysubtags")] if .. { .. }`: present only when the feature is on for this target
                let attrs: &[syn::Attribute] = match e {
                    syn::Expr::If(x) => &x.attrs,
                    syn::Expr::Match(x) => &x.attrs,
                    syn::Expr::Block(x) => &x.attrs,
                    _ => &[],
                };
                for a in attrs {
                    let toks = norm_tokens(a).replace(' ', "");
                    if toks == "#[cfg(feature=\"likelysubtags\")]" {
                        if !self.features.iter().any(|f| f == "likelysubtags") {
                            return self.tr_block(rest, env, in_fn_tail, k);
                        }
                    } else {
                        return self.unsup(format!("attribute `{}` on a statement", norm_tokens(a)));
                    }
                }
                if last && semi.is_none() && !matches!(e, syn::Expr::While(_) | syn::Expr::ForLoop(_)) {
                    return self.tr_tail(e, env, None, in_fn_tail, k);
                }
                match e {
                    syn::Expr::If(_) | syn::Expr::Match(_) | syn::Expr::Block(_) | syn::Expr::Return(_) | syn::Expr::Break(_) | syn::Expr::Continue(_) => {
                        self.tr_tail(e, env, None, false, &|me: &mut Tr<'a>, v: Val, env1: &Env| {
                            if v.ty != Ty::Unit {
                                return me.unsup("an expression statement whose value is not `()`");
                            }
                            me.tr_block(rest, env1, in_fn_tail, k)
                        })
                    }
                    syn::Expr::Macro(m) => self.tr_stmt_macro(&m.mac, rest, env, in_fn_tail, k),
                    syn::Expr::While(w) => self.tr_while(w, rest, env, in_fn_tail, k),
                    syn::Expr::ForLoop(f) => self.tr_for(f, rest, env, in_fn_tail, k),
                    syn::Expr::Loop(_) => self.unsup("`loop`"),
                    syn::Expr::Assign(a) => self.tr_assign(a, rest, env, in_fn_tail, k),
                    syn::Expr::MethodCall(_) | syn::Expr::Try(_) | syn::Expr::Call(_) => self.tr_effect_stmt(e, rest, env, in_fn_tail, k),
                    other => self.unsup(format!("expression statement `{}`", norm_tokens(other))),
                }
            }
            syn::Stmt::Macro(m) => self.tr_stmt_macro(&m.mac, rest, env, in_fn_tail, k),
            syn::Stmt::Item(_) => self.unsup("item declared inside a function body"),
        }
    }

    fn tr_let(&mut self, l: &syn::Local, rest: &[syn::Stmt], env: &Env, in_fn_tail: bool, k: K<'_, 'a>) -> R<Doc> {
        if !l.attrs.is_empty() {
            return self.unsup("attribute on a `let`");
        }
        let mut pat = &l.pat;
        let mut annot: Option<Ty> = None;
        if let syn::Pat::Type(pt) = pat {
            annot = Some(match &*pt.ty {
                syn::Type::Path(p) if p.path.segments.last().map(|s| s.ident == "RangeInclusive" || s.ident == "Range").unwrap_or(false) => Ty::Range,
                t => self.resolve_ty(t)?,
            });
            pat = &pt.pat;
        }
        // `let (a, b) = e;`
        let mut tuple_names: Option<Vec<Option<String>>> = None;
        let name: Option<String> = match pat {
            syn::Pat::Ident(pi) => {
                if pi.by_ref.is_some() || pi.subpat.is_some() {
                    return self.unsup("`let` pattern");
                }
                Some(pi.ident.to_string())
            }
            syn::Pat::Wild(_) => None,
            syn::Pat::Tuple(t) => {
                let mut ns = Vec::new();
                for e in &t.elems {
                    match e {
                        syn::Pat::Ident(pi) if pi.by_ref.is_none() && pi.subpat.is_none() => ns.push(Some(pi.ident.to_string())),
                        syn::Pat::Wild(_) => ns.push(None),
                        _ => return self.unsup("nested pattern in a destructuring `let`"),
                    }
                }
                tuple_names = Some(ns);
                None
            }
            _ => return self.unsup("destructuring `let`"),
        };
        let init = match &l.init {
            Some(i) => {
                if i.diverge.is_some() {
                    return self.unsup("`let ... else`");
                }
                &i.expr
            }
            None => return self.unsup("`let` without initializer"),
        };
        self.tr_tail(init, env, annot.as_ref(), false, &|me: &mut Tr<'a>, v: Val, env1: &Env| {
            if v.callres {
                return me.unsup("the result of a call to a Result-returning function is stored (use `?` directly)");
            }
            let mut v = v;
            if let Some(a) = &annot {
                me.check_compat(&v.ty, a)?;
                if *a != Ty::Range && !contains_infer(a) {
                    v.ty = a.clone();
                }
            }
            // a type that only later code determines (`let mut x = None;`): known from the first pass
            let site = l as *const syn::Local as usize;
            if contains_infer(&v.ty) {
                if let Some(t) = me.site_ty.get(&site) {
                    v.ty = t.clone();
                }
            }
            let mut env2 = env1.clone();
            if let Some(ns) = &tuple_names {
                let tys = match &v.ty {
                    Ty::Tuple(t) if t.len() == ns.len() => t.clone(),
                    t => return me.unsup(format!("destructuring `let` of {:?}", t)),
                };
                let mut pats = Vec::new();
                for (n, t) in ns.iter().zip(tys.iter()) {
                    match n {
                        Some(n) => {
                            let ln = me.fresh(n);
                            env2.insert(n.clone(), Val::pure_(ln.clone(), t.clone()));
                            pats.push(ln);
                        }
                        None => pats.push("_".into()),
                    }
                }
                let body = me.tr_block(rest, &env2, in_fn_tail, k)?;
                return Ok(Doc::Match(v.t, vec![(format!("({})", pats.join(", ")), body)]));
            }
            match &name {
                None => me.tr_block(rest, &env2, in_fn_tail, k),
                Some(n) => {
                    if v.ty == Ty::Range {
                        env2.insert(n.clone(), v);
                        return me.tr_block(rest, &env2, in_fn_tail, k);
                    }
                    if v.ty == Ty::Unit {
                        return me.unsup("`let` of a unit value");
                    }
                    let ln = me.fresh(n);
                    let d = env2.insert(n.clone(), Val::pure_(ln.clone(), v.ty.clone()));
                    if contains_infer(&v.ty) {
                        me.decl_site.insert(d, site);
                    }
                    let body = me.tr_block(rest, &env2, in_fn_tail, k)?;
                    Ok(Doc::Let(ln, v.t, Box::new(body)))
                }
            }
        })
    }

    /// An expression whose value goes to `k`.  `in_fn_tail`: this is the tail of the function
    /// body (then `Ok(..)`/`Err(..)` know the expected type).
    pub fn tr_tail(&mut self, e: &syn::Expr, env: &Env, expected: Option<&Ty>, in_fn_tail: bool, k: K<'_, 'a>) -> R<Doc> {
        let ret_ty = self.ret_ty.clone();
        let expected: Option<&Ty> = if expected.is_some() { expected } else if in_fn_tail { Some(&ret_ty) } else { None };
        match e {
            syn::Expr::Paren(p) => self.tr_tail(&p.expr, env, expected, in_fn_tail, k),
            syn::Expr::Group(p) => self.tr_tail(&p.expr, env, expected, in_fn_tail, k),
            syn::Expr::Block(b) => {
                if b.label.is_some() || !b.attrs.is_empty() {
                    return self.unsup("labelled block");
                }
                self.tr_scoped_block(&b.block.stmts, env, in_fn_tail, k)
            }
            syn::Expr::Return(r) => {
                if self.pure_only > 0 {
                    return self.unsup("`return` inside an operand or closure");
                }
                match &r.expr {
                    None => self.unsup("`return` without a value"),
                    Some(x) => {
                        let rt = self.ret_ty.clone();
                        self.tr_tail(x, env, Some(&rt), false, &|me: &mut Tr<'a>, v: Val, env1: &Env| me.k_ret(v, env1))
                    }
                }
            }
            syn::Expr::Break(b) => {
                if b.label.is_some() || b.expr.is_some() {
                    return self.unsup("`break` with a label or a value");
                }
                if self.pure_only > 0 {
                    return self.unsup("`break` inside an operand or closure");
                }
                self.loop_break(env)
            }
            syn::Expr::Continue(c) => {
                if c.label.is_some() {
                    return self.unsup("`continue` with a label");
                }
                if self.pure_only > 0 {
                    return self.unsup("`continue` inside an operand or closure");
                }
                self.loop_continue(env)
            }
            syn::Expr::Try(t) if self.plain_res && self.loops.is_empty() && self.pure_only == 0 => {
                // `e?` on an Option in a function that returns an Option: `None` leaves the function
                let v = self.tr_expr(&t.expr, env, None)?;
                let ret_is_opt = matches!(&self.ret_ty, Ty::ResPE(x) if matches!(**x, Ty::Opt(_)));
                match (&v.ty, ret_is_opt, v.callres) {
                    (Ty::Opt(inner), true, false) => {
                        let inner = (**inner).clone();
                        self.force(v, env, &|me: &mut Tr<'a>, v: Val, env1: &Env| {
                            let x = me.fresh("x");
                            let some_d = k(me, Val::pure_(x.clone(), inner.clone()), env1)?;
                            let none_d = me.k_ret(Val::pure_("none", Ty::Opt(Box::new(Ty::Infer))), env1)?;
                            Ok(Doc::Match(v.t, vec![(format!("some {}", x), some_d), ("none".to_string(), none_d)]))
                        })
                    }
                    _ => {
                        // anything else: the expression-level `?`
                        let v = self.tr_expr(e, env, expected)?;
                        if v.callres {
                            return k(self, v, env);
                        }
                        self.force(v, env, k)
                    }
                }
            }
            syn::Expr::If(i) => self.tr_if(i, env, expected, in_fn_tail, k),
            syn::Expr::Match(m) => self.tr_match(m, env, expected, in_fn_tail, k),
            syn::Expr::Macro(m)
                if matches!(
                    m.mac.path.segments.last().map(|s| s.ident.to_string()).as_deref(),
                    Some("panic") | Some("unreachable") | Some("unimplemented") | Some("todo")
                ) =>
            {
                self.tr_panic_macro(&m.mac)
            }
            _ => {
                let v = self.tr_expr(e, env, expected)?;
                if v.callres {
                    // allowed only as the function result
                    return k(self, v, env);
                }
                self.force(v, env, k)
            }
        }
    }

    /// A nested block: the names it declares end with it; what it assigned stays.
    pub fn tr_scoped_block(&mut self, stmts: &[syn::Stmt], env: &Env, in_fn_tail: bool, k: K<'_, 'a>) -> R<Doc> {
        let outer = env.clone();
        self.tr_block(stmts, env, in_fn_tail, &|me: &mut Tr<'a>, v: Val, env1: &Env| {
            let e2 = env1.scope_exit(&outer);
            k(me, v, &e2)
        })
    }

    fn tr_panic_macro(&mut self, m: &syn::Macro) -> R<Doc> {
        let name = m.path.segments.last().map(|s| s.ident.to_string()).unwrap_or_default();
        self.effect_guard(&format!("`{}!`", name))?;
        Ok(Doc::Atom("Res.panic".into()))
    }

    fn tr_stmt_macro(&mut self, m: &syn::Macro, rest: &[syn::Stmt], env: &Env, in_fn_tail: bool, k: K<'_, 'a>) -> R<Doc> {
        let name = m.path.segments.last().map(|s| s.ident.to_string()).unwrap_or_default();
        match name.as_str() {
            "panic" | "unreachable" | "unimplemented" | "todo" => self.tr_panic_macro(m),
            "write" => {
                let (d, nv) = self.tr_write_macro(m, env)?;
                let mut env2 = env.clone();
                let ln = self.fresh("f");
                env2.assign(d, Val::pure_(ln.clone(), Ty::Fmt));
                let body = self.tr_block(rest, &env2, in_fn_tail, k)?;
                Ok(Doc::Let(ln, nv, Box::new(body)))
            }
            _ => self.unsup(format!("macro `{}!` as a statement", name)),
        }
    }

    fn tr_if(&mut self, i: &syn::ExprIf, env: &Env, expected: Option<&Ty>, in_fn_tail: bool, k: K<'_, 'a>) -> R<Doc> {
        // `if let PAT = e { .. } else { .. }`
        if let syn::Expr::Let(l) = &*i.cond {
            let else_e: Option<&syn::Expr> = i.else_branch.as_ref().map(|(_, e)| &**e);
            let then_b = &i.then_branch;
            let wild = syn::Pat::Wild(syn::PatWild { attrs: vec![], underscore_token: Default::default() });
            return self.tr_match_core(
                &l.expr,
                &[(&*l.pat, None, ArmBody::Block(then_b)), (&wild, None, match else_e { Some(e) => ArmBody::Expr(e), None => ArmBody::Unit })],
                env,
                expected,
                in_fn_tail,
                k,
            );
        }
        let c = self.tr_expr(&i.cond, env, Some(&Ty::Bool))?;
        if c.ty != Ty::Bool || c.callres {
            return self.unsup("`if` condition that is not a bool");
        }
        self.force(c, env, &|me: &mut Tr<'a>, c: Val, env1: &Env| {
            let a = me.tr_scoped_block(&i.then_branch.stmts, env1, in_fn_tail, k)?;
            let b = match &i.else_branch {
                Some((_, e)) => me.tr_tail(e, env1, expected, in_fn_tail, k)?,
                None => k(me, unit(), env1)?,
            };
            Ok(Doc::If(c.t, Box::new(a), Box::new(b)))
        })
    }

    fn tr_match(&mut self, m: &syn::ExprMatch, env: &Env, expected: Option<&Ty>, in_fn_tail: bool, k: K<'_, 'a>) -> R<Doc> {
        let arms: Vec<(&syn::Pat, Option<&syn::Expr>, ArmBody)> =
            m.arms.iter().map(|a| (&a.pat, a.guard.as_ref().map(|(_, g)| &**g), ArmBody::Expr(&a.body))).collect();
        self.tr_match_core(&m.expr, &arms, env, expected, in_fn_tail, k)
    }

    /// An arm: `env` has the pattern's bindings, `outer` is the environment of the `match` (the
    /// bindings end with the arm).
    #[allow(clippy::too_many_arguments)]
    pub fn arm_body_pub(&mut self, b: &ArmBody, env: &Env, outer: &Env, expected: Option<&Ty>, in_fn_tail: bool, k: K<'_, 'a>) -> R<Doc> {
        let outer = outer.clone();
        let k2 = |me: &mut Tr<'a>, v: Val, env1: &Env| {
            let e2 = env1.scope_exit(&outer);
            k(me, v, &e2)
        };
        match b {
            ArmBody::Expr(e) => self.tr_tail(e, env, expected, in_fn_tail, &k2),
            ArmBody::Block(bl) => self.tr_block(&bl.stmts, env, in_fn_tail, &k2),
            ArmBody::Unit => k2(self, unit(), env),
        }
    }

    pub fn tr_match_core(
        &mut self,
        scrut: &syn::Expr,
        arms: &[(&syn::Pat, Option<&syn::Expr>, ArmBody)],
        env: &Env,
        expected: Option<&Ty>,
        in_fn_tail: bool,
        k: K<'_, 'a>,
    ) -> R<Doc> {
        let s = self.tr_expr(scrut, env, None)?;
        if s.itercall.is_some() {
            return self.unsup("`match` on the result of a call that advances the subtag iterator");
        }
        let may_panic = s.callres;
        let mut s = s;
        s.callres = false;
        let arms_v: Vec<(&syn::Pat, Option<&syn::Expr>, &ArmBody)> = arms.iter().map(|(p, g, b)| (*p, *g, b)).collect();
        self.force(s, env, &|me: &mut Tr<'a>, s: Val, env1: &Env| match s.ty.clone() {
            _ if may_panic => me.match_general(&s, &arms_v, env1, expected, in_fn_tail, k, true),
            Ty::Tuple(_) | Ty::Named(_) | Ty::ResPE(_) => me.match_general(&s, &arms_v, env1, expected, in_fn_tail, k, false),
            Ty::Opt(inner) if matches!(*inner, Ty::ResPE(_) | Ty::Tuple(_) | Ty::Named(_) | Ty::Opt(_)) && arms_v.iter().any(|a| nested_some(a.0)) => {
                me.match_general(&s, &arms_v, env1, expected, in_fn_tail, k, false)
            }
            t if is_int(&t) || t == Ty::Char => me.match_scalar(&s, &arms_v, env1, expected, in_fn_tail, k),
            Ty::Bool => me.match_bool(&s, &arms_v, env1, expected, in_fn_tail, k),
            Ty::Opt(inner) => me.match_option(&s, *inner, false, &arms_v, env1, expected, in_fn_tail, k),
            Ty::ResOpaque(inner) => me.match_option(&s, *inner, true, &arms_v, env1, expected, in_fn_tail, k),
            Ty::BSearch => me.match_bsearch(&s, &arms_v, env1, expected, in_fn_tail, k),
            t => me.unsup(format!("`match` on a value of type {:?}", t)),
        })
    }

    /// A pattern over an integer as a Boolean test; `None` = irrefutable.  Returns also a binding.
    fn scalar_pat(&mut self, p: &syn::Pat, s: &Val) -> R<(Option<String>, Option<String>)> {
        match p {
            syn::Pat::Wild(_) => Ok((None, None)),
            syn::Pat::Paren(pp) => self.scalar_pat(&pp.pat, s),
            syn::Pat::Ident(pi) => {
                if pi.subpat.is_some() || pi.by_ref.is_some() || pi.mutability.is_some() {
                    return self.unsup("binding pattern with `@`, `ref` or `mut`");
                }
                let n = pi.ident.to_string();
                if n.chars().next().map(|c| c.is_uppercase()).unwrap_or(false) || self.file_has_const(&n) {
                    return self.unsup(format!("constant or variant `{}` as a pattern", n));
                }
                Ok((None, Some(n)))
            }
            syn::Pat::Lit(l) => {
                let v = self.tr_lit(&l.lit, Some(&s.ty))?;
                if !(is_int(&v.ty) && is_int(&s.ty) || v.ty == s.ty) {
                    return self.unsup("literal pattern of another type than the scrutinee");
                }
                Ok((Some(format!("({} == {})", s.t, v.t)), None))
            }
            syn::Pat::Range(r) => {
                let lo = match &r.start {
                    Some(e) => Some(self.tr_expr(e, &Env::new(), Some(&s.ty))?),
                    None => None,
                };
                let hi = match &r.end {
                    Some(e) => Some(self.tr_expr(e, &Env::new(), Some(&s.ty))?),
                    None => None,
                };
                let incl = matches!(r.limits, syn::RangeLimits::Closed(_));
                let mut parts = Vec::new();
                if let Some(lo) = lo {
                    parts.push(format!("decide ({} ≤ {})", lo.t, s.t));
                }
                if let Some(hi) = hi {
                    parts.push(format!("decide ({} {} {})", s.t, if incl { "≤" } else { "<" }, hi.t));
                }
                if parts.is_empty() {
                    return self.unsup("range pattern without bounds");
                }
                Ok((Some(format!("({})", parts.join(" && "))), None))
            }
            syn::Pat::Or(o) => {
                let mut tests = Vec::new();
                for c in &o.cases {
                    match self.scalar_pat(c, s)? {
                        (Some(t), None) => tests.push(t),
                        _ => return self.unsup("or-pattern with a binding or wildcard alternative"),
                    }
                }
                Ok((Some(format!("({})", tests.join(" || "))), None))
            }
            other => self.unsup(format!("pattern `{}` on an integer", norm_tokens(other))),
        }
    }

    #[allow(clippy::too_many_arguments)]
    fn match_scalar(
        &mut self,
        s: &Val,
        arms: &[(&syn::Pat, Option<&syn::Expr>, &ArmBody)],
        env: &Env,
        expected: Option<&Ty>,
        in_fn_tail: bool,
        k: K<'_, 'a>,
    ) -> R<Doc> {
        if arms.is_empty() {
            return self.unsup("`match`: no irrefutable last arm (exhaustiveness cannot be established)");
        }
        let (pat, guard, body) = arms[0];
        let (test, binding) = self.scalar_pat(pat, s)?;
        let mut env2 = env.clone();
        let mut bound: Option<String> = None;
        if let Some(b) = binding {
            let ln = self.fresh(&b);
            env2.insert(b, Val::pure_(ln.clone(), s.ty.clone()));
            bound = Some(ln);
        }
        let g = match guard {
            Some(g) => {
                let gv = self.tr_expr(g, &env2, Some(&Ty::Bool))?;
                if gv.ty != Ty::Bool || gv.eff() || gv.callres {
                    return self.unsup("match guard that is not a pure bool");
                }
                Some(gv.t)
            }
            None => None,
        };
        let cond = match (test, g) {
            (Some(t), Some(g)) => Some(format!("({} && {})", t, g)),
            (Some(t), None) => Some(t),
            (None, Some(g)) => Some(g),
            (None, None) => None,
        };
        let this = self.arm_body_pub(body, &env2, env, expected, in_fn_tail, k)?;
        let d = match cond {
            None => this, // irrefutable: later arms are unreachable
            Some(c) => {
                let rest = self.match_scalar(s, &arms[1..], env, expected, in_fn_tail, k)?;
                Doc::If(c, Box::new(this), Box::new(rest))
            }
        };
        Ok(match bound {
            Some(ln) => Doc::Let(ln, s.t.clone(), Box::new(d)),
            None => d,
        })
    }

    #[allow(clippy::too_many_arguments)]
    fn match_bool(
        &mut self,
        s: &Val,
        arms: &[(&syn::Pat, Option<&syn::Expr>, &ArmBody)],
        env: &Env,
        expected: Option<&Ty>,
        in_fn_tail: bool,
        k: K<'_, 'a>,
    ) -> R<Doc> {
        let mut t_arm: Option<&ArmBody> = None;
        let mut f_arm: Option<&ArmBody> = None;
        for (p, g, b) in arms {
            if g.is_some() {
                return self.unsup("guard in a `match` on a bool");
            }
            match p {
                syn::Pat::Lit(l) => match &l.lit {
                    syn::Lit::Bool(x) => {
                        if x.value {
                            t_arm = t_arm.or(Some(*b));
                        } else {
                            f_arm = f_arm.or(Some(*b));
                        }
                    }
                    _ => return self.unsup("non-bool literal pattern on a bool"),
                },
                syn::Pat::Wild(_) => {
                    t_arm = t_arm.or(Some(*b));
                    f_arm = f_arm.or(Some(*b));
                }
                _ => return self.unsup("pattern on a bool"),
            }
        }
        match (t_arm, f_arm) {
            (Some(t), Some(f)) => {
                let a = self.arm_body_pub(t, env, env, expected, in_fn_tail, k)?;
                let b = self.arm_body_pub(f, env, env, expected, in_fn_tail, k)?;
                Ok(Doc::If(s.t.clone(), Box::new(a), Box::new(b)))
            }
            _ => self.unsup("`match` on a bool without both cases"),
        }
    }

    /// `match` on an `Option` (or on a `Result` with an opaque error, represented as an Option).
    #[allow(clippy::too_many_arguments)]
    fn match_option(
        &mut self,
        s: &Val,
        inner: Ty,
        is_result: bool,
        arms: &[(&syn::Pat, Option<&syn::Expr>, &ArmBody)],
        env: &Env,
        expected: Option<&Ty>,
        in_fn_tail: bool,
        k: K<'_, 'a>,
    ) -> R<Doc> {
        let (some_name, none_name) = if is_result { ("Ok", "Err") } else { ("Some", "None") };
        let mut out: Vec<(String, Doc)> = Vec::new();
        let (mut have_some, mut have_none) = (false, false);
        for (p, g, b) in arms {
            if g.is_some() {
                return self.unsup("guard in a `match` on an Option/Result");
            }
            if have_some && have_none {
                break; // unreachable arm
            }
            let mut p: &syn::Pat = p;
            while let syn::Pat::Paren(pp) = p {
                p = &pp.pat;
            }
            match p {
                syn::Pat::TupleStruct(ts) => {
                    let ctor = ts.path.segments.last().map(|x| x.ident.to_string()).unwrap_or_default();
                    if ts.elems.len() != 1 {
                        return self.unsup("constructor pattern with other than one field");
                    }
                    let mut sub = &ts.elems[0];
                    loop {
                        match sub {
                            syn::Pat::Reference(r) => sub = &r.pat,
                            syn::Pat::Paren(pp) => sub = &pp.pat,
                            _ => break,
                        }
                    }
                    if ctor == some_name {
                        if have_some {
                            continue;
                        }
                        let mut env2 = env.clone();
                        let pat = match sub {
                            syn::Pat::Ident(pi) if pi.subpat.is_none() && pi.mutability.is_none() => {
                                let ln = self.fresh(&pi.ident.to_string());
                                env2.insert(pi.ident.to_string(), Val::pure_(ln.clone(), inner.clone()));
                                format!("some {}", ln)
                            }
                            syn::Pat::Wild(_) => "some _".to_string(),
                            _ => return self.unsup("nested pattern inside Some(..)/Ok(..)"),
                        };
                        let d = self.arm_body_pub(b, &env2, env, expected, in_fn_tail, k)?;
                        out.push((pat, d));
                        have_some = true;
                    } else if is_result && ctor == none_name {
                        if have_none {
                            continue;
                        }
                        if !matches!(sub, syn::Pat::Wild(_)) {
                            return self.unsup("`Err(e)` pattern that binds a non-ParserError error value");
                        }
                        let d = self.arm_body_pub(b, env, env, expected, in_fn_tail, k)?;
                        out.push(("none".to_string(), d));
                        have_none = true;
                    } else {
                        return self.unsup(format!("pattern `{}(..)`", ctor));
                    }
                }
                syn::Pat::Ident(pi) if !is_result && pi.ident == "None" => {
                    if have_none {
                        continue;
                    }
                    let d = self.arm_body_pub(b, env, env, expected, in_fn_tail, k)?;
                    out.push(("none".to_string(), d));
                    have_none = true;
                }
                syn::Pat::Path(pp) if !is_result && pp.path.is_ident("None") => {
                    if have_none {
                        continue;
                    }
                    let d = self.arm_body_pub(b, env, env, expected, in_fn_tail, k)?;
                    out.push(("none".to_string(), d));
                    have_none = true;
                }
                syn::Pat::Wild(_) => {
                    let d = self.arm_body_pub(b, env, env, expected, in_fn_tail, k)?;
                    out.push(("_".to_string(), d));
                    have_some = true;
                    have_none = true;
                }
                other => return self.unsup(format!("pattern `{}` on an Option/Result", norm_tokens(other))),
            }
        }
        if !(have_some && have_none) {
            return self.unsup("`match` on an Option/Result that does not visibly cover both cases");
        }
        Ok(Doc::Match(s.t.clone(), out))
    }
}

pub enum ArmBody<'x> {
    Expr(&'x syn::Expr),
    Block(&'x syn::Block),
    Unit,
}

