//! What is translated, and to what.  Everything that is *not* read from the Rust sources is in
//! this file: the list of target items, the name each gets in Lean, the Lean type the model gives
//! it (the translator computes its own type from the Rust signature and refuses to emit a
//! definition whose type differs), and the model structures/enumerations that stand for Rust
//! structs/enums.

/// A generated Lean module.
pub struct ModuleCfg {
    /// `Src`, `SrcMatch`, ... (file `UnicLocale/Gen/<name>.lean`)
    pub name: &'static str,
    pub imports: &'static [&'static str],
    /// may definitions in this module mention `LangId` / `ExtType`?
    pub may_use: &'static [&'static str],
    /// emit the helper definitions (`idx`, `sliceFrom`, ...) here
    pub prelude: bool,
}

pub const MODULES: &[ModuleCfg] = &[
    ModuleCfg { name: "Src", imports: &["UnicLocale.Model.Basic"], may_use: &[], prelude: true },
    ModuleCfg {
        name: "SrcMatch",
        imports: &["UnicLocale.Gen.Src", "UnicLocale.Model.LangId"],
        may_use: &["LangId"],
        prelude: false,
    },
    ModuleCfg {
        name: "SrcExtType",
        imports: &["UnicLocale.Gen.Src", "UnicLocale.Model.Ext"],
        may_use: &["LangId", "ExtType"],
        prelude: false,
    },
    ModuleCfg {
        name: "SrcLikely",
        imports: &["UnicLocale.Gen.Src", "UnicLocale.Model.Likely"],
        may_use: &["LangId", "LangId.Dir"],
        prelude: false,
    },
    // the imperative part: loops, mutation, the subtag iterator
    ModuleCfg {
        name: "SrcParse",
        imports: &["UnicLocale.Gen.Src", "UnicLocale.Gen.SrcMatch", "UnicLocale.Gen.SrcExtType", "UnicLocale.Model.Locale"],
        may_use: &["LangId", "ExtType", "UExt", "TExt", "ExtMap", "Locale"],
        prelude: false,
    },
    ModuleCfg {
        name: "SrcSerde",
        imports: &["UnicLocale.Gen.SrcParse", "UnicLocale.Model.Serde"],
        may_use: &["LangId"],
        prelude: false,
    },
    // the proc macros: `Bytes → MacroOut T` (the expansion language `UL.MTok` and its evaluators are `Model/MacroSem.lean`)
    ModuleCfg {
        name: "SrcMacros",
        imports: &["UnicLocale.Gen.SrcParse", "UnicLocale.Gen.SrcLikely", "UnicLocale.Model.MacroSem"],
        may_use: &["LangId", "ExtType", "UExt", "TExt", "ExtMap", "Locale"],
        prelude: false,
    },
];

pub struct Target {
    /// name below `UL.Src.`
    pub lean: &'static str,
    pub module: &'static str,
    /// path below the repository root
    pub file: &'static str,
    /// `Some("Language")` for `impl Language { fn .. }`, `None` for a free function
    pub imp: Option<&'static str>,
    pub func: &'static str,
    /// the Lean type of the model definition this must equal (spaces normalised when compared)
    pub model_type: &'static str,
    /// model definition (for the report only)
    pub model: &'static str,
    /// instantiation of type parameters that are only `PartialEq`: parameter -> Rust type text
    pub generics: &'static [(&'static str, &'static str)],
    pub group: &'static str,
}

const LANG: &str = "unic-langid-impl/src/subtags/language.rs";
const SCRIPT: &str = "unic-langid-impl/src/subtags/script.rs";
const REGION: &str = "unic-langid-impl/src/subtags/region.rs";
const VARIANT: &str = "unic-langid-impl/src/subtags/variant.rs";
const LIB: &str = "unic-langid-impl/src/lib.rs";
const UNICODE: &str = "unic-locale-impl/src/extensions/unicode.rs";
const TRANSFORM: &str = "unic-locale-impl/src/extensions/transform.rs";
const PRIVATE: &str = "unic-locale-impl/src/extensions/private.rs";
const EXTMOD: &str = "unic-locale-impl/src/extensions/mod.rs";
const LIKELY: &str = "unic-langid-impl/src/likelysubtags/mod.rs";
const LIPARSER: &str = "unic-langid-impl/src/parser/mod.rs";
const LOCPARSER: &str = "unic-locale-impl/src/parser/mod.rs";
const LOCLIB: &str = "unic-locale-impl/src/lib.rs";
const SERDE: &str = "unic-langid-impl/src/serde.rs";
const LIFACADE: &str = "unic-langid/src/lib.rs";
const LOCFACADE: &str = "unic-locale/src/lib.rs";
const LIMACROS: &str = "unic-langid-macros-impl/src/lib.rs";
const LOCMACROS: &str = "unic-locale-macros-impl/src/lib.rs";

macro_rules! t {
    ($lean:expr, $module:expr, $file:expr, $imp:expr, $func:expr, $ty:expr, $model:expr, $gen:expr, $group:expr) => {
        Target {
            lean: $lean,
            module: $module,
            file: $file,
            imp: $imp,
            func: $func,
            model_type: $ty,
            model: $model,
            generics: $gen,
            group: $group,
        }
    };
}

/// Order matters: a function may only call functions that come earlier.
pub const TARGETS: &[Target] = &[
    t!("Language.fromBytes", "Src", LANG, Some("Language"), "from_bytes", "Bytes → Res (Option Bytes)", "UL.Language.fromBytes", &[], "Subtags"),
    t!("Language.asStr", "Src", LANG, Some("Language"), "as_str", "Option Bytes → Bytes", "UL.Language.asStr", &[], "Subtags"),
    t!("Language.isMatch", "Src", LANG, Some("Language"), "matches", "Option Bytes → Option Bytes → Bool → Bool → Bool", "UL.Language.isMatch", &[], "Subtags"),
    t!("Script.fromBytes", "Src", SCRIPT, Some("Script"), "from_bytes", "Bytes → Res Bytes", "UL.Script.fromBytes", &[], "Subtags"),
    t!("Region.fromBytes", "Src", REGION, Some("Region"), "from_bytes", "Bytes → Res Bytes", "UL.Region.fromBytes", &[], "Subtags"),
    t!("Variant.fromBytes", "Src", VARIANT, Some("Variant"), "from_bytes", "Bytes → Res Bytes", "UL.Variant.fromBytes", &[], "Subtags"),
    t!("parseKey", "Src", UNICODE, None, "parse_key", "Bytes → Res Bytes", "UL.parseKey", &[], "Ext"),
    t!("parseType", "Src", UNICODE, None, "parse_type", "Bytes → Res (Option Bytes)", "UL.parseType", &[], "Ext"),
    t!("parseAttribute", "Src", UNICODE, None, "parse_attribute", "Bytes → Res Bytes", "UL.parseAttribute", &[], "Ext"),
    t!("isType", "Src", UNICODE, None, "is_type", "Bytes → Bool", "UL.isTypeShape", &[], "Ext"),
    t!("isAttribute", "Src", UNICODE, None, "is_attribute", "Bytes → Bool", "UL.isTypeShape", &[], "Ext"),
    t!("parseTKey", "Src", TRANSFORM, None, "parse_tkey", "Bytes → Res Bytes", "UL.parseTKey", &[], "Ext"),
    t!("parseTValue", "Src", TRANSFORM, None, "parse_tvalue", "Bytes → Res (Option Bytes)", "UL.parseTValue", &[], "Ext"),
    t!("isLanguageSubtag", "Src", TRANSFORM, None, "is_language_subtag", "Bytes → Bool", "UL.isLanguageSubtag", &[], "Ext"),
    t!("parsePrivate", "Src", PRIVATE, None, "parse_value", "Bytes → Res Bytes", "UL.parsePrivate", &[], "Ext"),
    t!("ExtType.fromByte", "SrcExtType", EXTMOD, Some("ExtensionType"), "from_byte", "Nat → Res ExtType", "UL.ExtType.fromByte", &[], "Ext"),
    t!("LangId.subtagMatches", "SrcMatch", LIB, None, "subtag_matches", "Option Bytes → Option Bytes → Bool → Bool → Bool", "UL.LangId.subtagMatches", &[("P", "TinyStr4")], "Match"),
    t!("LangId.isOptionEmpty", "SrcMatch", LIB, None, "is_option_empty", "Option (List Bytes) → Bool", "UL.LangId.isOptionEmpty", &[("P", "TinyStr8")], "Match"),
    t!("LangId.subtagsMatch", "SrcMatch", LIB, None, "subtags_match", "Option (List Bytes) → Option (List Bytes) → Bool → Bool → Bool", "UL.LangId.subtagsMatch", &[("P", "TinyStr8")], "Match"),
    t!("LangId.isMatch", "SrcMatch", LIB, Some("LanguageIdentifier"), "matches", "LangId → LangId → Bool → Bool → Bool", "UL.LangId.isMatch", &[], "Match"),
    // ---- loops, mutation, the subtag iterator (module SrcParse)
    t!("LangId.parseIter", "SrcParse", LIPARSER, None, "parse_language_identifier_from_iter", "List Bytes → Bool → Res (LangId × List Bytes)", "UL.LangId.parseIter", &[], "Parse"),
    t!("LangId.parse", "SrcParse", LIPARSER, None, "parse_language_identifier", "Bytes → Res LangId", "UL.LangId.fromBytes", &[], "Parse"),
    t!("LangId.tryFromIter", "SrcParse", LIB, Some("LanguageIdentifier"), "try_from_iter", "List Bytes → Bool → Res (LangId × List Bytes)", "UL.LangId.parseIter", &[], "Parse"),
    t!("LangId.fromBytes", "SrcParse", LIB, Some("LanguageIdentifier"), "from_bytes", "Bytes → Res LangId", "UL.LangId.fromBytes", &[], "Parse"),
    t!("UExt.parseIter", "SrcParse", UNICODE, Some("UnicodeExtensionList"), "try_from_iter", "List Bytes → Res (UExt × List Bytes)", "UL.UExt.parseIter", &[], "Parse"),
    t!("TExt.parseIter", "SrcParse", TRANSFORM, Some("TransformExtensionList"), "try_from_iter", "List Bytes → Res (TExt × List Bytes)", "UL.TExt.parseIter", &[], "Parse"),
    t!("PExt.parseIter", "SrcParse", PRIVATE, Some("PrivateExtensionList"), "try_from_iter", "List Bytes → Res (List Bytes × List Bytes)", "(fun ts => (UL.PExt.parseIter ts).map (fun p => (p, [])))", &[], "Parse"),
    t!("ExtMap.parseIter", "SrcParse", EXTMOD, Some("ExtensionsMap"), "try_from_iter", "List Bytes → Res (ExtMap × List Bytes)", "(fun ts => (UL.ExtMap.parseIter ts).map (fun m => (m, [])))", &[], "Parse"),
    t!("ExtMap.fromBytes", "SrcParse", EXTMOD, Some("ExtensionsMap"), "from_bytes", "Bytes → Res ExtMap", "UL.ExtMap.fromBytes", &[], "Parse"),
    t!("Locale.parse", "SrcParse", LOCPARSER, None, "parse_locale", "Bytes → Res Locale", "UL.Locale.fromBytes", &[], "Parse"),
    t!("Locale.fromBytes", "SrcParse", LOCLIB, Some("Locale"), "from_bytes", "Bytes → Res Locale", "UL.Locale.fromBytes", &[], "Parse"),
    // ---- Display (the formatter is an output buffer), is_empty, canonicalize
    t!("Language.fmt", "SrcParse", LANG, Some("Display for Language"), "fmt", "Option Bytes → Bytes → Bytes", "(fun l f => f ++ UL.Language.asStr l)", &[], "Fmt"),
    t!("Script.fmt", "SrcParse", SCRIPT, Some("Display for Script"), "fmt", "Bytes → Bytes → Bytes", "(fun s f => f ++ s)", &[], "Fmt"),
    t!("Region.fmt", "SrcParse", REGION, Some("Display for Region"), "fmt", "Bytes → Bytes → Bytes", "(fun s f => f ++ s)", &[], "Fmt"),
    t!("Variant.fmt", "SrcParse", VARIANT, Some("Display for Variant"), "fmt", "Bytes → Bytes → Bytes", "(fun s f => f ++ s)", &[], "Fmt"),
    t!("LangId.fmt", "SrcParse", LIB, Some("Display for LanguageIdentifier"), "fmt", "LangId → Bytes → Bytes", "(fun x f => f ++ UL.LangId.display x)", &[], "Fmt"),
    t!("UExt.isEmpty", "SrcParse", UNICODE, Some("UnicodeExtensionList"), "is_empty", "UExt → Bool", "UL.UExt.isEmpty", &[], "Fmt"),
    t!("TExt.isEmpty", "SrcParse", TRANSFORM, Some("TransformExtensionList"), "is_empty", "TExt → Bool", "UL.TExt.isEmpty", &[], "Fmt"),
    t!("PExt.isEmpty", "SrcParse", PRIVATE, Some("PrivateExtensionList"), "is_empty", "List Bytes → Bool", "(fun p => List.isEmpty p)", &[], "Fmt"),
    t!("ExtMap.isEmpty", "SrcParse", EXTMOD, Some("ExtensionsMap"), "is_empty", "ExtMap → Bool", "UL.ExtMap.isEmpty", &[], "Fmt"),
    t!("UExt.fmt", "SrcParse", UNICODE, Some("Display for UnicodeExtensionList"), "fmt", "UExt → Bytes → Bytes", "(fun u f => f ++ UL.dashAll (UL.UExt.tokens u))", &[], "Fmt"),
    t!("TExt.fmt", "SrcParse", TRANSFORM, Some("Display for TransformExtensionList"), "fmt", "TExt → Bytes → Bytes", "(fun x f => f ++ UL.dashAll (UL.TExt.tokens x))", &[], "Fmt"),
    t!("PExt.fmt", "SrcParse", PRIVATE, Some("Display for PrivateExtensionList"), "fmt", "List Bytes → Bytes → Bytes", "(fun p f => f ++ UL.dashAll (UL.PExt.tokens p))", &[], "Fmt"),
    t!("ExtMap.fmt", "SrcParse", EXTMOD, Some("Display for ExtensionsMap"), "fmt", "ExtMap → Bytes → Bytes", "(fun m f => f ++ UL.ExtMap.display m)", &[], "Fmt"),
    t!("Locale.fmt", "SrcParse", LOCLIB, Some("Display for Locale"), "fmt", "Locale → Bytes → Bytes", "(fun x f => f ++ UL.Locale.display x)", &[], "Fmt"),
    t!("LangId.canonicalize", "SrcParse", LIB, None, "canonicalize", "Bytes → Res Bytes", "UL.LangId.canonicalize", &[], "Fmt"),
    t!("Locale.canonicalize", "SrcParse", LOCLIB, None, "canonicalize", "Bytes → Res Bytes", "UL.Locale.canonicalize", &[], "Fmt"),
    // ---- the mutators and getters of the extension lists and of LanguageIdentifier / Locale (`&mut self`: the new value
    //      of `self` is the first component of the result)
    t!("UExt.keyword", "SrcParse", UNICODE, Some("UnicodeExtensionList"), "keyword", "UExt → Bytes → Res (List Bytes)", "UL.UExt.keyword", &[], "Ops"),
    t!("UExt.keywordKeys", "SrcParse", UNICODE, Some("UnicodeExtensionList"), "keyword_keys", "UExt → List Bytes", "UL.UExt.keywordKeys", &[], "Ops"),
    t!("UExt.setKeyword", "SrcParse", UNICODE, Some("UnicodeExtensionList"), "set_keyword", "UExt → Bytes → List Bytes → Res UExt", "UL.UExt.setKeyword", &[], "Ops"),
    t!("UExt.removeKeyword", "SrcParse", UNICODE, Some("UnicodeExtensionList"), "remove_keyword", "UExt → Bytes → Res (UExt × Bool)", "UL.UExt.removeKeyword", &[], "Ops"),
    t!("UExt.clearKeywords", "SrcParse", UNICODE, Some("UnicodeExtensionList"), "clear_keywords", "UExt → UExt", "UL.UExt.clearKeywords", &[], "Ops"),
    t!("UExt.hasAttribute", "SrcParse", UNICODE, Some("UnicodeExtensionList"), "has_attribute", "UExt → Bytes → Res Bool", "UL.UExt.hasAttribute", &[], "Ops"),
    t!("UExt.attributes", "SrcParse", UNICODE, Some("UnicodeExtensionList"), "attributes", "UExt → List Bytes", "(fun u => u.attributes)", &[], "Ops"),
    t!("UExt.setAttribute", "SrcParse", UNICODE, Some("UnicodeExtensionList"), "set_attribute", "UExt → Bytes → Res UExt", "UL.UExt.setAttribute", &[], "Ops"),
    t!("UExt.removeAttribute", "SrcParse", UNICODE, Some("UnicodeExtensionList"), "remove_attribute", "UExt → Bytes → Res (UExt × Bool)", "UL.UExt.removeAttribute", &[], "Ops"),
    t!("UExt.clearAttributes", "SrcParse", UNICODE, Some("UnicodeExtensionList"), "clear_attributes", "UExt → UExt", "UL.UExt.clearAttributes", &[], "Ops"),
    t!("TExt.tlang", "SrcParse", TRANSFORM, Some("TransformExtensionList"), "tlang", "TExt → Option LangId", "(fun x => x.tlang)", &[], "Ops"),
    t!("TExt.setTLang", "SrcParse", TRANSFORM, Some("TransformExtensionList"), "set_tlang", "TExt → LangId → Res TExt", "(fun x l => Res.ok (UL.TExt.setTLang x l))", &[], "Ops"),
    t!("TExt.clearTLang", "SrcParse", TRANSFORM, Some("TransformExtensionList"), "clear_tlang", "TExt → TExt", "UL.TExt.clearTLang", &[], "Ops"),
    t!("TExt.tfield", "SrcParse", TRANSFORM, Some("TransformExtensionList"), "tfield", "TExt → Bytes → Res (List Bytes)", "UL.TExt.tfield", &[], "Ops"),
    t!("TExt.tfieldKeys", "SrcParse", TRANSFORM, Some("TransformExtensionList"), "tfield_keys", "TExt → List Bytes", "UL.TExt.tfieldKeys", &[], "Ops"),
    t!("TExt.setTField", "SrcParse", TRANSFORM, Some("TransformExtensionList"), "set_tfield", "TExt → Bytes → List Bytes → Res TExt", "UL.TExt.setTField", &[], "Ops"),
    t!("TExt.removeTField", "SrcParse", TRANSFORM, Some("TransformExtensionList"), "remove_tfield", "TExt → Bytes → Res (TExt × Bool)", "UL.TExt.removeTField", &[], "Ops"),
    t!("TExt.clearTFields", "SrcParse", TRANSFORM, Some("TransformExtensionList"), "clear_tfields", "TExt → TExt", "UL.TExt.clearTFields", &[], "Ops"),
    t!("PExt.hasTag", "SrcParse", PRIVATE, Some("PrivateExtensionList"), "has_tag", "List Bytes → Bytes → Res Bool", "UL.PExt.hasTag", &[], "Ops"),
    t!("PExt.addTag", "SrcParse", PRIVATE, Some("PrivateExtensionList"), "add_tag", "List Bytes → Bytes → Res (List Bytes)", "UL.PExt.addTag", &[], "Ops"),
    t!("PExt.removeTag", "SrcParse", PRIVATE, Some("PrivateExtensionList"), "remove_tag", "List Bytes → Bytes → Res (List Bytes × Bool)", "UL.PExt.removeTag", &[], "Ops"),
    t!("PExt.clearTags", "SrcParse", PRIVATE, Some("PrivateExtensionList"), "clear_tags", "List Bytes → List Bytes", "(fun (p : List UL.Bytes) => ([] : List UL.Bytes))", &[], "Ops"),
    t!("LangId.fromParts", "SrcParse", LIB, Some("LanguageIdentifier"), "from_parts", "Option Bytes → Option Bytes → Option Bytes → List Bytes → LangId", "UL.LangId.fromParts", &[], "Ops"),
    t!("LangId.intoParts", "SrcParse", LIB, Some("LanguageIdentifier"), "into_parts", "LangId → Option Bytes × Option Bytes × Option Bytes × List Bytes", "UL.LangId.intoParts", &[], "Ops"),
    t!("LangId.variants", "SrcParse", LIB, Some("LanguageIdentifier"), "variants", "LangId → List Bytes", "UL.LangId.variantList", &[], "Ops"),
    t!("LangId.setVariants", "SrcParse", LIB, Some("LanguageIdentifier"), "set_variants", "LangId → List Bytes → LangId", "UL.LangId.setVariants", &[], "Ops"),
    t!("LangId.hasVariant", "SrcParse", LIB, Some("LanguageIdentifier"), "has_variant", "LangId → Bytes → Bool", "UL.LangId.hasVariant", &[], "Ops"),
    t!("LangId.clearVariants", "SrcParse", LIB, Some("LanguageIdentifier"), "clear_variants", "LangId → LangId", "UL.LangId.clearVariants", &[], "Ops"),
    t!("Locale.fromParts", "SrcParse", LOCLIB, Some("Locale"), "from_parts", "Option Bytes → Option Bytes → Option Bytes → List Bytes → Option ExtMap → Locale", "UL.Locale.fromParts", &[], "Ops"),
    t!("Locale.intoParts", "SrcParse", LOCLIB, Some("Locale"), "into_parts", "Locale → Option Bytes × Option Bytes × Option Bytes × List Bytes × Bytes", "UL.Locale.intoParts", &[], "Ops"),
    t!("Locale.isMatch", "SrcParse", LOCLIB, Some("Locale"), "matches", "Locale → Locale → Bool → Bool → Bool", "UL.Locale.isMatch", &[], "Ops"),
    t!("LangId.fromRawParts", "SrcParse", LIB, Some("LanguageIdentifier"), "from_raw_parts_unchecked", "Option Bytes → Option Bytes → Option Bytes → Option (List Bytes) → LangId", "(fun (l s r : Option UL.Bytes) (v : Option (List UL.Bytes)) => ({ language := l, script := s, region := r, variants := v } : UL.LangId))", &[], "Ops"),
    t!("Locale.fromRawParts", "SrcParse", LOCLIB, Some("Locale"), "from_raw_parts_unchecked", "Option Bytes → Option Bytes → Option Bytes → Option (List Bytes) → ExtMap → Locale", "(fun (l s r : Option UL.Bytes) (v : Option (List UL.Bytes)) (e : UL.ExtMap) => ({ id := { language := l, script := s, region := r, variants := v }, ext := e } : UL.Locale))", &[], "Ops"),
    // ---- glue: FromStr / PartialEq<&str> / conversions (trait impls)
    t!("Language.fromStr", "SrcParse", LANG, Some("FromStr for Language"), "from_str", "Bytes → Res (Option Bytes)", "UL.Language.fromBytes", &[], "Glue"),
    t!("Script.fromStr", "SrcParse", SCRIPT, Some("FromStr for Script"), "from_str", "Bytes → Res Bytes", "UL.Script.fromBytes", &[], "Glue"),
    t!("Region.fromStr", "SrcParse", REGION, Some("FromStr for Region"), "from_str", "Bytes → Res Bytes", "UL.Region.fromBytes", &[], "Glue"),
    t!("Variant.fromStr", "SrcParse", VARIANT, Some("FromStr for Variant"), "from_str", "Bytes → Res Bytes", "UL.Variant.fromBytes", &[], "Glue"),
    t!("Script.asStr", "SrcParse", SCRIPT, Some("Script"), "as_str", "Bytes → Bytes", "(fun (s : UL.Bytes) => s)", &[], "Glue"),
    t!("Region.asStr", "SrcParse", REGION, Some("Region"), "as_str", "Bytes → Bytes", "(fun (s : UL.Bytes) => s)", &[], "Glue"),
    t!("Variant.asStr", "SrcParse", VARIANT, Some("Variant"), "as_str", "Bytes → Bytes", "(fun (s : UL.Bytes) => s)", &[], "Glue"),
    t!("Language.eqStr", "SrcParse", LANG, Some("PartialEq<&str> for Language"), "eq", "Option Bytes → Bytes → Bool", "UL.Language.eqStr", &[], "Glue"),
    t!("Script.eqStr", "SrcParse", SCRIPT, Some("PartialEq<&str> for Script"), "eq", "Bytes → Bytes → Bool", "(fun (s t : UL.Bytes) => s == t)", &[], "Glue"),
    t!("Region.eqStr", "SrcParse", REGION, Some("PartialEq<&str> for Region"), "eq", "Bytes → Bytes → Bool", "(fun (s t : UL.Bytes) => s == t)", &[], "Glue"),
    t!("Variant.eqStr", "SrcParse", VARIANT, Some("PartialEq<&str> for Variant"), "eq", "Bytes → Bytes → Bool", "(fun (s t : UL.Bytes) => s == t)", &[], "Glue"),
    t!("Variant.eqStr2", "SrcParse", VARIANT, Some("PartialEq<str> for Variant"), "eq", "Bytes → Bytes → Bool", "(fun (s t : UL.Bytes) => s == t)", &[], "Glue"),
    t!("Language.clear", "SrcParse", LANG, Some("Language"), "clear", "Option Bytes → Option Bytes", "(fun (_ : Option UL.Bytes) => (none : Option UL.Bytes))", &[], "Glue"),
    t!("Language.tryFromOption", "SrcParse", LANG, Some("TryFrom<Option<T>> for Language"), "try_from", "Option Bytes → Res (Option Bytes)", "UL.Language.tryFromOption", &[], "Glue"),
    t!("LangId.fromStr", "SrcParse", LIB, Some("FromStr for LanguageIdentifier"), "from_str", "Bytes → Res LangId", "UL.LangId.fromBytes", &[], "Glue"),
    t!("LangId.eqStr", "SrcParse", LIB, Some("PartialEq<&str> for LanguageIdentifier"), "eq", "LangId → Bytes → Bool", "UL.LangId.eqStr", &[], "Glue"),
    t!("ExtMap.fromStr", "SrcParse", EXTMOD, Some("FromStr for ExtensionsMap"), "from_str", "Bytes → Res ExtMap", "UL.ExtMap.fromBytes", &[], "Glue"),
    t!("Locale.fromStr", "SrcParse", LOCLIB, Some("FromStr for Locale"), "from_str", "Bytes → Res Locale", "UL.Locale.fromBytes", &[], "Glue"),
    t!("Locale.ofLangId", "SrcParse", LOCLIB, Some("From<LanguageIdentifier> for Locale"), "from", "LangId → Locale", "UL.Locale.ofLangId", &[], "Glue"),
    t!("Locale.toLangId", "SrcParse", LOCLIB, Some("From<Locale> for LanguageIdentifier"), "from", "Locale → LangId", "UL.Locale.toLangId", &[], "Glue"),
    // ---- likely subtags and character direction: the tables are the parameters `T : Tables`, `L : Layout` of the model
    //      (their content is translated from the compiled crate, `Gen/Tables.lean`); `.unwrap()` and table indexing may
    //      panic, so these definitions return `Res`
    t!("Language.isEmpty", "SrcLikely", LANG, Some("Language"), "is_empty", "Option Bytes → Bool", "(fun (l : Option UL.Bytes) => Option.isNone l)", &[], "Likely"),
    // ---- the integer forms of the subtags: `From<subtag> for u32 / u64 / Option<u64>` and `from_raw_unchecked`, from their own
    //      source text (`u64::from_le_bytes(*s.all_bytes())` = `pack`, `TinyStrN::from_bytes_unchecked(v.to_le_bytes())` = `unpack`
    //      are tinystr's contract); every `.into()` / `from_raw_unchecked(..)` call site below rests on these
    t!("Language.toRaw", "SrcLikely", LANG, Some("From<Language> for Option<u64>"), "from", "Option Bytes → Option Nat", "(fun (l : Option UL.Bytes) => Option.map UL.pack l)", &[], "Raw"),
    t!("Language.toRawRef", "SrcLikely", LANG, Some("From<&Language> for Option<u64>"), "from", "Option Bytes → Option Nat", "(fun (l : Option UL.Bytes) => Option.map UL.pack l)", &[], "Raw"),
    t!("Script.toRaw", "SrcLikely", SCRIPT, Some("From<Script> for u32"), "from", "Bytes → Nat", "UL.pack", &[], "Raw"),
    t!("Region.toRaw", "SrcLikely", REGION, Some("From<Region> for u32"), "from", "Bytes → Nat", "UL.pack", &[], "Raw"),
    t!("Variant.toRaw", "SrcLikely", VARIANT, Some("From<Variant> for u64"), "from", "Bytes → Nat", "UL.pack", &[], "Raw"),
    t!("Variant.toRawRef", "SrcLikely", VARIANT, Some("From<&Variant> for u64"), "from", "Bytes → Nat", "UL.pack", &[], "Raw"),
    t!("Language.fromRaw", "SrcLikely", LANG, Some("Language"), "from_raw_unchecked", "Nat → Option Bytes", "(fun (v : Nat) => some (UL.unpack v))", &[], "Raw"),
    t!("Script.fromRaw", "SrcLikely", SCRIPT, Some("Script"), "from_raw_unchecked", "Nat → Bytes", "UL.unpack", &[], "Raw"),
    t!("Region.fromRaw", "SrcLikely", REGION, Some("Region"), "from_raw_unchecked", "Nat → Bytes", "UL.unpack", &[], "Raw"),
    t!("Variant.fromRaw", "SrcLikely", VARIANT, Some("Variant"), "from_raw_unchecked", "Nat → Bytes", "UL.unpack", &[], "Raw"),
    t!("Likely.langFromParts", "SrcLikely", LIKELY, None, "lang_from_parts", "Option Nat × Option Nat × Option Nat → Option (Option Bytes) → Option Bytes → Option Bytes → Res (Option (Option Bytes × Option Bytes × Option Bytes))", "(fun (i : Option Nat × Option Nat × Option Nat) (lang : Option (Option UL.Bytes)) (script region : Option UL.Bytes) => match (lang.orElse fun _ => i.1.map fun s => some (UL.unpack s)) with | some l => UL.Res.ok (some (l, script.orElse (fun _ => i.2.1.map UL.unpack), region.orElse (fun _ => i.2.2.map UL.unpack))) | none => UL.Res.panic)", &[], "Likely"),
    t!("Likely.maximize", "SrcLikely", LIKELY, None, "maximize", "Tables → Option Bytes → Option Bytes → Option Bytes → Res (Option (Option Bytes × Option Bytes × Option Bytes))", "UL.Likely.maximize", &[], "Likely"),
    t!("Likely.minimize", "SrcLikely", LIKELY, None, "minimize", "Tables → Option Bytes → Option Bytes → Option Bytes → Res (Option (Option Bytes × Option Bytes × Option Bytes))", "UL.Likely.minimize", &[], "Likely"),
    t!("LangId.maximize", "SrcLikely", LIB, Some("LanguageIdentifier"), "maximize", "Tables → LangId → Res (LangId × Bool)", "UL.LangId.maximize", &[], "Likely"),
    t!("LangId.minimize", "SrcLikely", LIB, Some("LanguageIdentifier"), "minimize", "Tables → LangId → Res (LangId × Bool)", "UL.LangId.minimize", &[], "Likely"),
    t!("LangId.direction", "SrcLikely", LIB, Some("LanguageIdentifier"), "character_direction", "Tables → Layout → LangId → Res LangId.Dir", "(UL.LangId.direction true)", &[], "Likely"),
    t!("LangId.directionNoLikely", "SrcLikely", LIB, Some("LanguageIdentifier"), "character_direction", "Layout → LangId → Res LangId.Dir", "(fun L x => UL.LangId.direction false ⟨#[], #[], #[], #[], #[], #[]⟩ L x)", &[], "Likely"),
    // ---- serde.rs (`tr_serde.rs`): which string is serialised, what the visitor does with a string; serde's side is `Model/Serde.lean`
    t!("Serde.serialize", "SrcSerde", SERDE, Some("Serialize for LanguageIdentifier"), "serialize", "LangId → Wire", "UL.Serde.serialize", &[], "Serde"),
    t!("Serde.deserialize", "SrcSerde", SERDE, Some("Deserialize<'de> for LanguageIdentifier"), "deserialize", "Wire → Res LangId", "UL.Serde.deserialize", &[], "Serde"),
    // ---- the proc macros (`tr_macro.rs`): parse at build time, emit an expression, rustc evaluates it at the invocation
    t!("Macros.lang", "SrcMacros", LIMACROS, None, "lang", "Bytes → MacroOut (Option Bytes)", "UL.Macros.lang", &[], "Macros"),
    t!("Macros.script", "SrcMacros", LIMACROS, None, "script", "Bytes → MacroOut Bytes", "UL.Macros.script", &[], "Macros"),
    t!("Macros.region", "SrcMacros", LIMACROS, None, "region", "Bytes → MacroOut Bytes", "UL.Macros.region", &[], "Macros"),
    t!("Macros.variant", "SrcMacros", LIMACROS, None, "variant_fn", "Bytes → MacroOut Bytes", "UL.Macros.variant", &[], "Macros"),
    t!("Macros.langid", "SrcMacros", LIMACROS, None, "langid", "Bytes → MacroOut LangId", "UL.Macros.langid", &[], "Macros"),
    t!("Macros.locale", "SrcMacros", LOCMACROS, None, "locale", "Bytes → MacroOut Locale", "UL.Macros.locale", &[], "Macros"),
    // ---- the declarative list macros of the façade crates (`tr_macro.rs`, `translate_list_macro`)
    t!("Macros.langids", "SrcMacros", LIFACADE, None, "langids", "List Bytes → MacroOut (List LangId)", "(UL.Macros.list UL.Macros.langid)", &[], "ListMacros"),
    t!("Macros.langidSlice", "SrcMacros", LIFACADE, None, "langid_slice", "List Bytes → MacroOut (List LangId)", "(UL.Macros.list UL.Macros.langid)", &[], "ListMacros"),
    t!("Macros.locales", "SrcMacros", LOCFACADE, None, "locales", "List Bytes → MacroOut (List Locale)", "(UL.Macros.list UL.Macros.locale)", &[], "ListMacros"),
];

/// Cargo features that are on when a target is translated (default: `likelysubtags` on, as in the harness build).
pub fn features_of(lean: &str) -> Vec<String> {
    match lean {
        "LangId.directionNoLikely" => vec![],
        _ => vec!["likelysubtags".to_string()],
    }
}

/// Files that are parsed (targets, and the definitions of the types they mention).
pub const FILES: &[&str] = &[
    LANG,
    SCRIPT,
    REGION,
    VARIANT,
    LIB,
    UNICODE,
    TRANSFORM,
    PRIVATE,
    EXTMOD,
    LIKELY,
    LIPARSER,
    LOCPARSER,
    LOCLIB,
    LIMACROS,
    LOCMACROS,
    SERDE,
    LIFACADE,
    LOCFACADE,
    "unic-langid-impl/src/errors.rs",
    "unic-locale-impl/src/errors.rs",
    "unic-langid-impl/src/parser/errors.rs",
    "unic-locale-impl/src/parser/errors.rs",
];

/// A Rust struct with named fields that the model represents by a Lean structure.
pub struct RecordCfg {
    pub rust: &'static str,
    pub file: &'static str,
    pub lean: &'static str,
    /// (Rust field, Lean field, Lean type of the field in the model)
    pub fields: &'static [(&'static str, &'static str, &'static str)],
}

pub const RECORDS: &[RecordCfg] = &[
    RecordCfg {
        rust: "LanguageIdentifier",
        file: LIB,
        lean: "LangId",
        fields: &[
            ("language", "language", "Option Bytes"),
            ("script", "script", "Option Bytes"),
            ("region", "region", "Option Bytes"),
            ("variants", "variants", "Option (List Bytes)"),
        ],
    },
    RecordCfg {
        rust: "UnicodeExtensionList",
        file: UNICODE,
        lean: "UExt",
        fields: &[("keywords", "keywords", "AMap"), ("attributes", "attributes", "List Bytes")],
    },
    RecordCfg {
        rust: "TransformExtensionList",
        file: TRANSFORM,
        lean: "TExt",
        fields: &[("tlang", "tlang", "Option LangId"), ("tfields", "tfields", "AMap")],
    },
    // `other` is not modelled (Lean field "-"): no API writes it, and every use of it is refused
    RecordCfg {
        rust: "ExtensionsMap",
        file: EXTMOD,
        lean: "ExtMap",
        fields: &[("unicode", "unicode", "UExt"), ("transform", "transform", "TExt"), ("other", "-", "-"), ("private", "priv", "List Bytes")],
    },
    RecordCfg {
        rust: "Locale",
        file: LOCLIB,
        lean: "Locale",
        fields: &[("id", "id", "LangId"), ("extensions", "ext", "ExtMap")],
    },
];

/// A Rust enum that the model represents by a Lean inductive.  A payload (`Other(char)`) is
/// *dropped* by the model; the translator still requires the payload expression to be pure.
pub struct EnumCfg {
    pub rust: &'static str,
    pub file: &'static str,
    pub lean: &'static str,
    /// (Rust variant, Lean constructor, number of payload fields)
    pub variants: &'static [(&'static str, &'static str, usize)],
}

pub const ENUMS: &[EnumCfg] = &[
    EnumCfg {
        rust: "ExtensionType",
        file: EXTMOD,
        lean: "ExtType",
        variants: &[("Transform", "transform", 0), ("Unicode", "unicode", 0), ("Private", "priv", 0), ("Other", "other", 1)],
    },
    EnumCfg {
        rust: "CharacterDirection",
        file: LIB,
        lean: "LangId.Dir",
        variants: &[("RTL", "rtl", 0), ("LTR", "ltr", 0), ("TTB", "ttb", 0)],
    },
];

/// The statics of `likelysubtags::tables` (read from the compiled crate by the table translator, a parameter `T : Tables` of
/// the model) and the constants of `layout_table` (`L : Layout`): name, Lean term, number of key columns (0 = a plain list).
pub const TABLES: &[(&str, &str, u32)] = &[
    ("LANG_ONLY", "T.langOnly", 1),
    ("LANG_REGION", "T.langRegion", 2),
    ("LANG_SCRIPT", "T.langScript", 2),
    ("SCRIPT_REGION", "T.scriptRegion", 2),
    ("SCRIPT_ONLY", "T.scriptOnly", 1),
    ("REGION_ONLY", "T.regionOnly", 1),
    ("SCRIPTS_CHARACTER_DIRECTION_LTR", "L.ltr", 0),
    ("SCRIPTS_CHARACTER_DIRECTION_RTL", "L.rtl", 0),
    ("SCRIPTS_CHARACTER_DIRECTION_TTB", "L.ttb", 0),
    ("LANGS_CHARACTER_DIRECTION_RTL", "L.rtlLangs", 0),
];

/// `ParserError` (one enum per crate, `<crate>/src/parser/errors.rs`): unit variant -> `UL.Err`.
pub const ERROR_VARIANTS: &[(&str, &str)] = &[
    ("InvalidLanguage", "Err.invalidLanguage"),
    ("InvalidSubtag", "Err.invalidSubtag"),
    ("InvalidExtension", "Err.invalidExtension"),
];

/// Transparent one-field tuple structs (`struct Script(TinyStr4)`): the file each is read from.
pub const NEWTYPES: &[(&str, &str)] = &[
    ("Language", LANG),
    ("Script", SCRIPT),
    ("Region", REGION),
    ("Variant", VARIANT),
    ("PrivateExtensionList", PRIVATE),
];
