#!/usr/bin/env python3
"""Robustness experiments for the source tie (see srclean/README.md).

For every experiment: a fresh scratch copy of the repository sources, one textual edit of a target
function, `srctie.run(copy, root)`, and the status of the affected function(s).

  * kind "rewrite": behaviour-preserving; the theorem is expected to stay `proved`.
  * kind "break":   behaviour-changing;  the theorem is expected NOT to be `proved`
                    (`unproved`, or `untranslated` when the translator refuses the edit).
  * kind "refuse":  uses a construct outside the subset; the function is expected to be
                    `untranslated` (with the construct named) and all others still `proved`.

usage: robustness.py <repo> <root> [--only ID[,ID..]] [--cargo-check]
The scratch copy lives in <root>/.build/repo-rw and is deleted at the end; Gen/*.lean is restored
from <repo> at the end.  With --cargo-check, all rewrites together (and each break on its own copy)
are also compiled with `cargo check --offline`, and the repository's own unit tests are run on the
copy that has all rewrites applied.
"""
import json
import os
import shutil
import subprocess
import sys

LANG = "unic-langid-impl/src/subtags/language.rs"
SCRIPT = "unic-langid-impl/src/subtags/script.rs"
REGION = "unic-langid-impl/src/subtags/region.rs"
VARIANT = "unic-langid-impl/src/subtags/variant.rs"
LIB = "unic-langid-impl/src/lib.rs"
UNICODE = "unic-locale-impl/src/extensions/unicode.rs"
TRANSFORM = "unic-locale-impl/src/extensions/transform.rs"
PRIVATE = "unic-locale-impl/src/extensions/private.rs"
EXTMOD = "unic-locale-impl/src/extensions/mod.rs"

# (id, kind, description, file, old text, new text, [affected functions])
EXPERIMENTS = [
    # ------------------------------------------------------------------ behaviour-preserving
    ("R01", "rewrite", "Language::from_bytes: `(2..=8).contains(&slen)` as two comparisons, conditions reordered",
     LANG,
     "if !(2..=8).contains(&slen) || slen == 4 || !s.is_ascii_alphabetic() {",
     "if slen == 4 || !s.is_ascii_alphabetic() || !(slen >= 2 && slen <= 8) {",
     ["Language.fromBytes"]),
    ("R02", "rewrite", "Script::from_bytes: early return turned into if/else with the positive condition",
     SCRIPT,
     """        if slen != 4 || !s.is_ascii_alphabetic() {
            return Err(ParserError::InvalidSubtag);
        }
        Ok(Self(s.to_ascii_titlecase()))""",
     """        if slen == 4 && s.is_ascii_alphabetic() {
            Ok(Self(s.to_ascii_titlecase()))
        } else {
            Err(ParserError::InvalidSubtag)
        }""",
     ["Script.fromBytes"]),
    ("R03", "rewrite", "Region::from_bytes: `match slen` turned into an if chain, TinyStr creation hoisted into each test",
     REGION,
     """        match slen {
            2 => {
                let s = TinyStr4::from_bytes(v).map_err(|_| ParserError::InvalidSubtag)?;
                if !s.is_ascii_alphabetic() {
                    return Err(ParserError::InvalidSubtag);
                }
                Ok(Self(s.to_ascii_uppercase()))
            }
            3 => {
                let s = TinyStr4::from_bytes(v).map_err(|_| ParserError::InvalidSubtag)?;
                if !s.is_ascii_numeric() {
                    return Err(ParserError::InvalidSubtag);
                }
                Ok(Self(s))
            }
            _ => Err(ParserError::InvalidSubtag),
        }""",
     """        if slen == 2 {
            let s = TinyStr4::from_bytes(v).map_err(|_| ParserError::InvalidSubtag)?;
            if s.is_ascii_alphabetic() {
                return Ok(Self(s.to_ascii_uppercase()));
            }
            Err(ParserError::InvalidSubtag)
        } else if slen != 3 {
            Err(ParserError::InvalidSubtag)
        } else {
            let s = TinyStr4::from_bytes(v).map_err(|_| ParserError::InvalidSubtag)?;
            if s.is_ascii_numeric() {
                Ok(Self(s))
            } else {
                Err(ParserError::InvalidSubtag)
            }
        }""",
     ["Region.fromBytes"]),
    ("R04", "rewrite", "Variant::from_bytes: the big disjunction split into nested ifs with early returns; `contains` as comparisons; `slen == 4` left implicit in the else",
     VARIANT,
     """        if !(4..=8).contains(&slen) {
            return Err(ParserError::InvalidSubtag);
        }

        let s = TinyStr8::from_bytes(v).map_err(|_| ParserError::InvalidSubtag)?;

        if (slen >= 5 && !s.is_ascii_alphanumeric())
            || (slen == 4
                && (!v[0].is_ascii_digit()
                    || v[1..].iter().any(|c: &u8| !c.is_ascii_alphanumeric())))
        {
            return Err(ParserError::InvalidSubtag);
        }

        Ok(Self(s.to_ascii_lowercase()))""",
     """        if slen < 4 || slen > 8 {
            return Err(ParserError::InvalidSubtag);
        }

        let s = TinyStr8::from_bytes(v).map_err(|_| ParserError::InvalidSubtag)?;

        if slen >= 5 {
            if !s.is_ascii_alphanumeric() {
                return Err(ParserError::InvalidSubtag);
            }
        } else if !v[0].is_ascii_digit() {
            return Err(ParserError::InvalidSubtag);
        } else if !v[1..].iter().all(|c: &u8| c.is_ascii_alphanumeric()) {
            return Err(ParserError::InvalidSubtag);
        }

        Ok(Self(s.to_ascii_lowercase()))""",
     ["Variant.fromBytes"]),
    ("R05", "rewrite", "parse_key: const KEY_LENGTH inlined, `map_err(..)?` + Ok turned into a `match` on the Result",
     UNICODE,
     """    if key.len() != KEY_LENGTH || !key[0].is_ascii_alphanumeric() || !key[1].is_ascii_alphabetic() {
        return Err(ParserError::InvalidSubtag);
    }
    let key = TinyStr4::from_bytes(key).map_err(|_| ParserError::InvalidSubtag)?;
    Ok(key.to_ascii_lowercase())""",
     """    if key.len() != 2 || !key[0].is_ascii_alphanumeric() || !key[1].is_ascii_alphabetic() {
        return Err(ParserError::InvalidSubtag);
    }
    match TinyStr4::from_bytes(key) {
        Ok(k) => Ok(k.to_ascii_lowercase()),
        Err(_) => Err(ParserError::InvalidSubtag),
    }""",
     ["parseKey"]),
    ("R06", "rewrite", "parse_type: length test moved before the TinyStr creation (same error), `contains` as comparisons, final if/else as a `match` on a bool",
     UNICODE,
     """    let s = TinyStr8::from_bytes(t).map_err(|_| ParserError::InvalidSubtag)?;
    if !TYPE_LENGTH.contains(&t.len()) || !s.is_ascii_alphanumeric() {
        return Err(ParserError::InvalidSubtag);
    }

    let s = s.to_ascii_lowercase();

    if s == TRUE_TYPE {
        Ok(None)
    } else {
        Ok(Some(s))
    }""",
     """    if t.len() < 3 || t.len() > 8 {
        return Err(ParserError::InvalidSubtag);
    }
    let s = TinyStr8::from_bytes(t).map_err(|_| ParserError::InvalidSubtag)?;
    if !s.is_ascii_alphanumeric() {
        return Err(ParserError::InvalidSubtag);
    }

    let s = s.to_ascii_lowercase();

    match s == TRUE_TYPE {
        true => Ok(None),
        false => Ok(Some(s)),
    }""",
     ["parseType"]),
    ("R07", "rewrite", "is_type: `!any(!p)` rewritten as `all(p)`, operands of && swapped",
     UNICODE,
     """fn is_type(t: &[u8]) -> bool {
    let slen = t.len();
    TYPE_LENGTH.contains(&slen) && !t.iter().any(|c: &u8| !c.is_ascii_alphanumeric())
}""",
     """fn is_type(t: &[u8]) -> bool {
    t.iter().all(|c| c.is_ascii_alphanumeric()) && TYPE_LENGTH.contains(&t.len())
}""",
     ["isType"]),
    ("R08", "rewrite", "is_language_subtag: redundant `|| slen == 4` dropped, `!any(!p)` as `all(p)`",
     TRANSFORM,
     "((2..=8).contains(&slen) || slen == 4) && !t.iter().any(|c: &u8| !c.is_ascii_alphabetic())",
     "(2..=8).contains(&slen) && t.iter().all(|c: &u8| c.is_ascii_alphabetic())",
     ["isLanguageSubtag"]),
    ("R09", "rewrite", "ExtensionType::from_byte: `match` with guard turned into an if chain",
     EXTMOD,
     """        match key {
            b'u' => Ok(ExtensionType::Unicode),
            b't' => Ok(ExtensionType::Transform),
            b'x' => Ok(ExtensionType::Private),
            sign if sign.is_ascii_alphanumeric() => Ok(ExtensionType::Other(char::from(sign))),
            _ => Err(ParserError::InvalidExtension),
        }""",
     """        if key == b'x' {
            return Ok(ExtensionType::Private);
        }
        if key == b't' {
            Ok(ExtensionType::Transform)
        } else if key == b'u' {
            Ok(ExtensionType::Unicode)
        } else if !key.is_ascii_alphanumeric() {
            Err(ParserError::InvalidExtension)
        } else {
            Ok(ExtensionType::Other(char::from(key)))
        }""",
     ["ExtType.fromByte"]),
    ("R10", "rewrite", "parse_value (private): `is_empty()` as `len() == 0`, upper bound as a negated range test",
     PRIVATE,
     "if t.is_empty() || t.len() > 8 || !s.is_ascii_alphanumeric() {",
     "if !s.is_ascii_alphanumeric() || !(1..9).contains(&t.len()) {",
     ["parsePrivate"]),
    ("R11", "rewrite", "subtags_match: helper is_option_empty inlined; is_option_empty itself as a `match`",
     LIB,
     """    subtag.as_ref().map_or(true, |t| t.is_empty())
}

fn subtags_match<P: PartialEq>(
    subtag1: &Option<Box<[P]>>,
    subtag2: &Option<Box<[P]>>,
    as_range1: bool,
    as_range2: bool,
) -> bool {
    // or is some and is empty!
    (as_range1 && is_option_empty(subtag1))
        || (as_range2 && is_option_empty(subtag2))
        || subtag1 == subtag2
}""",
     """    match subtag {
        Some(t) => t.is_empty(),
        None => true,
    }
}

fn subtags_match<P: PartialEq>(
    subtag1: &Option<Box<[P]>>,
    subtag2: &Option<Box<[P]>>,
    as_range1: bool,
    as_range2: bool,
) -> bool {
    if as_range1 && subtag1.as_ref().map_or(true, |t| t.is_empty()) {
        return true;
    }
    subtag1 == subtag2 || (as_range2 && subtag2.as_ref().map_or(true, |t| t.is_empty()))
}""",
     ["LangId.isOptionEmpty", "LangId.subtagsMatch", "LangId.isMatch"]),
    ("R12", "rewrite", "LanguageIdentifier::matches: subtag_matches inlined for the script, conjuncts reordered",
     LIB,
     """        self.language
            .matches(other.language, self_as_range, other_as_range)
            && subtag_matches(&self.script, &other.script, self_as_range, other_as_range)
            && subtag_matches(&self.region, &other.region, self_as_range, other_as_range)
            && subtags_match(""",
     """        subtag_matches(&self.region, &other.region, self_as_range, other_as_range)
            && ((self_as_range && self.script.is_none())
                || (other_as_range && other.script.is_none())
                || self.script == other.script)
            && self
                .language
                .matches(other.language, self_as_range, other_as_range)
            && subtags_match(""",
     ["LangId.isMatch"]),
    ("R13", "rewrite", "Language::matches: disjunction turned into early returns",
     LANG,
     """        (self_as_range && self.0.is_none())
            || (other_as_range && other.borrow().0.is_none())
            || self == *other.borrow()""",
     """        if other_as_range && other.borrow().0.is_none() {
            return true;
        }
        if self_as_range && self.0.is_none() {
            true
        } else {
            self == *other.borrow()
        }""",
     ["Language.isMatch", "LangId.isMatch"]),
    ("R14", "rewrite", "parse_tkey: guard clause turned into nested positive ifs with a fall-through error",
     TRANSFORM,
     """    if key.len() != 2 || !key[0].is_ascii_alphabetic() || !key[1].is_ascii_digit() {
        return Err(ParserError::InvalidSubtag);
    }
    let tkey = TinyStr4::from_bytes(key).map_err(|_| ParserError::InvalidSubtag)?;
    Ok(tkey.to_ascii_lowercase())""",
     """    if key.len() == 2 {
        if key[0].is_ascii_alphabetic() && key[1].is_ascii_digit() {
            let tkey = TinyStr4::from_bytes(key).map_err(|_| ParserError::InvalidSubtag)?;
            return Ok(tkey.to_ascii_lowercase());
        }
    }
    Err(ParserError::InvalidSubtag)""",
     ["parseTKey"]),
    ("R15", "rewrite", "parse_tvalue: two comparisons rewritten as a negated `contains`",
     TRANSFORM,
     "if t.len() < 3 || t.len() > 8 || !s.is_ascii_alphanumeric() {",
     "if !(3..=8).contains(&t.len()) || !s.is_ascii_alphanumeric() {",
     ["parseTValue"]),
    ("R16", "rewrite", "Language::as_str: `unwrap_or` as a `match`",
     LANG,
     """        self.0.as_deref().unwrap_or("und")""",
     """        match self.0.as_deref() {
            Some(s) => s,
            None => "und",
        }""",
     ["Language.asStr"]),
    ("R17", "rewrite", "parse_attribute: const ATTR_LENGTH inlined as `3..=8`, `?` replaced by a match with early return",
     UNICODE,
     """    let s = TinyStr8::from_bytes(t).map_err(|_| ParserError::InvalidSubtag)?;
    if !ATTR_LENGTH.contains(&t.len()) || !s.is_ascii_alphanumeric() {
        return Err(ParserError::InvalidSubtag);
    }

    Ok(s.to_ascii_lowercase())""",
     """    let s = match TinyStr8::from_bytes(t) {
        Ok(s) => s,
        Err(_) => return Err(ParserError::InvalidSubtag),
    };
    if !(3..=8).contains(&t.len()) || !s.is_ascii_alphanumeric() {
        return Err(ParserError::InvalidSubtag);
    }

    Ok(s.to_ascii_lowercase())""",
     ["parseAttribute"]),
    # ------------------------------------------------------------------ behaviour-changing
    ("B01", "break", "Language::from_bytes: lower length bound moved by one (2..=8 -> 3..=8)",
     LANG, "if !(2..=8).contains(&slen) || slen == 4", "if !(3..=8).contains(&slen) || slen == 4",
     ["Language.fromBytes"]),
    ("B02", "break", "Script::from_bytes: alphabetic -> alphanumeric",
     SCRIPT, "if slen != 4 || !s.is_ascii_alphabetic() {", "if slen != 4 || !s.is_ascii_alphanumeric() {",
     ["Script.fromBytes"]),
    ("B03", "break", "Variant::from_bytes: dropped `to_ascii_lowercase`",
     VARIANT, "Ok(Self(s.to_ascii_lowercase()))", "Ok(Self(s))", ["Variant.fromBytes"]),
    ("B04", "break", "Language::from_bytes: magic-constant special case `if v == b\"qaa\" { return Err(..) }`",
     LANG,
     "        let value = s.to_ascii_lowercase();\n",
     "        if v == b\"qaa\" {\n            return Err(ParserError::InvalidLanguage);\n        }\n        let value = s.to_ascii_lowercase();\n",
     ["Language.fromBytes"]),
    ("B05", "break", "Region::from_bytes: swapped error variant in the numeric branch",
     REGION,
     """                if !s.is_ascii_numeric() {
                    return Err(ParserError::InvalidSubtag);""",
     """                if !s.is_ascii_numeric() {
                    return Err(ParserError::InvalidLanguage);""",
     ["Region.fromBytes"]),
    ("B06", "break", "parse_key: `||` -> `&&` between the two character tests",
     UNICODE,
     "!key[0].is_ascii_alphanumeric() || !key[1].is_ascii_alphabetic() {",
     "!key[0].is_ascii_alphanumeric() && !key[1].is_ascii_alphabetic() {",
     ["parseKey"]),
    ("B07", "break", "const TYPE_LENGTH changed from 3..=8 to 3..=7",
     UNICODE, "const TYPE_LENGTH: RangeInclusive<usize> = 3..=8;", "const TYPE_LENGTH: RangeInclusive<usize> = 3..=7;",
     ["parseType", "isType"]),
    ("B08", "break", "is_language_subtag: `|| slen == 4` -> `&& slen != 4`",
     TRANSFORM, "((2..=8).contains(&slen) || slen == 4) &&", "((2..=8).contains(&slen) && slen != 4) &&",
     ["isLanguageSubtag"]),
    ("B09", "break", "ExtensionType::from_byte: dropped `to_ascii_lowercase`",
     EXTMOD, "let key = key.to_ascii_lowercase();", "let key = key;", ["ExtType.fromByte"]),
    ("B10", "break", "parse_value (private): upper bound moved by one (> 8 -> > 7)",
     PRIVATE, "t.is_empty() || t.len() > 8 ||", "t.is_empty() || t.len() > 7 ||", ["parsePrivate"]),
    ("B11", "break", "subtag_matches: `&&` -> `||` in the first range test",
     LIB, "(as_range1 && subtag1.is_none()) || (as_range2 && subtag2.is_none()) || subtag1 == subtag2",
     "(as_range1 || subtag1.is_none()) || (as_range2 && subtag2.is_none()) || subtag1 == subtag2",
     ["LangId.subtagMatches", "LangId.isMatch"]),
    ("B12", "break", "Variant::from_bytes: the digit test looks at v[1] instead of v[0]",
     VARIANT, "(!v[0].is_ascii_digit()", "(!v[1].is_ascii_digit()", ["Variant.fromBytes"]),
    ("B13", "break", "const TRUE_TVALUE changed from \"true\" to \"yes\"",
     TRANSFORM, 'const TRUE_TVALUE: TinyStr8 = tinystr::tinystr!(8, "true");', 'const TRUE_TVALUE: TinyStr8 = tinystr::tinystr!(8, "yes");',
     ["parseTValue"]),
    ("B14", "break", "is_option_empty: `map_or(true, ..)` -> `map_or(false, ..)`",
     LIB, "subtag.as_ref().map_or(true, |t| t.is_empty())", "subtag.as_ref().map_or(false, |t| t.is_empty())",
     ["LangId.isOptionEmpty", "LangId.subtagsMatch", "LangId.isMatch"]),
    ("B15", "break", "Variant::from_bytes: out-of-range index v[4] for a 4-byte variant (a new panic)",
     VARIANT, "v[1..].iter().any(|c: &u8| !c.is_ascii_alphanumeric())", "v[1..].iter().any(|c: &u8| !c.is_ascii_alphanumeric()) || v[4] == b'x'",
     ["Variant.fromBytes"]),
    ("B16", "break", "ExtensionType::from_byte: `u` and `t` swapped",
     EXTMOD, "b'u' => Ok(ExtensionType::Unicode),\n            b't' => Ok(ExtensionType::Transform),",
     "b'u' => Ok(ExtensionType::Transform),\n            b't' => Ok(ExtensionType::Unicode),", ["ExtType.fromByte"]),
    ("B17", "break", "parse_tkey: key[1] digit test -> alphanumeric test",
     TRANSFORM, "!key[1].is_ascii_digit() {", "!key[1].is_ascii_alphanumeric() {", ["parseTKey"]),
    ("B18", "break", "Language::matches: `self == other` -> `self != other`",
     LANG, "|| self == *other.borrow()", "|| self != *other.borrow()", ["Language.isMatch", "LangId.isMatch"]),
    ("B19", "break", "parse_attribute: condition joined with `&&` instead of `||`",
     UNICODE, "if !ATTR_LENGTH.contains(&t.len()) || !s.is_ascii_alphanumeric() {", "if !ATTR_LENGTH.contains(&t.len()) && !s.is_ascii_alphanumeric() {",
     ["parseAttribute"]),
    ("B20", "break", "Language::as_str: default \"und\" -> \"unk\"",
     LANG, 'self.0.as_deref().unwrap_or("und")', 'self.0.as_deref().unwrap_or("unk")', ["Language.asStr"]),
    # ------------------------------------------------------------------ outside the subset: must be refused
    ("U01", "refuse", "parse_key: usize subtraction (`key.len() - 2 != 0`)",
     UNICODE, "if key.len() != KEY_LENGTH ||", "if key.len() - 2 != 0 ||", ["parseKey"]),
    ("U02", "refuse", "Script::from_bytes: `let mut` and an assignment",
     SCRIPT, "        let slen = v.len();\n", "        let mut slen = v.len();\n        slen += 0;\n", ["Script.fromBytes"]),
    ("U03", "refuse", "is_type: a `for` loop",
     UNICODE,
     "    TYPE_LENGTH.contains(&slen) && !t.iter().any(|c: &u8| !c.is_ascii_alphanumeric())\n}\n\nfn is_attribute",
     "    for c in t {\n        if !c.is_ascii_alphanumeric() {\n            return false;\n        }\n    }\n    TYPE_LENGTH.contains(&slen)\n}\n\nfn is_attribute",
     ["isType"]),
    ("U04", "refuse", "parse_tvalue renamed (the target item is missing)",
     TRANSFORM, "fn parse_tvalue(t: &[u8])", "fn parse_tvalue2(t: &[u8])", ["parseTValue"]),
    ("U05", "refuse", "parse_value (private): a method the translator has no contract for (`trim_ascii`)",
     PRIVATE, "let s = TinyStr8::from_bytes(t).map_err", "let s = TinyStr8::from_bytes(t.trim_ascii()).map_err", ["parsePrivate"]),
    ("U06", "refuse", "is_language_subtag: indexing in a function whose model type has no panic value",
     TRANSFORM, "((2..=8).contains(&slen) || slen == 4) &&", "((2..=8).contains(&slen) || slen == 4) && t[0] != b'-' &&",
     ["isLanguageSubtag"]),
    ("U07", "refuse", "Language::from_bytes: `map_err` closure that inspects the TinyStr error",
     LANG, "TinyStr8::from_bytes(v).map_err(|_| ParserError::InvalidLanguage)?", "TinyStr8::from_bytes(v).map_err(|e| { let _ = e; ParserError::InvalidLanguage })?",
     ["Language.fromBytes"]),
    ("U08", "refuse", "ExtensionType gains a variant (the model enumeration no longer matches)",
     EXTMOD, "    /// Private Extension Type marked as `x`.\n    Private,", "    /// Private Extension Type marked as `x`.\n    Private,\n    Reserved,",
     ["ExtType.fromByte"]),
]



LIPARSER = "unic-langid-impl/src/parser/mod.rs"
LOCPARSER = "unic-locale-impl/src/parser/mod.rs"
LIKELY = "unic-langid-impl/src/likelysubtags/mod.rs"

# ---- the imperative subset (loops, mutation, iterator threading, Display, mutators, the likely-subtags cascade).
#      kind "rewrite" here is only recorded: the loop proofs mention the shape of the loop, so a harmless rewrite may end
#      `unproved` (not an alarm, DESIGN.md section 10); kind "break" must not stay `proved`.
EXPERIMENTS += [
    ("L01", "rewrite", "langid parser loop: two independent assignments swapped (`position = 2; script = Some(s);`)",
     LIPARSER, "                script = Some(s);\n                position = 2;", "                position = 2;\n                script = Some(s);",
     ["LangId.parseIter"]),
    ("L02", "rewrite", "-u- parser: sort/dedup of the attributes moved before the final keyword flush",
     UNICODE,
     """        if let Some(current_keyword) = current_keyword {
            uext.keywords.insert(current_keyword, current_types);
        }

        uext.attributes.sort_unstable();
        uext.attributes.dedup();
""",
     """        uext.attributes.sort_unstable();
        uext.attributes.dedup();

        if let Some(current_keyword) = current_keyword {
            uext.keywords.insert(current_keyword, current_types);
        }
""",
     ["UExt.parseIter"]),
    ("L03", "rewrite", "-x- parser: the pushed value bound by a `let` first",
     PRIVATE, "            pext.0.push(parse_value(subtag)?);", "            let v = parse_value(subtag)?;\n            pext.0.push(v);",
     ["PExt.parseIter"]),
    ("L04", "rewrite", "ExtensionsMap loop: `subtag.len() > 1` written `1 < subtag.len()`",
     EXTMOD, "            if subtag.len() > 1 {", "            if 1 < subtag.len() {", ["ExtMap.parseIter"]),
    ("L05", "rewrite", "Display for UnicodeExtensionList: `f.write_str(\"-u\")?` written `write!(f, \"-u\")?`",
     UNICODE, '        f.write_str("-u")?;', '        write!(f, "-u")?;', ["UExt.fmt"]),
    ("L06", "rewrite", "LanguageIdentifier::from_parts: the two branches of the `if` swapped (positive condition)",
     LIB,
     """        let variants = if !variants.is_empty() {
            let mut v = variants.to_vec();
            v.sort_unstable();
            v.dedup();
            Some(v.into_boxed_slice())
        } else {
            None
        };""",
     """        let variants = if variants.is_empty() {
            None
        } else {
            let mut v = variants.to_vec();
            v.sort_unstable();
            v.dedup();
            Some(v.into_boxed_slice())
        };""",
     ["LangId.fromParts"]),
    ("L07", "rewrite", "remove_keyword: the parsed key bound by a `let` first",
     UNICODE, "        Ok(self.keywords.remove(&parse_key(key.as_ref())?).is_some())",
     "        let k = parse_key(key.as_ref())?;\n        Ok(self.keywords.remove(&k).is_some())", ["UExt.removeKeyword"]),
    ("L08", "rewrite", "likelysubtags::minimize: the first trial with an early `continue`-free nested `if` merged (`if let .. { if .. }` -> `if maximize(..) == Some(max_langid)`)",
     LIKELY,
     """    if let Some(trial) = maximize(max_langid.0, None, None) {
        if trial == max_langid {
            return Some((max_langid.0, None, None));
        }
    }
""",
     """    if maximize(max_langid.0, None, None) == Some(max_langid) {
        return Some((max_langid.0, None, None));
    }
""",
     ["Likely.minimize"]),
    # ---- behaviour-changing
    ("K01", "break", "langid parser loop: after a region at position 1 the position becomes 2 (a second region is accepted)",
     LIPARSER, "                region = Some(s);\n                position = 3;\n            } else if let Ok(v) = subtags::Variant::from_bytes(subtag) {\n                variants.push(v);\n                position = 3;\n            } else {\n                break;\n            }\n        } else if position == 2 {",
     "                region = Some(s);\n                position = 2;\n            } else if let Ok(v) = subtags::Variant::from_bytes(subtag) {\n                variants.push(v);\n                position = 3;\n            } else {\n                break;\n            }\n        } else if position == 2 {",
     ["LangId.parseIter"]),
    ("K02", "break", "-u- parser: `current_types = vec![];` dropped (types leak into the next keyword)",
     UNICODE, "                    uext.keywords.insert(current_keyword, current_types);\n                    current_types = vec![];",
     "                    uext.keywords.insert(current_keyword, current_types.clone());", ["UExt.parseIter"]),
    ("K03", "break", "-t- parser: the singleton test `slen == 1` becomes `slen == 0`",
     TRANSFORM, "            } else if slen == 1 {", "            } else if slen == 0 {", ["TExt.parseIter"]),
    ("K04", "break", "ExtensionsMap loop: `seen_unicode = true;` dropped (a repeated -u- is accepted)",
     EXTMOD, "                    seen_unicode = true;\n", "", ["ExtMap.parseIter"]),
    ("K05", "break", "-x- parser: the final `sort_unstable()` dropped",
     PRIVATE, "        pext.0.sort_unstable();\n\n        Ok(pext)", "        Ok(pext)", ["PExt.parseIter"]),
    ("K06", "break", "Display for TransformExtensionList writes `-T`",
     TRANSFORM, '        f.write_str("-t")?;', '        f.write_str("-T")?;', ["TExt.fmt"]),
    ("K07", "break", "remove_tag uses `swap_remove`",
     PRIVATE, "                self.0.remove(idx);", "                self.0.swap_remove(idx);", ["PExt.removeTag"]),
    ("K08", "break", "remove_keyword reports `.is_none()`",
     UNICODE, "        Ok(self.keywords.remove(&parse_key(key.as_ref())?).is_some())",
     "        Ok(self.keywords.remove(&parse_key(key.as_ref())?).is_none())", ["UExt.removeKeyword"]),
    # (first classified as a breaking edit; it is not: with language, script and region all present `maximize` returns early, so
    #  the two look-ups are never both applicable — the theorem rightly still proves)
    ("K09", "rewrite", "likelysubtags::maximize: the language+script table is consulted before the language+region table (never both applicable)",
     LIKELY,
     """        if let Some(r) = region {
            let result = tables::LANG_REGION
                .binary_search_by_key(&(&l, &r.into()), |(key_l, key_r, _)| (key_l, key_r))
                .ok();
            if let Some(r) = result {
                // safe because all table entries are well formed.
                return unsafe { lang_from_parts(tables::LANG_REGION[r].2, None, None, None) };
            }
        }

        if let Some(s) = script {
            let result = tables::LANG_SCRIPT
                .binary_search_by_key(&(&l, &s.into()), |(key_l, key_s, _)| (key_l, key_s))
                .ok();
            if let Some(r) = result {
                // safe because all table entries are well formed.
                return unsafe { lang_from_parts(tables::LANG_SCRIPT[r].2, None, None, None) };
            }
        }
""",
     """        if let Some(s) = script {
            let result = tables::LANG_SCRIPT
                .binary_search_by_key(&(&l, &s.into()), |(key_l, key_s, _)| (key_l, key_s))
                .ok();
            if let Some(r) = result {
                // safe because all table entries are well formed.
                return unsafe { lang_from_parts(tables::LANG_SCRIPT[r].2, None, None, None) };
            }
        }

        if let Some(r) = region {
            let result = tables::LANG_REGION
                .binary_search_by_key(&(&l, &r.into()), |(key_l, key_r, _)| (key_l, key_r))
                .ok();
            if let Some(r) = result {
                // safe because all table entries are well formed.
                return unsafe { lang_from_parts(tables::LANG_REGION[r].2, None, None, None) };
            }
        }
""",
     ["Likely.maximize"]),
    ("K10", "break", "likelysubtags::minimize: the language+script trial before the language+region trial",
     LIKELY,
     "    if max_langid.2.is_some() {\n        if let Some(trial) = maximize(max_langid.0, None, max_langid.2) {\n            if trial == max_langid {\n                return Some((max_langid.0, None, max_langid.2));\n            }\n        }\n    }\n\n    if max_langid.1.is_some() {\n        if let Some(trial) = maximize(max_langid.0, max_langid.1, None) {\n            if trial == max_langid {\n                return Some((max_langid.0, max_langid.1, None));\n            }\n        }\n    }",
     "    if max_langid.1.is_some() {\n        if let Some(trial) = maximize(max_langid.0, max_langid.1, None) {\n            if trial == max_langid {\n                return Some((max_langid.0, max_langid.1, None));\n            }\n        }\n    }\n\n    if max_langid.2.is_some() {\n        if let Some(trial) = maximize(max_langid.0, None, max_langid.2) {\n            if trial == max_langid {\n                return Some((max_langid.0, None, max_langid.2));\n            }\n        }\n    }",
     ["Likely.minimize"]),
    ("K11", "break", "parse_locale passes `allow_extension = false` to the language-identifier parser",
     LOCPARSER, "LanguageIdentifier::try_from_iter(&mut iter, true)", "LanguageIdentifier::try_from_iter(&mut iter, false)", ["Locale.parse"]),
    ("K12", "break", "character_direction: the RTL script table is consulted for the LTR answer",
     LIB,
     "                if layout_table::SCRIPTS_CHARACTER_DIRECTION_LTR.contains(&script.into()) =>\n            {\n                CharacterDirection::LTR",
     "                if layout_table::SCRIPTS_CHARACTER_DIRECTION_RTL.contains(&script.into()) =>\n            {\n                CharacterDirection::LTR",
     ["LangId.direction"]),
]


def fresh_copy(repo, dst):
    if os.path.exists(dst):
        shutil.rmtree(dst)
    shutil.copytree(repo, dst, ignore=shutil.ignore_patterns("target", ".git"))


def apply(dst, exp):
    _id, _kind, _desc, rel, old, new, _aff = exp
    p = os.path.join(dst, rel)
    with open(p, encoding="utf-8") as f:
        text = f.read()
    if text.count(old) != 1:
        raise SystemExit("%s: the text to replace occurs %d times in %s" % (_id, text.count(old), rel))
    with open(p, "w", encoding="utf-8") as f:
        f.write(text.replace(old, new))


def cargo(dst, root, args):
    env = dict(os.environ)
    env["CARGO_NET_OFFLINE"] = "true"
    env["CARGO_TARGET_DIR"] = os.path.join(root, ".build", "cargo-repo-rw")
    p = subprocess.run(["cargo"] + args + ["--offline", "-p", "unic-langid-impl", "-p", "unic-locale-impl"],
                       cwd=dst, env=env, stdout=subprocess.PIPE, stderr=subprocess.STDOUT, universal_newlines=True)
    return p.returncode, p.stdout


def main(argv):
    repo, root = os.path.abspath(argv[0]), os.path.abspath(argv[1])
    only = None
    cargo_check = "--cargo-check" in argv
    if "--only" in argv:
        only = set(argv[argv.index("--only") + 1].split(","))
    sys.path.insert(0, os.path.join(root, "checklib"))
    import srctie
    dst = os.path.join(root, ".build", "repo-rw")
    rows = []
    exps = [e for e in EXPERIMENTS if only is None or e[0] in only]
    try:
        if cargo_check:
            fresh_copy(repo, dst)
            for e in exps:
                if e[1] == "rewrite":
                    apply(dst, e)
            rc, out = cargo(dst, root, ["test"])
            print("ALL REWRITES TOGETHER: cargo test -> %d" % rc, flush=True)
            if rc != 0:
                print(out[-6000:])
            else:
                print("\n".join(l for l in out.splitlines() if l.startswith("test result")))
        for e in exps:
            fresh_copy(repo, dst)
            apply(dst, e)
            compiles = None
            if cargo_check and e[1] == "break":
                rc, out = cargo(dst, root, ["check"])
                compiles = rc == 0
                if rc != 0:
                    print(out[-3000:])
            r = srctie.run(dst, root)
            st = {n: r["functions"].get(n, {}).get("status", "?") for n in e[6]}
            others_bad = sorted(n for n, f in r["functions"].items() if n not in e[6] and f["status"] != "proved"
                                and f.get("group") not in srctie.STRETCH_GROUPS)
            main_fn = e[6][0]
            if e[1] == "rewrite":
                verdict = "survived" if all(s == "proved" for s in st.values()) else "NOT survived"
            elif e[1] == "refuse":
                verdict = "refused" if st[main_fn] == "untranslated" and not others_bad else "NOT refused"
            else:
                verdict = "detected" if st[main_fn] != "proved" else "NOT detected"
            reason = " | ".join("%s: %s" % (n, r["functions"].get(n, {}).get("reason", "")) for n in e[6]
                                if st[n] != "proved")
            rows.append({"id": e[0], "kind": e[1], "desc": e[2], "status": st, "verdict": verdict,
                         "reason": reason[:300], "unexpected_other_failures": others_bad, "compiles": compiles})
            print("%s %-8s %-13s %s %s%s" % (e[0], e[1], verdict, json.dumps(st), e[2],
                                               ("  OTHER FAILURES: %s" % others_bad) if others_bad else ""), flush=True)
            if verdict.startswith("NOT"):
                print("    reason:", reason[:600], flush=True)
    finally:
        if os.path.exists(dst):
            shutil.rmtree(dst)
        r = srctie.run(repo, root)
        bad = [n for n, f in r["functions"].items() if f["status"] != "proved"
               and f.get("group") not in srctie.STRETCH_GROUPS]
        print("restored Gen/*.lean from %s; functions not proved on it: %s" % (repo, bad))
    with open(os.path.join(root, ".build", "robustness.json"), "w") as f:
        json.dump(rows, f, indent=1)


if __name__ == "__main__":
    if len(sys.argv) < 3:
        sys.stderr.write(__doc__)
        sys.exit(2)
    main(sys.argv[1:])
