import subprocess, json, sys, os
W='/tmp/cfgscratch'
def sh(c): return subprocess.run(c, shell=True, cwd=W, capture_output=True, text=True)
def edit(path, old, new, count=1):
    p=os.path.join(W,path); s=open(p).read(); assert old in s, (path, old[:40]); s=s.replace(old,new,count); open(p,'w').write(s)
LM='unic-langid-macros-impl/src/lib.rs'; SE='unic-langid-impl/src/serde.rs'; LOCM='unic-locale-macros-impl/src/lib.rs'
SCRIPT_BLOCK='''    let script = if let Some(script) = script {
        let script: u32 = script.into();
        quote!(Some(unsafe { $crate::subtags::Script::from_raw_unchecked(#script) }))
    } else {
        quote!(None)
    };

'''
REGION_BLOCK='''    let region = if let Some(region) = region {
        let region: u32 = region.into();
        quote!(Some(unsafe { $crate::subtags::Region::from_raw_unchecked(#region) }))
    } else {
        quote!(None)
    };

'''
cases={
 'HM1 langid!: the independent script / region blocks swapped (harmless)': lambda: edit(LM, SCRIPT_BLOCK+REGION_BLOCK, REGION_BLOCK+SCRIPT_BLOCK),
 'HM2 langid!: `if variants.is_empty() { None } else { Some(..) }` (harmless)': lambda: (edit(LM, '    let variants = if !variants.is_empty() {\n', '    let variants = if variants.is_empty() {\n        quote!(None)\n    } else {\n'), edit(LM, '''        quote!(Some(Box::new([#(#v,)*])))
    } else {
        quote!(None)
    };''', '''        quote!(Some(Box::new([#(#v,)*])))
    };''')),
 'HM3 script!: `.unwrap()` for `.expect(..)` (harmless)': lambda: edit(LM, '.parse().expect("Malformed Script Subtag")', '.parse().unwrap()'),
 'HM4 locale!: `let ext = extensions;` bound first (harmless)': lambda: (edit(LOCM, '    let lang: Option<u64> = lang.into();', '    let ext = extensions;\n    let lang: Option<u64> = lang.into();'), edit(LOCM, '#extensions.parse()', '#ext.parse()')),
 'HS1 serde: visit_str maps the error with `E::custom` (harmless)': lambda: edit(SE, '.map_err(serde::de::Error::custom)', '.map_err(E::custom)'),
 'HS2 serde: `deserialize_str` for `deserialize_string` (harmless for a self-describing format)': lambda: edit(SE, 'deserializer.deserialize_string(LanguageIdentifierVisitor)', 'deserializer.deserialize_str(LanguageIdentifierVisitor)'),
 'BM1 variant!: emits `Region::from_raw_unchecked` (breaking)': lambda: edit(LM, 'unsafe { $crate::subtags::Variant::from_raw_unchecked(#variant) }\n    })', 'unsafe { $crate::subtags::Region::from_raw_unchecked(#variant) }\n    })'),
 'BM2 langid!: the script goes where the region belongs (breaking)': lambda: edit(LM, 'from_raw_parts_unchecked(#lang, #script, #region, #variants)', 'from_raw_parts_unchecked(#lang, #region, #script, #variants)'),
 'BM3 locale!: the extensions are dropped (breaking)': lambda: edit(LOCM, '#extensions.parse().expect("must parse")', '"".parse().expect("must parse")'),
 'BS1 serde: serialises the language only (breaking)': lambda: edit(SE, 'serializer.serialize_str(&self.to_string())', 'serializer.serialize_str(&self.language.to_string())'),
 'BS2 serde: visit_str parses a Locale-less prefix: `s.trim()` (breaking)': lambda: edit(SE, 's.parse::<LanguageIdentifier>()', 's.trim().parse::<LanguageIdentifier>()'),
}
out={}
for name,f in cases.items():
    sh('git checkout -q -- .')
    try:
        f()
    except AssertionError as e:
        out[name]='EDIT FAILED %s'%(e,); print(name, out[name]); continue
    r=subprocess.run(['python3','/verif/checklib/srctie.py',W,'/verif'],capture_output=True,text=True)
    j=json.loads(r.stdout)
    bad={k:(v['status'], v['reason'][:110]) for k,v in j['functions'].items() if v['status']!='proved'}
    out[name]=bad
    print(name, '->', bad if bad else 'all 129 proved', flush=True)
sh('git checkout -q -- .')
json.dump(out, open('/tmp/r7/rehearse.json','w'), indent=1)
