#!/usr/bin/env python3
"""Writes /verif/MANIFEST.json from the table below (kept next to the checks so the two cannot drift)."""
import json, os, sys

ROOT = os.path.dirname(os.path.dirname(os.path.abspath(__file__)))
sys.path.insert(0, os.path.dirname(os.path.abspath(__file__)))

LEVEL_NOTE = ("Trusted: the Lean 4.33 kernel; axioms propext / Classical.choice / Quot.sound only (audited per theorem on every run, "
              "no native_decide, no sorry); the hand-written Lean model of the Rust (lean/UnicLocale/Model) — tied to /repo's current "
              "source by the correspondence run of this check (differential, bounded by its generator streams) and, for the tables, by "
              "the translator that re-reads the compiled statics on every run; the Spec files as the reading of the property; "
              "tinystr / std containers / derived traits modelled by contract.")

TEXT = {
    "C01": ("Theorems (all byte strings, all states, all argument lists): no text-accepting entry point of the model returns `panic` "
            "and every model definition terminates (structural recursion; the dispatch loop's fuel is proved sufficient); the likely-subtags "
            "and direction queries cannot panic on tables satisfying tablesWF, and the compiled tables satisfy it (decide +kernel). "
            "Correspondence: outcome class (returned / panic / died / timeout) of every op on every stream. Bounded time beyond termination, "
            "allocation failure and stack depth are measured on the real code, not proved (partial).",
            "proof of totality of the model + outcome-class correspondence"),
    "C02": ("Theorem fromBytes_exact: for every byte string LanguageIdentifier::from_bytes (model) equals the independent UTS #35 reader's "
            "verdict, value and error variant; canonicalize is its Display. Correspondence on the full result incl. error variant; "
            "the spec's answer is also compared with the implementation directly.",
            "proof of equality with a declarative grammar reader"),
    "C13": ("Theorems: every input accepted by LanguageIdentifier is accepted by Locale with the same id, no extensions and the same string; "
            "for accepted locale strings without empty subtags the id is the parse of the part before the first singleton; the conversions "
            "are identities / projections. Correspondence: both parsers on the same bytes.",
            "proof over the shared language-id state machine"),
    "C15": ("Theorems *_exact: each of Language/Script/Region/Variant::from_bytes (model) succeeds exactly on its UTS #35 production for every "
            "byte string and stores the case-normalised text; und is the empty language (default, clear, TryFrom(None)); as_str/Display/== "
            "expose the stored text; round trip and no-panic corollaries. Correspondence: every byte string of length 0-2, boundary classes "
            "beyond (all 16.8M strings of length 3 in the thorough tier).",
            "proof of exactness per subtag constructor"),
}


def main():
    import props
    checks = []
    for pid in sorted(props.PROPS):
        text, tech = TEXT.get(pid, ("Lean theorems in lean/UnicLocale/Props/%s.lean about the model, tied to the code by the "
                                    "correspondence streams of this check." % pid, "Lean 4 proof + correspondence"))
        checks.append({
            "property_id": pid,
            "quick_cmd": "./check %s --tier quick" % pid,
            "thorough_cmd": "./check %s --tier thorough" % pid,
            "evidence_file": "/verif/evidence/%s.json" % pid,
            "replay_cmd_template": "./check replay {path}",
            "engine": "lean4-model",
            "level_claimed": {"category": "proof", "text": text, "design_ref": "DESIGN.md §4 " + pid},
            "level_note": LEVEL_NOTE,
            "technique": "machine-checked proof in Lean 4 (" + tech + "), model tied to the code by differential correspondence",
        })
    all_ids = [json.loads(l)["id"] for l in open(os.path.join(ROOT, "properties.jsonl"))]
    na = [{"property_id": p, "reason": props.NOT_YET.get(p, "check not built yet in this round (model and statements exist; see DESIGN.md §4)")}
          for p in all_ids if p not in props.PROPS]
    m = {
        "version": 1,
        "setup_cmd": "./check setup",
        "hooks": {
            "guard": "--cfg unic_locale_verif",
            "enable": "harness/.cargo/config.toml sets build.rustflags = [\"--cfg\", \"unic_locale_verif\"]; every check builds /verif/harness "
                      "(path deps on /repo's crates) with it",
            "baseline_off_cmd": "cd /repo && (cargo nextest run --workspace --no-fail-fast --offline || cargo test --workspace --no-fail-fast --offline)",
            "source_commits": ["75cf1dc", "7d35dcb"],
            "add_only": True,
        },
        "engines": [{
            "name": "lean4-model", "path": "lean/", "serves_properties": sorted(props.PROPS),
            "kind_free_text": "Lean 4 model + specs + theorems (lake project UnicLocale, core Lean only), line-protocol driver (lean_exe), "
                              "Rust correspondence harness (harness/), translators (gen/)",
        }],
        "checks": checks,
        "not_applicable": na,
        "notes": "All checks share ./check; evidence is rewritten on every run. known_findings.json lists the defects repaired by fix: commits.",
    }
    json.dump(m, open(os.path.join(ROOT, "MANIFEST.json"), "w"), indent=1)
    print("MANIFEST.json: %d checks, %d not_applicable" % (len(checks), len(na)))


if __name__ == "__main__":
    main()
