#!/usr/bin/env python3
"""Writes /verif/MANIFEST.json from the table below (kept next to the checks so the two cannot drift)."""
import json, os, sys

ROOT = os.path.dirname(os.path.dirname(os.path.abspath(__file__)))
sys.path.insert(0, os.path.dirname(os.path.abspath(__file__)))

LEVEL_NOTE = ("Trusted: the Lean 4.33 kernel; axioms propext / Classical.choice / Quot.sound only (audited per theorem on every run, "
              "no native_decide, no sorry); the hand-written Lean model of the Rust (lean/UnicLocale/Model) — tied to /repo's current "
              "source by the correspondence run of this check (differential, bounded by its generator streams) and, for the tables, by "
              "the translator that re-reads the compiled statics on every run (the CLDR JSON translator is cross-checked by an independent "
              "reader written in Lean), and, for the functions listed in the evidence under source_tie (129: subtag code, parsers with their loops, "
              "Display impls, mutators, the likely-subtags cascade, the integer conversions, the serde impls, the proc and list macros), by the translator srclean "
              "(Rust source text -> Lean definition, regenerated on every run) with a theorem UL.SrcTie.<f>_eq that the source-derived "
              "definition equals the model's for all inputs; the Spec files as the reading of the property; "
              "tinystr / std containers / derived traits modelled by contract.")

TEXT = {
    "C01": ("Theorems (all byte strings, all states, all argument lists): no text-accepting entry point of the model returns `panic` "
            "and every model definition terminates (structural recursion; the dispatch loop's fuel is proved sufficient); the likely-subtags "
            "and direction queries cannot panic on tables satisfying tablesWF, and the compiled tables satisfy it (decide +kernel). "
            "Correspondence: outcome class (returned / panic / died / timeout) of every op on every stream. Bounded time beyond termination, "
            "allocation failure and stack depth are measured on the real code, not proved (partial).",
            "proof of totality of the model + outcome-class correspondence"),
    "C02": ("Theorem fromBytes_exact: for every byte string LanguageIdentifier::from_bytes (model) equals the independent UTS #35 reader's "
            "verdict, value and error variant; canonicalize is its Display. Correspondence on the full result incl. error variant; "
            "the spec's answer is also compared with the implementation directly.",
            "proof of equality with a declarative grammar reader"),
    "C04": ("Theorems: Locale.inv x -> Spec.isCanonical (display x) (independent recogniser of the canonical form written from the property: "
            "charset, case rules, variants/attributes strictly increasing, order t,u,x, keys sorted, no `true`, nothing for an empty "
            "extension, private tags sorted); every value reachable by parsing, from_parts and any history of mutators satisfies inv "
            "(reachability theorem step_inv / run_inv); canonicalize = parse then Display; display of a parsed value is never longer than "
            "the input (weight argument over every parser loop). Correspondence: to_string/canonicalize output bytes on wf/near/token "
            "streams and on every state of operation histories; an independent Python recogniser judges the implementation's strings.",
            "proof that the representation invariant implies the canonical form, plus reachability of the invariant"),
    "C05": ("Theorems: for every value with the representation invariant, parsing its display gives back the value (LangId, Locale, "
            "ExtensionsMap, the four subtags; token-level versions with arbitrary continuation), parse => invariant, hence canonicalize is "
            "idempotent for every byte string. Correspondence: parse(to_string(x)) == x computed by the real crates on wf/near/token streams, "
            "subtags and every state of operation histories.",
            "proof of the round trip on the invariant, reachability of the invariant"),
    "C06": ("Theorems: generic - for any tables satisfying tablesWF and any valid (language, script, region), maximize = the dictionary "
            "formulation Spec.maximize over the tables (binary search = find? on strictly sorted tables, proved for the toolchain's "
            "size-halving algorithm); data - the compiled tables (re-translated from the compiled crate on every run) satisfy tablesWF and "
            "are exactly the derivation of the CLDR JSON (decide +kernel over all 8,219 entries), hence maximize = Spec.maximize over the "
            "CLDR association list, every CLDR key maximizes to its value (every_entry), unchanged iff all present or no entry matches, "
            "given subtags kept, most specific entry wins. Correspondence: max/limax on all CLDR keys, their one-subtag perturbations and "
            "cross sections; the CLDR dictionary answer judges the implementation directly.",
            "generic proof (binary search contract + cascade) plus kernel-decided data facts over the complete tables"),
    "C14": ("Theorems: generic - a listed script decides alone, unlisted script + non-RTL language is LTR, variants never matter, the two "
            "configurations differ only when no listed script decides and the language is RTL-listed (then the feature-less build says RTL); "
            "character_direction over the compiled tables = the reference decision over the CLDR dictionary for every valid identifier; "
            "data (decide +kernel over all 710 CLDR layout entries) - with likelysubtags the result equals characterOrder for every locale, "
            "without it every deviation is a script-less identifier of a language CLDR lists with more than one direction. "
            "the two unconditional clauses as one executable function (Spec.directionClause) met by the model for every input "
            "(direction_meets_clause), evaluated by the check on the layout the CLDR files determine. "
            "Correspondence: dir on the 710 names (+ a variant) and the triple streams, in builds with and without the feature; the layout "
            "JSON and the clause oracle judge the implementation directly.",
            "generic proof of the decision code plus kernel-decided agreement with the complete CLDR layout data, two feature builds"),
    "C18": ("Theorems by decide +kernel over the complete data, re-decided whenever the compiled tables or the JSON change: each table "
            "strictly increasing in the binary search's integer key order; each table = the derivation (filter, map, sort) of the CLDR "
            "likelySubtags JSON, nothing unplaced, keys distinct (so exactly one row per key, carrying the CLDR value); every stored integer "
            "decodes to a well-formed subtag (tablesWF); direction tables = the derivation of the layout files; CLDR_VERSION = the JSON's; "
            "every row is reachable by the look-up. Tie: the tables are read from the compiled crate through the cfg-guarded re-export "
            "(translator), the JSON by an independent translator. Search: CLDR keys and layout names queried on the real crate.",
            "translation of the compiled tables and the CLDR JSON into Lean, equalities decided by the kernel"),
    "C20": ("Configuration tie (theorems, regenerated on every run): srclean translates the CURRENT source text of every source-tied function once per "
            "cargo feature set of the implementation crates (#[cfg] / #[cfg_attr] / cfg! resolved for exactly that set: none, serde, "
            "likelysubtags+serde+binary; the default translation is likelysubtags) and UL.CfgTie.<config>.<f>_eq proves each definition (and each of "
            "its loops) equal to the default translation for ALL inputs; chained with UL.SrcTie.<f>_eq, every parser, printer, canonicalize, matches, "
            "== &str, subtag constructor, mutator and proc macro is ONE model function in all feature sets (SrcTie/TransferCfg.lean); the item text of "
            "the modelled types (derive lists) and the set of trait impls are compared too; items that exist only with a feature (maximize / minimize) "
            "are reported absent = extra API. The one configuration-dependent body, character_direction, is translated per configuration and the two "
            "translations differ only where the model's two flags differ: no listed script decides and the language is RTL-listed, where the "
            "feature-less build says RTL (direction_configs_differ_only, from C14). Correspondence: the same model answers for the harness built "
            "against none / likelysubtags / all features (quick) or all 8 combinations (thorough, and whenever the configuration tie or the cfg extent "
            "is not the expected one), every transcript also compared with the feature-less build.",
            "proof that every source-derived definition is the same function in every feature configuration (translation per configuration) + "
            "correspondence of every feature build to the same model"),
    "C07": ("Theorems, generic in the tables (any tables satisfying tablesWF): maximize never panics/errs, fills all three, keeps every "
            "given subtag (valid input), flag true iff a look-up hit, false leaves the identifier unchanged, variants/extensions untouched, "
            "idempotent; lifted to Locale through step. Needs only 'a returned row is in the table and matches the key', not binary-search "
            "correctness. Correspondence: max/limax/locmax on the CLDR-derived triple streams; the laws are evaluated on the implementation.",
            "proof by case analysis on the look-up cascade under the table well-formedness predicate"),
    "C08": ("Theorems, generic in the tables: minimize result maximizes to the same triple, uses only subtags of the maximized original, "
            "never more script/region than the input, is the first of language / language-region / language-script that maximizes back, "
            "idempotent, variants/extensions untouched, false leaves unchanged. The clause minimize(maximize(x)) = minimize(x) is FALSE for "
            "the code and the model (kernel-checked witness und-Hant-DE on the shipped tables; it contradicts the 'first of three forms' clause) "
            "- proved in the strongest true form (minimize_maximize_partial) and recorded as a known finding. Correspondence: "
            "min/limin/liminmax/locmin on the triple streams; the dictionary formulation over the CLDR data judges what the methods change.",
            "proof by case analysis under tablesWF; one clause refuted with a kernel-checked witness"),
    "C11": ("Theorems for arbitrary values: LangId.isMatch = the field-wise wildcard specification; flags off = equality; symmetric under "
            "swapping operands with flags; reflexive; monotone in each flag; Locale.isMatch false with private tags, otherwise the id result, "
            "independent of -u-/-t-; the executable oracle of the check (Spec/Match.lean, written from the statement) is proved equal to the model "
            "(isMatch_eq_oracle, locale_isMatch_eq_oracle). Correspondence: the full product domain of ids x flags, with and without "
            "extensions, also with present-but-empty variant lists (Some([]), built through from_raw_parts_unchecked) on either side; the "
            "oracle judges the implementation's answers directly.",
            "proof of equivalence with the declarative matching predicate"),
    "C12": ("Theorems: the derived Ord (cmpLi/cmpLoc: field by field, None first, lexicographic) is a strict total order with cmp = Equal iff "
            "equal; equal values feed equal hash streams (and the stream is injective); on invariant-satisfying values x = y iff "
            "display x = display y (injectivity from the C05 round trip); the abstraction to the set/map model is injective on the invariant, so two "
            "histories with the same abstract end state end in the same value (routes_agree); == &str iff the canonical text equals the "
            "string. Correspondence: eq / cmp / hash-eq / string-eq on pairs; each value against itself rebuilt along 8 routes through the "
            "safe API; LanguageIdentifier and every subtag type compared with strings around their text; the field-by-field order is "
            "recomputed from the rendered fields and judges the implementation.",
            "proof of order laws and of display injectivity via the round trip"),
    "C17": ("Theorems: unpack(pack s) = s and pack injective for every valid subtag of each type (fits u64/u32, never 0), and the conversions "
            "themselves (From<subtag> for u32 / u64 / Option<u64>, from_raw_unchecked, from_raw_parts_unchecked) are pack / unpack / the record as "
            "their own source text says (source tie, tinystr's all_bytes / from_bytes_unchecked by contract); "
            "from_parts(into_parts x) = x on the invariant (exact characterisation of when it fails: Some([]) / unsorted); from_parts with "
            "variants in any order with duplicates = parsing the joined string; Locale parts with the extension string re-parsed (C05). "
            "Correspondence: parts / raw round trips (by value and by reference) and from_parts vs parse on generated values, and the parts round "
            "trip after every step of the operation histories.",
            "proof of pack/unpack inverse and of from_parts = parse"),
    "C03": ("Theorems against the independent three-zone oracle (Spec/Locale.lean, written from the UTS #35 grammar): must_accept - every "
            "token list the strict grammar reads is parsed to exactly the oracle's value (all subtags, normalised); never_drops - every "
            "accepted byte string is read by the relaxed grammar (boundary empties stripped) to exactly the stored value; hence every "
            "input in the reject zone is an error (must_reject_bytes, zone_reject_bytes); Locale.parse never panics. Built on one "
            "characterisation lemma per parser loop. Correspondence: loc/ext on bounded-exhaustive token sequences, well-formed, near-miss "
            "and raw streams; the oracle's zone and value judge the implementation directly.",
            "proof of two simulations between the parser model and a declarative grammar reader"),
    "C09": ("Theorems: (i) for ALL byte strings, inputs equal up to case and '-'/'_' give the same Res (same value or same error) for "
            "Locale, LanguageIdentifier, ExtensionsMap and each subtag type; (ii) on token lists with arbitrary context: order/repetition of "
            "variants (also inside a tlang) and of -u- attributes, order of keywords / tfields with distinct keys, and swapping the -u- and "
            "-t- sections give the same Res (or, for ill-formed bodies, both fail). Correspondence: pairs of spellings related by these "
            "transformations (also rejected ones), at three entry points: Locale, LanguageIdentifier, ExtensionsMap.",
            "proof that every parser factors through case/separator normalisation; permutation lemmas on the functional forms"),
    "C10": ("Refinement theorem: for every value with the invariant and every public call with arbitrary argument bytes, the abstract value "
            "and the output equal those of the reference model (Spec/AbsOps.lean: sorted sets, a sorted multiset, ordered maps; written "
            "from the property); all getters agree (obs_refines); errors leave the value unchanged and happen iff the argument is malformed; "
            "accepted arguments are stored in the parser's normal form; lifted by induction to every history from default() or any parsed "
            "value, with the invariant and the re-parse (C05) after every step (histories_full). Correspondence: exhaustive short and random "
            "long histories, every getter after every step; the reference model itself is also run against the implementation.",
            "refinement proof to an abstract set/map specification, induction over operation lists"),
    "C16": ("Theorems: for EVERY literal each macro yields the value run-time parsing yields, or a compile-time error iff run-time parsing fails; "
            "locale! never fails at run time (the emitted extension string re-parses, C05); list macros compile iff every element does "
            "(Model/Macros.lean). Source tie: the six proc macros are translated from the macro crates' current source text (srclean tr_macro.rs: the "
            "literal parsed at build time by the source-derived FromStr, every quote! body read as a term of the expansion language UL.MTok) and "
            "proved equal to that model (UL.SrcTie.Macros.*_eq), so the theorems hold of the source-derived macros against the source-derived "
            "run-time parsers (SrcTie/TransferMacros.lean). By contract: how rustc evaluates an expansion (Model/MacroSem.lean: interpolated integer = "
            "that literal, from_raw_unchecked = unpack, type error = compile error), proc_macro_hack / syn / quote, macro_rules' matching (the list macros "
            "are read from their macro_rules text: the two-arm shape over a translated element macro); that "
            "contract is exercised on every run by compiling and running a generated crate (one invocation per line, errors attributed to lines "
            "through the expansion chain) against /repo.",
            "proof over the expansions as the macro crates' source text defines them; rustc's evaluation of an expansion by contract, exercised by "
            "a generated program"),
    "C19": ("Source tie: the two impls are translated from serde.rs' own text (which string is serialised = the source-derived Display; the visitor defines "
            "visit_str only; visit_str = the source-derived FromStr) and proved equal to the model, so the theorems below hold of the source-derived "
            "impls, printer and parser (SrcTie/TransferSerde.lean). Theorems about the model of serde.rs: serialize = the canonical string (ASCII letters, digits, '-' only, so no JSON escape); "
            "deserialize(str s) = from_bytes s; deserialize(serialize x) = ok x for every obtainable x (C05); non-string and ill-formed "
            "inputs are errors; never a panic. serde / serde_json are modelled by contract, exercised by the serde stream (JSON texts with "
            "random escapes, non-string values, ill-formed text) through from_str and from_value; every JSON string is also decoded and handed to "
            "FromStr, and the two results must agree.",
            "proof over a model of the serde impls; serde_json by contract, exercised by correspondence"),
    "C13": ("Theorems: every input accepted by LanguageIdentifier is accepted by Locale with the same id, no extensions and the same string; "
            "for accepted locale strings without empty subtags the id is the parse of the part before the first singleton; the conversions "
            "are identities / projections. Correspondence: both parsers on the same bytes; the conversions also on identifiers with a present-but-"
            "empty variant list; a well-formed locale string (zone oracle of C03) that Locale rejects is reported as having no id.",
            "proof over the shared language-id state machine"),
    "C15": ("Theorems *_exact: each of Language/Script/Region/Variant::from_bytes (model) succeeds exactly on its UTS #35 production for every "
            "byte string and stores the case-normalised text; und is the empty language (default, clear, TryFrom(None)); as_str/Display/== "
            "expose the stored text; round trip and no-panic corollaries. Correspondence: every byte string of length 0-2, boundary classes "
            "beyond (all 16.8M strings of length 3 in the thorough tier).",
            "proof of exactness per subtag constructor"),
}


def main():
    import props
    checks = []
    for pid in sorted(props.CLAIMED):
        text, tech = TEXT.get(pid, ("Lean theorems in lean/UnicLocale/Props/%s.lean about the model, tied to the code by the "
                                    "correspondence streams of this check." % pid, "Lean 4 proof + correspondence"))
        checks.append({
            "property_id": pid,
            "quick_cmd": "./check %s --tier quick" % pid,
            "thorough_cmd": "./check %s --tier thorough" % pid,
            "evidence_file": "/verif/evidence/%s.json" % pid,
            "replay_cmd_template": "./check replay {path}",
            "engine": "lean4-model",
            "level_claimed": {"category": "proof", "text": text, "design_ref": "DESIGN.md §4 " + pid},
            "level_note": LEVEL_NOTE,
            "technique": "machine-checked proof in Lean 4 (" + tech + "), model tied to the code by differential correspondence"
                         + (" and, for the functions it rests on, by translation of the current source text into Lean with "
                            "equality theorems (source tie)" if pid in props.SRC_TIE else ""),
        })
    all_ids = [json.loads(l)["id"] for l in open(os.path.join(ROOT, "properties.jsonl"))]
    na = [{"property_id": p, "reason": props.NOT_YET.get(p, "check not built yet in this round (model and statements exist; see DESIGN.md §4)")}
          for p in all_ids if p not in props.CLAIMED]
    m = {
        "version": 1,
        "setup_cmd": "./check setup",
        "hooks": {
            "guard": "--cfg unic_locale_verif",
            "enable": "harness/.cargo/config.toml sets build.rustflags = [\"--cfg\", \"unic_locale_verif\"]; every check builds /verif/harness "
                      "(path deps on /repo's crates) with it",
            "baseline_off_cmd": "cd /repo && (cargo nextest run --workspace --no-fail-fast --offline || cargo test --workspace --no-fail-fast --offline)",
            "source_commits": ["75cf1dc", "7d35dcb"],
            "add_only": True,
        },
        "engines": [{
            "name": "lean4-model", "path": "lean/", "serves_properties": sorted(props.CLAIMED),
            "kind_free_text": "Lean 4 model + specs + theorems (lake project UnicLocale, core Lean only), line-protocol driver (lean_exe), "
                              "Rust correspondence harness (harness/), translators (gen/ for the tables and the CLDR JSON, srclean/ for Rust source text)",
        }],
        "checks": checks,
        "not_applicable": na,
        "notes": "All checks share ./check; evidence is rewritten on every run. known_findings.json lists the defects repaired by fix: commits.",
    }
    json.dump(m, open(os.path.join(ROOT, "MANIFEST.json"), "w"), indent=1)
    print("MANIFEST.json: %d checks, %d not_applicable" % (len(checks), len(na)))


if __name__ == "__main__":
    main()
