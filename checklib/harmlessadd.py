# development tool (not a registered check): confirms the refactorings left by the sub-agents in /tmp/wth-<n>/OUT/<k> and stores them as seeded/harmless/H<nn>
import json, os, subprocess, shutil, sys
ENV=dict(os.environ, CARGO_NET_OFFLINE="true")
def sh(c,cwd): 
    r=subprocess.run(c,shell=True,cwd=cwd,stdout=subprocess.PIPE,stderr=subprocess.STDOUT,text=True,env=ENV); return r.returncode,r.stdout
n=9
out={}
for i in range(1,8):
    wt='/tmp/wth-%d'%i
    for k in (1,2,3):
        d=os.path.join(wt,'OUT',str(k))
        if not os.path.exists(os.path.join(d,'patch.diff')): continue
        sh('git checkout -q -- . && git clean -fdq -e target -e OUT -e AREA.txt',wt)
        rc,o=sh('git apply OUT/%d/patch.diff'%k,wt)
        if rc: print(i,k,'patch fails',o[-200:]); continue
        rc1,o1=sh('cargo build --workspace --all-features --offline -j 4',wt)
        rc2,o2=sh('cargo test --workspace --no-fail-fast --offline -j 4',wt)
        rc3,o3=sh('cargo test --workspace --all-features --no-fail-fast --offline -j 4',wt)
        sh('git checkout -q -- . && git clean -fdq -e target -e OUT -e AREA.txt',wt)
        ok = rc1==0 and rc2==0 and rc3==0
        hid='H%02d'%n
        print(i,k,hid,'ok' if ok else ('FAIL build=%d test=%d testall=%d'%(rc1,rc2,rc3)), flush=True)
        if ok:
            dd='/verif/seeded/harmless/'+hid
            os.makedirs(dd,exist_ok=True)
            shutil.copy(os.path.join(d,'patch.diff'),dd)
            meta=json.load(open(os.path.join(d,'meta.json')))
            meta['kind']='behaviour-preserving'
            meta['origin']='fresh sub-agent (area %s), round H2; given no access to /verif' % open(os.path.join(wt,'AREA.txt')).read().strip()
            meta['confirmed_by_me']={'build_all_features_rc':rc1,'tests_rc':rc2,'tests_all_features_rc':rc3}
            json.dump(meta,open(os.path.join(dd,'meta.json'),'w'),indent=1)
            n+=1
