#!/usr/bin/env python3
"""Reach of the correspondence streams, measured on the real code (supporting evidence, not a check).

    python3 checklib/coverage.py [--tier quick] [--props C01,C03]   ->  .build/cov/report.json + summary on stdout

Builds the harness with `-C instrument-coverage` (nightly toolchain: it ships llvm-profdata / llvm-cov), answers the
request streams of every claimed property with it, and reports for every source file of /repo's crates which lines with
executable regions were never executed.  A line the streams never reach is a line where the hand-written model is not
tied to the code by the correspondence; the list is what the generators are tuned against (DESIGN.md section 9).
"""
import glob, json, os, subprocess, sys

ROOT = os.path.dirname(os.path.dirname(os.path.abspath(__file__)))
sys.path.insert(0, os.path.join(ROOT, "checklib"))
import runner as R
import props as P

TOOLS = os.path.expanduser("~/.rustup/toolchains/nightly-x86_64-unknown-linux-gnu/lib/rustlib/x86_64-unknown-linux-gnu/bin")


def main():
    args = sys.argv[1:]
    tier = args[args.index("--tier") + 1] if "--tier" in args else "quick"
    pids = args[args.index("--props") + 1].split(",") if "--props" in args else sorted(P.CLAIMED)
    cov = os.path.join(R.BUILD, "cov")
    os.makedirs(cov, exist_ok=True)
    for f in glob.glob(os.path.join(cov, "*.profraw")):
        os.remove(f)
    target = os.path.join(R.BUILD, "cargo-cov")
    env = dict(R.ENV, CARGO_TARGET_DIR=target, RUSTFLAGS="--cfg unic_locale_verif -C instrument-coverage",
               LLVM_PROFILE_FILE=os.path.join(cov, "build-%p.profraw"))   # proc macros are instrumented too: keep their output out of /repo
    r = subprocess.run(["cargo", "+nightly", "build", "--release", "--offline", "--no-default-features", "--features",
                        "likely,serde,macros"], cwd=R.HARNESS_SRC, env=env, capture_output=True, text=True)
    exe = os.path.join(target, "release", "ulharness")
    if r.returncode != 0:
        print(r.stderr[-3000:])
        return 2
    plain, _ = R.build_harness(P.ALL_FEATURES)
    n = 0
    for pid in pids:
        cfg = P.PROPS[pid]
        wd = os.path.join(cov, "req-" + pid)
        os.makedirs(wd, exist_ok=True)
        files = P.gen_requests(plain, cfg, tier, 0, wd)
        for sname, path in files:
            if sname == "macros":
                continue
            base = path + ".sh."
            for f in glob.glob(base + "*"):
                os.remove(f)
            subprocess.check_call(["split", "-n", "l/%d" % R.NPROC, "-d", "-a", "2", path, base])
            procs = []
            for s in sorted(glob.glob(base + "[0-9][0-9]")):
                e = dict(os.environ, LLVM_PROFILE_FILE=os.path.join(cov, "p-%s-%s-%%p.profraw" % (pid, sname)))
                procs.append(subprocess.Popen([exe, "serve"], stdin=open(s, "rb"), stdout=subprocess.DEVNULL,
                                              stderr=subprocess.DEVNULL, env=e))
            for p in procs:
                p.wait()
            n += sum(1 for _ in open(path))
            for f in glob.glob(base + "*"):
                os.remove(f)
            os.remove(path)
    raws = glob.glob(os.path.join(cov, "*.profraw"))
    prof = os.path.join(cov, "all.profdata")
    subprocess.check_call([os.path.join(TOOLS, "llvm-profdata"), "merge", "-sparse", "-o", prof] + raws)
    for f in raws:
        os.remove(f)
    r = subprocess.run([os.path.join(TOOLS, "llvm-cov"), "export", "--format=lcov", "--instr-profile", prof, exe,
                        "--ignore-filename-regex", r"(\.cargo|rustc|/verif/)"], capture_output=True, text=True)
    files = {}
    cur = None
    for line in r.stdout.splitlines():
        if line.startswith("SF:"):
            cur = files.setdefault(line[3:], {})
        elif line.startswith("DA:") and cur is not None:
            ln, cnt = line[3:].split(",")[:2]
            cur[int(ln)] = max(cur.get(int(ln), 0), int(cnt))
    report = {}
    tot = hit = 0
    for f, lines in sorted(files.items()):
        if "/repo/" not in f and R.REPO not in f:
            continue
        if f.endswith("tables.rs") or "/bin/" in f:
            continue
        src = open(f).read().split("\n")
        missed = [ln for ln, c in sorted(lines.items()) if c == 0]
        tot += len(lines)
        hit += len(lines) - len(missed)
        report[f] = {"lines": len(lines), "missed": [(ln, src[ln - 1].strip()) for ln in missed]}
    json.dump({"requests": n, "tier": tier, "props": pids, "files": report, "lines": tot, "hit": hit},
              open(os.path.join(cov, "report.json"), "w"), indent=1)
    print("requests answered: %d; executable lines in /repo's crates (tables.rs and bin/ excluded): %d, executed: %d" % (n, tot, hit))
    for f, v in report.items():
        print("%s: %d/%d" % (f.replace(R.REPO + "/", ""), v["lines"] - len(v["missed"]), v["lines"]))
        for ln, s in v["missed"]:
            print("    %4d  %s" % (ln, s[:110]))
    return 0


if __name__ == "__main__":
    sys.exit(main())
