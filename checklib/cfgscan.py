"""The extent of configuration-dependent code in /repo's library sources (C20).

The model has exactly one configuration parameter (the `likely` flag of `characterDirection`) because the source has exactly
one `cfg(feature = ...)` inside a function body; every other occurrence gates a whole item (a module, a `use`, a method, a macro
re-export), i.e. an "extra API".  This scanner re-reads the sources on every run and reports every `cfg(...)` / `cfg!(...)` /
`cfg_attr(...)` mentioning a feature, with the function whose body contains it (if any).  It raises no alarm by itself: when the
extent differs from the one the model was written for, the C20 check compares ALL eight feature builds instead of three.
"""
import os, re

EXPECTED_IN_BODY = {("unic-langid-impl/src/lib.rs", "character_direction", "likelysubtags")}
CRATES = ["unic-langid-impl", "unic-locale-impl", "unic-langid", "unic-locale", "unic-langid-macros", "unic-langid-macros-impl",
          "unic-locale-macros", "unic-locale-macros-impl"]


def strip(src):
    """comments and string / char literals blanked out (newlines kept)"""
    out = []
    i, n = 0, len(src)
    while i < n:
        c = src[i]
        if src.startswith("//", i):
            j = src.find("\n", i)
            j = n if j < 0 else j
            out.append(" " * (j - i))
            i = j
        elif src.startswith("/*", i):
            depth, j = 1, i + 2
            while j < n and depth:
                if src.startswith("/*", j):
                    depth += 1
                    j += 2
                elif src.startswith("*/", j):
                    depth -= 1
                    j += 2
                else:
                    j += 1
            out.append("".join(ch if ch == "\n" else " " for ch in src[i:j]))
            i = j
        elif c == '"':
            j = i + 1
            while j < n and src[j] != '"':
                j += 2 if src[j] == "\\" else 1
            # keep the text of feature names: cfg(feature = "x") needs it
            out.append(src[i:j + 1].replace("\n", " "))
            i = j + 1
        elif c == "'" and i + 2 < n and (src[i + 2] == "'" or (src[i + 1] == "\\" and src.find("'", i + 2) in range(i + 2, i + 8))):
            j = src.find("'", i + 2)
            out.append(" " * (j + 1 - i))
            i = j + 1
        else:
            out.append(c)
            i += 1
    return "".join(out)


def scan_file(path, rel):
    src = strip(open(path, encoding="utf-8").read())
    found = []
    stack = []          # one entry per open brace: the fn name if the brace opens a fn body, else None
    pending_fn = None   # a `fn name` seen, its body brace not yet
    paren = 0
    line = 1
    i, n = 0, len(src)
    tok = re.compile(r"[A-Za-z_][A-Za-z0-9_]*|#!?\[|.", re.S)
    while i < n:
        m = tok.match(src, i)
        t = m.group(0)
        if t == "\n":
            line += 1
        elif t == "fn":
            m2 = re.match(r"\s+([A-Za-z_][A-Za-z0-9_]*)", src[m.end():])
            if m2:
                pending_fn = m2.group(1)
        elif t in "([":
            paren += 1
        elif t in ")]":
            paren -= 1
        elif t == ";" and paren == 0:
            pending_fn = None           # a declaration without body
        elif t == "{":
            stack.append(pending_fn)
            pending_fn = None
        elif t == "}":
            if stack:
                stack.pop()
        elif t in ("#[", "#![") or t in ("cfg",):
            seg = src[i:i + 400]
            mm = re.match(r"#!?\[\s*(cfg|cfg_attr)\s*\(", seg) if t != "cfg" else re.match(r"cfg\s*!\s*\(", seg)
            if mm:
                # the balanced argument text
                j = i + mm.end()
                depth = 1
                while j < n and depth:
                    depth += src[j] == "("
                    depth -= src[j] == ")"
                    j += 1
                arg = src[i + mm.end():j - 1]
                feats = re.findall(r'feature\s*=\s*"([^"]+)"', arg)
                if feats:
                    enclosing = next((f for f in reversed(stack) if f), None)
                    found.append({"file": rel, "line": line, "in_fn": enclosing, "features": feats,
                                  "negated": "not(" in arg.replace(" ", ""), "text": re.sub(r"\s+", " ", arg)[:120]})
            if t in ("#[", "#!["):
                paren += 1          # the `[` of the attribute
        i = m.end()
    return found


def scan(repo):
    res = []
    for c in CRATES:
        root = os.path.join(repo, c, "src")
        for dp, _, fs in os.walk(root):
            for f in sorted(fs):
                if f.endswith(".rs") and f != "tables.rs":
                    p = os.path.join(dp, f)
                    res.extend(scan_file(p, os.path.relpath(p, repo)))
    return res


def extent(repo):
    """(occurrences, changed?): changed when an occurrence inside a function body is not the expected one, an expected one is gone,
    or any occurrence is negated (`not(feature = ...)`: one of two alternative definitions)"""
    occ = scan(repo)
    body = {(o["file"], o["in_fn"], f) for o in occ if o["in_fn"] for f in o["features"]}
    changed = body != EXPECTED_IN_BODY or any(o["negated"] for o in occ)
    return occ, changed


STATE_PATTERNS = [
    (r"\bthread_local\s*!", "thread_local!"),
    (r"\blazy_static\s*!", "lazy_static!"),
    (r"\bstatic\s+mut\b", "static mut"),
    (r"\bstatic\s+(?:ref\s+)?[A-Za-z_][A-Za-z0-9_]*\s*:\s*[^=;]*\b(?:Cell|RefCell|UnsafeCell|Mutex|RwLock|Atomic[A-Za-z0-9]*|OnceCell|OnceLock|LazyLock|LazyCell|Lazy|Once)\b",
     "static with interior mutability"),
]


def state_scan(repo):
    """Global mutable state in the library sources: `thread_local!`, `lazy_static!`, `static mut`, a `static` whose type has interior
    mutability — anywhere in the crates' `src` (also inside function bodies and in files the translator does not read).  The model
    treats every library function as a function of its arguments; the baseline tree has no such item.  Returns [{file, line, what, text}]."""
    found = []
    for c in CRATES:
        root = os.path.join(repo, c, "src")
        for dp, _, fs in os.walk(root):
            for f in sorted(fs):
                if not f.endswith(".rs") or f == "tables.rs":
                    continue
                p = os.path.join(dp, f)
                src = strip(open(p, encoding="utf-8").read())
                # test modules do not count
                cut = re.search(r"#\[cfg\(test\)\]\s*mod\b", src)
                body = src[:cut.start()] if cut else src
                for pat, what in STATE_PATTERNS:
                    for m in re.finditer(pat, body):
                        line = body.count("\n", 0, m.start()) + 1
                        found.append({"file": os.path.relpath(p, repo), "line": line, "what": what,
                                      "text": re.sub(r"\s+", " ", body[m.start():m.start() + 100])})
    return found


if __name__ == "__main__":
    import json, sys
    occ, ch = extent(sys.argv[1] if len(sys.argv) > 1 else "/repo")
    print(json.dumps(occ, indent=1))
    print("changed:", ch)
