"""Per-property configuration: streams, projections (what the correspondence compares), oracles (the
property itself evaluated on the implementation), and the check driver."""
import collections, json, os, re, subprocess, sys, time

import runner as R
from runner import log

ALL_FEATURES = ("likely", "serde", "macros")

# ------------------------------------------------------------------------------------------------
# small helpers on responses

def strip_kv(resp, key):
    """remove `;key=...` (to the next `;` or space or end)"""
    return re.sub(r";%s=[^; ]*" % key, "", resp)


def get_kv(resp, key):
    m = re.search(r"(?:^|[; ])%s=([^; ]*)" % key, resp)
    return m.group(1) if m else None


def unesc(s):
    """inverse of the %XX escaping of the line protocol"""
    return re.sub(rb"%([0-9A-F]{2})", lambda m: bytes([int(m.group(1), 16)]), s.encode())


def err_class(resp):
    return "err" if resp.startswith("err") else resp


def split_model(mo):
    """model line = `<model>` or `<model>\t<spec>`"""
    if mo is None:
        return None, None
    if "\t" in mo:
        a, b = mo.split("\t", 1)
        return a, b
    return mo, None


CANON_LI = r"[a-z]{2,3}|[a-z]{5,8}"
CANON_RE = re.compile(
    r"^(?:%s)(?:-[A-Z][a-z]{3})?(?:-(?:[A-Z]{2}|[0-9]{3}))?(?:-(?:[a-z0-9]{5,8}|[0-9][a-z0-9]{3}))*"
    r"(?:-t(?:-(?:%s)(?:-[A-Z][a-z]{3})?(?:-(?:[A-Z]{2}|[0-9]{3}))?(?:-(?:[a-z0-9]{5,8}|[0-9][a-z0-9]{3}))*)?(?:-[a-z][0-9](?:-[a-z0-9]{3,8})*)*)?"
    r"(?:-u(?:-[a-z0-9]{3,8})*(?:-[a-z0-9][a-z](?:-[a-z0-9]{3,8})*)*)?"
    r"(?:-x(?:-[a-z0-9]{1,8})+)?$" % (CANON_LI, CANON_LI))


def canonical_problem(s):
    """independent strict recogniser of the canonical form demanded by C04 (on the escaped text)"""
    if "%" in s:
        return "byte outside [A-Za-z0-9-]"
    if not CANON_RE.match(s):
        return "not of the canonical shape"
    toks = s.split("-")
    # split into sections
    sec = {"id": [], "t": [], "u": [], "x": []}
    cur = "id"
    order = []
    for t in toks:
        if len(t) == 1 and cur != "x" and t in "tux":
            cur = t
            order.append(t)
            continue
        sec[cur].append(t)
    if order != sorted(order):
        return "extensions not in the order t, u, x"
    for e in order:
        if not sec[e]:
            return "empty extension written"

    def variants_of(ts):
        vs = [t for t in ts[1:] if re.fullmatch(r"[a-z0-9]{5,8}|[0-9][a-z0-9]{3}", t)]
        return vs
    vs = variants_of(sec["id"])
    if vs != sorted(set(vs)):
        return "variants not sorted/unique"
    if "true" in sec["u"][0:0]:
        pass
    # -u-: attributes then keywords
    u = sec["u"]
    i = 0
    attrs = []
    while i < len(u) and len(u[i]) != 2:
        attrs.append(u[i])
        i += 1
    if attrs != sorted(set(attrs)):
        return "attributes not sorted/unique"
    keys = []
    while i < len(u):
        keys.append(u[i])
        i += 1
        while i < len(u) and len(u[i]) != 2:
            if u[i] == "true":
                return "'true' value written"
            i += 1
    if keys != sorted(set(keys)):
        return "keywords not sorted by key"
    t = sec["t"]
    tkeys = []
    seen_key = False
    for tok in t:
        if re.fullmatch(r"[a-z][0-9]", tok):
            tkeys.append(tok)
            seen_key = True
        elif seen_key and tok == "true":
            return "'true' tvalue written"
    if tkeys != sorted(set(tkeys)):
        return "tfields not sorted by key"
    if sec["x"] != sorted(sec["x"]):
        return "private-use subtags not in sorted order"
    return None


class Prop:
    def __init__(self, pid, streams, ops, project, oracle=None, features=ALL_FEATURES, note="", design_ref="", configs=None,
                 thorough_configs=None, gen_env=None, stream_tier=None):
        self.pid = pid
        self.gen_env = gen_env or {}
        self.stream_tier = stream_tier    # when set, the streams are generated at this tier whatever the tier of the run
        # configs: list of (label, feature tuple); every config runs the same streams against its own harness build
        self.configs = configs or [("all", features)]
        self.thorough_configs = thorough_configs or self.configs
        self.streams = streams        # list of (stream, GEN_OPS or None) or callables producing request lines
        self.ops = ops                # set of op names this property looks at (None = all)
        self.project = project        # (op, resp) -> projected resp (applied to impl and model alike)
        self.oracle = oracle          # (ctx, op, req, impl, model, spec) -> None | message
        self.features = features
        self.note = note
        self.design_ref = design_ref


# ---- projections ------------------------------------------------------------------------------

def proj_outcome(op, r):
    if r is None:
        return "died"
    return "panic" if "panic" in r.split(" # ")[-1][:6] or r == "panic" else "ret"


def proj_full(op, r):
    return r


def proj_c02(op, r):
    return strip_kv(r, "rt")


def proj_c03(op, r):
    return strip_kv(err_class(r), "rt")


def proj_str_only(op, r):
    if op == "hist":
        return " # ".join((get_kv(p, "str") or err_class(p)) for p in r.split(" # "))
    if r.startswith("ok") and "str=" in r:
        return "ok str=" + (get_kv(r, "str") or "")
    return err_class(r)


def proj_rt(op, r):
    if op == "hist":
        return " # ".join((get_kv(p, "rp") or "-") for p in r.split(" # "))
    if op == "idem":
        return r
    if r.startswith("ok"):
        return "ok rt=" + (get_kv(r, "rt") or "?")
    return "err"


def proj_pair(op, r):
    return " || ".join(strip_kv(err_class(h), "rt") for h in r.split(" || "))


def proj_c10(op, r):
    return strip_kv(strip_kv(r, "pp"), "sd")        # the parts round trip of each state belongs to C17, its serde form to C19


# ops whose answer is a Locale / ExtensionsMap parse: WHICH error is returned for an ill-formed locale is not something any property speaks
# about (C03: "err, variant ignored"); the comparison with the model ignores it for every property (harmless rewrite H07 changes it)
LOCALE_PARSE_OPS = {"loc", "locstr", "loccan", "ext", "conv", "idem", "locparts", "pair", "extpair"}


def proj_c20_full(op, r):
    return strip_kv(r, "sd") if op == "hist" else r   # `sd` exists only with the serde feature (an extra API)


def proj_c20(op, r):
    """against the model; the builds are compared with each other on the full answer (`orc_c20`, `proj_c20_full`)"""
    r = proj_c20_full(op, r)
    if op in LOCALE_PARSE_OPS:
        return " || ".join(" | ".join(err_class(h) for h in part.split(" | ")) for part in r.split(" || "))
    return r


def proj_c07(op, r):
    return err_class(r) if op in LOCALE_PARSE_OPS else r


def proj_c17(op, r):
    if op == "hist":
        return " # ".join((get_kv(p, "pp") or "-") for p in r.split(" # "))
    return err_class(r) if op in LOCALE_PARSE_OPS else r


def proj_c15(op, r):
    if r.startswith("err"):
        return r if op.startswith("lang") else "err"
    return r


def proj_c13(op, r):
    return " | ".join(err_class(h) for h in r.split(" | "))


def proj_dir_for(likely):
    def f(op, r):
        if "\t" in r:
            a, b = r.split("\t")
            return a if likely else b
        return r
    return f


# ---- oracles ------------------------------------------------------------------------------------
# each returns None (fine) or a short message (the property fails on the implementation's answer)

def orc_c01(ctx, op, req, impl, model, spec):
    if impl is None:
        return "process died / no answer"
    if impl == "panic" or impl.endswith("# panic"):
        return "panic"
    return None


def orc_c02(ctx, op, req, impl, model, spec):
    if spec is None or impl == "notutf8":
        return None
    if strip_kv(impl, "rt") != strip_kv(spec, "rt"):
        return "differs from the UTS #35 recogniser: expected %s" % spec
    return None


def orc_c03(ctx, op, req, impl, model, spec):
    if spec is None or impl in ("notutf8", "panic"):
        return None
    zone, _, exp = spec.partition(" ")
    ok = impl.startswith("ok")
    if zone == "accept" and strip_kv(impl, "rt") != strip_kv(exp, "rt"):
        return "well-formed locale not accepted with exactly its subtags: expected %s" % exp
    if zone == "reject" and ok:
        return "ill-formed input accepted (dropped or reinterpreted text)"
    if zone == "either" and ok and strip_kv(impl, "rt") != strip_kv(exp, "rt"):
        return "accepted, but not as if the emptiness were absent: expected %s" % exp
    return None


def orc_c04(ctx, op, req, impl, model, spec):
    if impl in ("notutf8", "panic") or impl.startswith("err"):
        return None
    arg = req.split(" ")[1] if " " in req else ""
    if op in ("li", "loc"):
        s = get_kv(impl, "str")
        p = canonical_problem(s)
        if p:
            return "to_string() = %s: %s" % (s, p)
        ctx.setdefault("str", {})[(op, arg)] = s
        if spec is not None:
            exp = spec.partition(" ")[2] if op == "loc" else spec
            if exp.startswith("ok") and get_kv(exp, "str") != s and not spec.startswith("outside"):
                return "to_string() = %s, canonicaliser says %s" % (s, get_kv(exp, "str"))
        return None
    if op in ("lican", "loccan"):
        s = impl[3:]
        p = canonical_problem(s)
        if p:
            return "canonicalize = %s: %s" % (s, p)
        n = len(R.unhex(arg))
        if len(s) > n:
            return "canonicalize(s) longer than s"
        prev = ctx.get("str", {}).pop(("li" if op == "lican" else "loc", arg), None)
        if prev is not None and prev != s:
            return "canonicalize(s) = %s but the parsed value prints %s" % (s, prev)
        return None
    if op == "hist":
        for step in impl.split(" # ")[1:]:
            s = get_kv(step, "str")
            if s is None:
                continue
            p = canonical_problem(s)
            if p:
                return "after a mutation to_string() = %s: %s" % (s, p)
    return None


def orc_c05(ctx, op, req, impl, model, spec):
    if impl in ("notutf8", "panic") or impl.startswith("err"):
        return None
    if op == "hist":
        for i, step in enumerate(impl.split(" # ")[1:]):
            if get_kv(step, "rp") == "0":
                return "after step %d the value does not re-parse to itself: %s" % (i + 1, get_kv(step, "str"))
        return None
    if op == "idem":
        if "=0" in impl:
            return "canonicalize is not idempotent: " + impl
        return None
    if get_kv(impl, "rt") == "0":
        return "parse(to_string(x)) != x"
    return None


def orc_spec_equal(ctx, op, req, impl, model, spec):
    if spec is None or impl in ("panic", "bad", "na"):
        return None
    if impl != spec:
        return "reference says %s" % spec
    return None


def parse_li_render(r):
    d = {}
    for kv in r.split(";"):
        if "=" in kv:
            k, v = kv.split("=", 1)
            d[k] = v
    return d


def orc_c07(ctx, op, req, impl, model, spec):
    if not impl.startswith("ok"):
        return None
    if op == "max":
        return None

    if op == "limax":
        m = re.match(r"^ok (.*) \| ([01]) (.*) \| ([01]) (.*)$", impl)
        if not m:
            return "unparsable"
        r0, b1, r1, b2, r2 = m.groups()
        a, b_ = parse_li_render(r0), parse_li_render(r1)
        if b1 == "0":
            if r0 != r1:
                return "maximize returned false but changed the identifier"
        else:
            if r0 == r1:
                return "maximize returned true but changed nothing"
            if a["l"] != "und" and a["l"] != b_["l"] or a["s"] != "~" and a["s"] != b_["s"] or a["r"] != "~" and a["r"] != b_["r"]:
                return "maximize changed a subtag that was present"
            if b_["l"] == "und" or b_["s"] == "~" or b_["r"] == "~":
                return "maximize left a subtag empty"
            if a["v"] != b_["v"]:
                return "maximize touched the variants"
        if b2 != "0" or r2 != r1:
            return "maximizing an already maximized identifier changed it"
        return None
    if op == "locmax":
        m = re.match(r"^ok ([01]) (.*)$", impl)
        ctxk = ctx.setdefault("loc", {})
        # compare everything except l/s/r with the parse of the same input (the `loc` op precedes)
        prev = ctxk.pop(req.split(" ")[1], None)
        if prev is not None:
            a, b_ = parse_li_render(prev.split(";str=")[0][3:]), parse_li_render(m.group(2).split(";str=")[0])
            for k in a:
                if k not in ("l", "s", "r") and a[k] != b_.get(k):
                    return "maximize touched %s" % k
        return None
    if op == "loc":
        ctx.setdefault("loc", {})[req.split(" ")[1]] = impl
    return None


def orc_c08(ctx, op, req, impl, model, spec):
    if not impl.startswith("ok") and op != "min":
        return None
    if op == "min":
        return orc_spec_equal(ctx, op, req, impl, model, spec)
    if op in ("limin", "locmin") and spec is not None and impl != spec:
        # the clause speaks about identifiers that minimize CHANGES: the result is the first of language, language-region,
        # language-script that maximizes back
        changed = (re.match(r"^ok .* \| 1 ", impl) is not None) if op == "limin" else impl.startswith("ok 1 ")
        if changed:
            return "minimize changed the identifier to something else than the first of language, language-region, language-script that maximizes back: reference %s" % spec
    if op == "limin":
        m = re.match(r"^ok (.*) \| ([01]) (.*) \| ([01]) (.*)$", impl)
        r0, b1, r1, b2, r2 = m.groups()
        a, b_ = parse_li_render(r0), parse_li_render(r1)
        if b1 == "0" and r0 != r1:
            return "minimize returned false but changed the identifier"
        if a["v"] != b_["v"]:
            return "minimize touched the variants"
        n0 = (a["s"] != "~") + (a["r"] != "~")
        n1 = (b_["s"] != "~") + (b_["r"] != "~")
        if b1 == "1" and n1 > n0 and False:
            return "minimize lengthened"
        if r2 != r1:
            return "minimizing twice differs from minimizing once"
        return None
    if op == "liminmax":
        parts = impl[3:].split(" | ")
        mn, mnmx, mx, mxmn = parts
        if mn != mnmx:
            # minimize(maximize(x)) == minimize(x)
            return "minimize(maximize(x)) = %s but minimize(x) = %s" % (mnmx, mn)
        pm, pmm = parse_li_render(mx), parse_li_render(mxmn)
        # the result maximizes to the same (language, script, region) as the original
        if (pm["l"], pm["s"], pm["r"]) != (pmm["l"], pmm["s"], pmm["r"]):
            # only when minimize changed something (otherwise mxmn is max(x) trivially)
            return "maximize(minimize(x)) = %s but maximize(x) = %s" % (mxmn, mx)
        a = parse_li_render(mn)
        for k, v in (("l", a["l"]), ("s", a["s"]), ("r", a["r"])):
            if v not in ("~", "und") and v != pm[k]:
                # minimize may leave x unchanged (false) when nothing maximizes; then x's subtags stay
                if mn != parts[0]:
                    return "minimized form uses %s=%s which the maximized original lacks" % (k, v)
        return None
    if op == "locmin":
        return None
    return None


def orc_c09(ctx, op, req, impl, model, spec):
    if op not in ("pair", "extpair", "lipair"):
        return None
    a, b = impl.split(" || ")
    if err_class(a) != err_class(b):
        return "the two spellings disagree: %s  vs  %s" % (a, b)
    return None


def orc_c10(ctx, op, req, impl, model, spec):
    if op != "hist" or not impl.startswith("ok"):
        return None
    steps = impl.split(" # ")
    prev = steps[0][3:]
    for i, st in enumerate(steps[1:]):
        if "@" not in st:
            return None
        out, rest = st.split("@", 1)
        state = rest.rsplit(";rp=", 1)[0]
        if out == "e" and state != prev:
            return "step %d returned an error but changed the value" % (i + 1)
        if get_kv(st, "rp") == "0":
            return "after step %d the value does not re-parse to itself" % (i + 1)
        prev = state
    if spec is not None and proj_c10(op, impl) != proj_c10(op, spec):
        return "differs from the set/map reference model"
    return None


def orc_macrel(pid, impl):
    """a macro-built value against the run-time parse of the same literal (fixed literal list compiled into the harness)"""
    if not impl.startswith("ok ") or impl in ("ok parsefail",):
        return None
    d = dict(kv.split("=", 1) for kv in impl[3:].split(" "))
    if pid == "C11" and (d.get("m") != "111" or d.get("lim", "11") != "11"):
        return "matches() on a macro-built value differs from matches() on the parsed value of the same literal: %s" % impl
    if pid == "C12" and (d["eq"] != "1" or d["cmp"] != "eq" or d["he"] != "1" or d.get("lieq", "1") != "1" or d.get("licmp", "eq") != "eq"
                         or d.get("lihe", "1") != "1"):
        return "a macro-built value and the parsed value of the same literal (equal text: %s) are not equal / Equal / equally hashed: %s" % (d["se"], impl)
    if pid == "C15" and (d.get("ideq") != "1" or d.get("lieq", "1") != "1"):
        return ("the subtags of a macro-built value are not the subtags run-time parsing gives for the same literal (`und` is the empty language "
                "however it is built): %s" % impl)
    if pid == "C13" and d.get("ideq") != "1":
        return "locale!(..) has another id than the LanguageIdentifier of the same literal: %s" % impl
    return None


def orc_c11(ctx, op, req, impl, model, spec):
    if op == "macrel":
        return orc_macrel("C11", impl)
    return orc_spec_equal(ctx, op, req, impl, model, spec)


def orc_c12(ctx, op, req, impl, model, spec):
    if not impl.startswith("ok"):
        return None
    if op == "rel":
        d = dict(kv.split("=", 1) for kv in impl[3:].split(" "))
        if "xi" in d and "yi" in d:
            # the order the property fixes: language, then script, region, variants, field by field, absent first
            def key(r):
                p = parse_li_render(r)
                opt = lambda v, none: (0,) if v == none else (1, unesc(v))
                vs = tuple(unesc(v) for v in p["v"].split(",")) if p["v"] else None
                return (opt(p["l"], "und"), opt(p["s"], "~"), opt(p["r"], "~"), (0,) if vs is None else (1, vs))
            kx, ky = key(d["xi"]), key(d["yi"])
            want = "lt" if kx < ky else ("gt" if kx > ky else "eq")
            if d["licmp"] != want:
                return "LanguageIdentifier ordering is %s, field-by-field comparison (absent first) gives %s" % (d["licmp"], want)
            if want != "eq" and d["cmp"] != want:
                return "Locale ordering is %s although the language identifiers compare %s" % (d["cmp"], want)
        if d.get("self", "1eq") != "1eq":
            return "a value compared with itself (the same object) is not equal / Equal: self=%s" % d.get("self")
        if (d["eq"] == "1") != (d["se"] == "1"):
            return "x == y is %s but string equality is %s" % (d["eq"], d["se"])
        if d["eq"] == "1" and (d["he"] != "1" or d["cmp"] != "eq"):
            return "equal values hash or compare differently"
        if d["eq"] == "0" and d["cmp"] == "eq":
            return "unequal values compare Equal"
        flip = {"lt": "gt", "gt": "lt", "eq": "eq"}
        if flip[d["cmp"]] != d["rcmp"]:
            return "ordering is not antisymmetric"
        return None
    if op == "subeq":
        return orc_subeq(ctx, op, req, impl, model, spec)
    if op == "macrel":
        return orc_macrel("C12", impl)
    if op == "route":
        if impl != "ok eq=1 cmp=eq he=1 se=1":
            return "the same value reached along a second route through the safe API (route %s) differs: %s" % (req.split(" ")[2], impl)
        return None
    if op == "eqstr":
        # `ok <li == s> <li.language == s> str=<to_string> lang=<language text>`
        f = impl.split(" ")
        want = R.unhex(req.split(" ")[2])
        st, lg = get_kv(impl, "str"), get_kv(impl, "lang")
        if st is not None and (f[1] == "1") != (unesc(st) == want):
            return "LanguageIdentifier == &str is %s but the canonical text is %s" % (f[1], st)
        if lg is not None and (f[2] == "1") != (unesc(lg) == want):
            return "Language == &str is %s but the language text is %s" % (f[2], lg)
        return None
    return None


def orc_c13(ctx, op, req, impl, model, spec):
    if op == "macrel":
        return orc_macrel("C13", impl)
    if op == "convx" and impl.startswith("ok"):
        # the same conversions on an identifier whose variant list is present but empty (from_raw_parts_unchecked)
        if get_kv(impl[3:], "ideq") != "1" or get_kv(impl[3:], "back") != "1":
            return "LanguageIdentifier -> Locale -> LanguageIdentifier is not the identity on a value with variants Some([])"
        if get_kv(impl[3:], "ee") != "1":
            return "Locale built from a LanguageIdentifier has extensions"
        return None
    if op != "conv":
        return None
    li, loc = impl.split(" | ", 1)
    if spec and spec.startswith("accept ") and not loc.startswith("ok"):
        # "for every well-formed locale string the id equals what LanguageIdentifier parses from the part before the first
        # singleton": a well-formed locale string that Locale rejects has no id at all
        return "well-formed locale string rejected by Locale (%s): its id is not the LanguageIdentifier parsed from the part before the first singleton" % loc
    if li.startswith("ok"):
        if not loc.startswith("ok"):
            return "accepted by LanguageIdentifier, rejected by Locale"
        lid = li[3:].split(";str=")[0]
        if not loc[3:].startswith(lid + ";"):
            return "Locale id differs from the LanguageIdentifier"
        if get_kv(loc, "ee") != "1":
            return "Locale has extensions for a plain language identifier"
        if get_kv(li, "str") != get_kv(loc, "str") or get_kv(li, "lstr") != get_kv(li, "str"):
            return "to_string differs between LanguageIdentifier and Locale"
        if get_kv(li, "back") != "1" or get_kv(li, "ee") != "1":
            return "LanguageIdentifier -> Locale -> LanguageIdentifier is not the identity"
        if get_kv(li, "can") == "0":
            return "canonicalize of the two crates disagree on an input LanguageIdentifier accepts"
    if loc.startswith("ok"):
        if get_kv(loc, "ideq") != "1" or get_kv(loc, "aref") != "1":
            return "Locale -> LanguageIdentifier does not return the id"
        toks = re.split(rb"[-_]", R.unhex(req.split(" ")[1]))
        # the clause is about well-formed locale strings: no empty subtag
        if get_kv(loc, "pre") != "1" and all(toks):
            return "Locale id differs from the parse of the part before the first singleton"
    return None


def orc_subeq(ctx, op, req, impl, model, spec):
    if op != "subeq" or not impl.startswith("ok "):
        return None
    other = R.unhex(req.split(" ")[3])
    txt = get_kv(impl, "txt")
    if (impl.split(" ")[1] == "1") != (unesc(txt) == other):
        return "subtag == %r is %s but the subtag's text is %s" % (other, impl.split(" ")[1], txt)
    return None


def orc_c15(ctx, op, req, impl, model, spec):
    if op == "macrel":
        return orc_macrel("C15", impl)
    if impl in ("notutf8",):
        return None
    if op == "subeq":
        return orc_subeq(ctx, op, req, impl, model, spec)
    if op == "langdefault":
        if impl != "ok und;und;1;1;rt=1 | ok und;und;1;1;rt=1":
            return "default()/clear() is not the empty language"
        return None
    if spec is None:
        return None
    if proj_c15(op, impl) != proj_c15(op, spec):
        return "UTS #35 production says %s" % spec
    return None


def orc_c17(ctx, op, req, impl, model, spec):
    if not impl.startswith("ok"):
        return None
    if op == "hist":
        for i, st in enumerate(impl.split(" # ")[1:]):
            if get_kv(st, "pp") == "0":
                return "after step %d from_parts(into_parts(x)) != x: %s" % (i + 1, get_kv(st, "str"))
        return None
    f = impl.split(" ")
    if op in ("liparts", "locparts") and f[1] != "1":
        return "from_parts(into_parts(x)) != x"
    if op == "fromparts" and get_kv(impl, "jp") != "1":
        return "from_parts differs from parsing the joined string"
    if op == "fromparts" and get_kv(impl, "loc") != get_kv(impl, "str"):
        return "Locale::from_parts (no extensions) prints %s, LanguageIdentifier::from_parts of the same parts prints %s" % (
            get_kv(impl, "loc"), get_kv(impl, "str"))
    if op == "raw" and impl != "ok none" and f[3] != "1":
        return "integer form does not convert back to an equal subtag"
    if op == "rawref" and req.split(" ")[1] in ("lang", "variant") and impl != "ok none" and f[-1] != "1":
        return "integer form taken by reference does not convert back to an equal subtag"
    if op == "raw" and impl != "ok none":
        seen = ctx.setdefault("raw", {})
        kind = req.split(" ")[1]
        key = (kind, f[1])
        if key in seen and seen[key] != f[2]:
            return "two distinct subtags share the integer %s" % f[1]
        seen[key] = f[2]
    return None



# ---- C14 / C18: CLDR layout oracle (read from the JSON files, independently of the Rust and of the Lean translation) ----

_LAYOUT = None


def layout_data():
    """name -> direction, and language -> set of directions"""
    global _LAYOUT
    if _LAYOUT is None:
        root = os.path.join(R.REPO, "unic-langid-impl", "data", "cldr-misc-full", "main")
        names = {}
        langdirs = collections.defaultdict(set)
        for n in sorted(os.listdir(root)):
            p = os.path.join(root, n, "layout.json")
            if not os.path.exists(p):
                continue
            j = json.load(open(p))
            key = next(iter(j["main"].keys()))
            if key == "root":
                continue
            d = {"left-to-right": "LTR", "right-to-left": "RTL", "top-to-bottom": "TTB"}[j["main"][key]["layout"]["orientation"]["characterOrder"]]
            names[key] = d
            langdirs[key.split("-")[0].lower()].add(d)
        _LAYOUT = (names, langdirs)
    return _LAYOUT


def orc_layout(ctx, op, req, impl, model, spec):
    if op == "dirv" and impl.startswith("ok "):
        f = impl.split(" ")
        if f[1] != f[2]:
            return "variants change the direction: %s without, %s with -1996-macos" % (f[1], f[2])
        return None
    if op not in ("dir", "locdir") or not impl.startswith("ok"):
        return None
    if spec and spec.startswith("must ") and impl[3:] != spec[5:]:
        try:
            name = R.unhex(req.split(" ")[1]).decode("ascii", "replace")
        except Exception:
            name = "?"
        return ("character_direction(%s) = %s; by the CLDR layout data it must be %s (a script CLDR lists decides on its own; "
                "no listed script and a language CLDR never lists right-to-left is left-to-right)" % (name, impl[3:], spec[5:]))
    if op == "dir" and ctx.get("likely", True) and ctx.get("dirref") and impl[3:] != ctx["dirref"]:
        try:
            name = R.unhex(req.split(" ")[1]).decode("ascii", "replace")
        except Exception:
            name = "?"
        return ("character_direction(%s) = %s with likelysubtags; the independent model derived from the CLDR layout and likelySubtags files "
                "says %s (a listed script decides; for a language CLDR lists right-to-left: the direction of the likely script of "
                "maximize(language, -, region))" % (name, impl[3:], ctx["dirref"]))
    if op != "dir":
        return None
    names, langdirs = layout_data()
    try:
        name = R.unhex(req.split(" ")[1]).decode("ascii")
    except Exception:
        return None
    base = name
    extra_variant = False
    if name.endswith("-1996") and name[:-5] in names:
        base, extra_variant = name[:-5], True
    if base not in names:
        return None
    want = names[base]
    got = impl[3:]
    if got == want:
        return None
    toks = base.split("-")
    has_script = any(len(t) == 4 and t.isalpha() for t in toks[1:])
    if ctx.get("likely", True):
        return "character_direction(%s) = %s, CLDR characterOrder is %s" % (name, got, want)
    if has_script or len(langdirs[toks[0].lower()]) < 2:
        return ("without likelysubtags character_direction(%s) = %s, CLDR says %s, and the identifier is not a script-less "
                "identifier of a language CLDR lists with more than one direction" % (name, got, want))
    return None


def orc_c14(ctx, op, req, impl, model, spec):
    return orc_layout(ctx, op, req, impl, model, spec)


def orc_c18(ctx, op, req, impl, model, spec):
    if op == "dir":
        return orc_layout(ctx, op, req, impl, model, spec)
    if op == "cldrversion":
        v = json.load(open(os.path.join(R.REPO, "unic-langid-impl", "data", "likelySubtags.json")))["supplemental"]["version"]["_cldrVersion"]
        if impl != "ok " + v:
            return "CLDR_VERSION is %s, the data says %s" % (impl, v)
        return None
    return orc_spec_equal(ctx, op, req, impl, model, spec)


def norm_rust_tokens(t):
    t = re.sub(r"//[^\n]*", "", t)
    t = re.sub(r"\s+", "", t)
    return t.replace(",]", "]").replace(",)", ")")


def generators_check():
    """C18, "programs" part of the quantifier: the repository's two generator binaries are re-run on the bundled CLDR data and
    their output is compared, token for token, with the checked-in tables.  Returns a list of problems (dicts)."""
    crate = os.path.join(R.REPO, "unic-langid-impl")
    target = os.path.join(R.BUILD, "cargo-gen" if R.REPO == "/repo" else "cargo-gen-rehearsal")
    r = R.sh(["cargo", "build", "--release", "--offline", "--features", "binary", "--bins"], cwd=crate,
             env=dict(R.ENV, CARGO_TARGET_DIR=target))
    if r.returncode != 0:
        return [{"kind": "generator", "what": "the generator binaries do not build (--features binary)", "detail": r.stdout[-1500:]}]
    probs = []
    for exe, rel in (("generate_likelysubtags", "src/likelysubtags/tables.rs"), ("generate_layout", "src/layout_table.rs")):
        try:
            g = subprocess.run([os.path.join(target, "release", exe)], cwd=crate, stdout=subprocess.PIPE, stderr=subprocess.PIPE, text=True,
                               timeout=300)
        except subprocess.TimeoutExpired:
            probs.append({"kind": "generator", "what": "%s does not terminate" % exe})
            continue
        if g.returncode != 0:
            probs.append({"kind": "generator", "what": "%s fails (exit status %d)" % (exe, g.returncode), "detail": g.stderr[-800:]})
            continue
        a, b_ = norm_rust_tokens(g.stdout), norm_rust_tokens(open(os.path.join(crate, rel)).read())
        if a != b_:
            i = next((i for i in range(min(len(a), len(b_))) if a[i] != b_[i]), min(len(a), len(b_)))
            probs.append({"kind": "generator", "what": "the output of %s differs from the checked-in %s" % (exe, rel),
                          "replay_cmd": "cd %s && cargo run --offline --features binary --bin %s | diff -w - %s" % (crate, exe, rel),
                          "generator_says": a[max(0, i - 120):i + 120], "checked_in": b_[max(0, i - 120):i + 120]})
    return probs


# ---- C16 ----

def proj_c16(op, r):
    if r is None:
        return "died"
    if r.startswith("value"):
        return r.split(" eq=")[0]
    return r.split(" ")[0]


def orc_c16(ctx, op, req, impl, model, spec):
    if op != "mac":
        return None
    if impl.startswith("value"):
        if not impl.endswith("eq=1"):
            return "the macro compiles but its value differs from run-time parsing (or run-time parsing fails)"
        return None
    if impl.startswith("cerr"):
        if impl.endswith("rt=ok"):
            return "well-formed literal (run-time parsing accepts it) is a compile-time error"
        return None
    if impl.startswith("rpanic"):
        return "the macro compiles and panics at run time"
    return "toolchain: " + impl


# ---- C19 ----

def proj_c19(op, r):
    # the typed result only: the two JSON decoders (serde_json, Lean.Json) may disagree on what is well-formed JSON
    # text (lone surrogates, out-of-range numbers); that is the JSON library's contract, not the property.  The oracle
    # checks from_str against from_value on the implementation.
    if op == "serfrom":
        return r.split(" | ")[0]
    if op == "hist":
        return " # ".join((get_kv(p, "sd") or "-") for p in r.split(" # "))
    return r


def judge_c19_pre(impl, model):
    """JSON-library divergences (what is well-formed JSON text) are not the property: when either decoder calls the
    text ill-formed, only the typed result is compared, and it must be an error"""
    return impl


def orc_c19(ctx, op, req, impl, model, spec):
    if impl in ("notutf8", "panic", "na"):
        return "panic" if impl == "panic" else None
    if op == "hist":
        for i, st in enumerate(impl.split(" # ")[1:]):
            if get_kv(st, "sd") == "0":
                return ("after step %d the identifier %s does not serialise to its quoted canonical string, or does not deserialise to an "
                        "equal value" % (i + 1, get_kv(st, "str")))
        return None
    if op == "sernhr":
        if impl.startswith("ok") and model is not None and impl != model:
            return "through a serde format that is not human readable the value is not its canonical string / does not round-trip: %s (expected %s)" % (impl, model)
        return None
    if op == "serto":
        if impl == "err":
            # the literal parsed (a parse error is reported with its variant), serde_json::to_string returned Err
            return "a well-formed identifier does not serialise at all (the serialiser returned an error)"
        if not impl.startswith("ok"):
            return None
        text = impl.split(" ")[1]
        val = get_kv(impl.replace(" ", ";"), "val")
        if get_kv(impl.replace(" ", ";"), "rt") != "1" or get_kv(impl.replace(" ", ";"), "rt2") != "1":
            return "deserialising the serialised form does not give back an equal value"
        if text != "%22" + (val or "") + "%22":
            return "serialised form is not the quoted to_string()"
        pr = canonical_problem(val or "")
        if pr:
            return "serialised string %s: %s" % (val, pr)
        return None
    if op == "serfrom":
        cols = impl.split(" | ")
        r1, r2 = cols[0], cols[1]
        r3 = cols[2] if len(cols) > 2 else "nostr"
        if len(cols) > 3 and cols[3] != "same":
            return ("deserialize_in_place (into a slot that holds ca-ES-valencia / as the element of a Vec that holds two values) gives %s, "
                    "deserialize gives %s" % (cols[3], r1))
        if r3 != "nostr" and r2 != "badjson" and (r1 != r3 or r2 != r3):
            return "deserialising the JSON string gives %s, parsing the same string gives %s" % (r1 if r1 != r3 else r2, r3)
        try:
            val = json.loads(R.unhex(req.split(" ")[1]).decode("utf-8"))
            if not isinstance(val, str) and (r1.startswith("ok") or r2.startswith("ok")):
                return "a non-string JSON value deserialised to %s" % (r1 if r1.startswith("ok") else r2)
        except Exception:
            pass
        if r2 == "badjson":
            return None if r1 == "err" else "ill-formed JSON text deserialised to %s" % r1
        if r1 != r2:
            return "from_str and from_value disagree: %s vs %s" % (r1, r2)
        return None
    return None


# ---- C20 ----

def orc_c20(ctx, op, req, impl, model, spec):
    if op in ("dir", "locdir") or impl in ("na",):
        return None
    base = ctx.setdefault("baseline", {})
    key = hash(req)
    if ctx.get("requery"):
        return None
    impl = proj_c20_full(op, impl)
    if ctx.get("first_config"):
        base[key] = hash(impl)
        return None
    want = base.get(key)
    if want is not None and want != hash(impl):
        return "answer differs from the build without optional features (config %s)" % ctx.get("config")
    return None


# ---- known-finding classes (a class describes one defect by the shape of the failing input; see known_findings.json) ----

def known_c08_no_minimal_form(req, impl):
    """und-Script-Region identifiers for which none of language, language-region, language-script maximizes back:
    minimize(x) leaves x, minimize(maximize(x)) leaves maximize(x)"""
    f = req.split(" ")
    if f[0] != "liminmax" or impl is None or not impl.startswith("ok "):
        return False
    try:
        toks = re.split(rb"[-_]", R.unhex(f[1]))
    except Exception:
        return False
    if len(toks) != 3 or toks[0].lower() != b"und":
        return False
    parts = impl[3:].split(" | ")
    if len(parts) != 4:
        return False
    mn, mnmx, mx, mxmn = [parse_li_render(x) for x in parts]
    return (mn["l"] == "und" and mn["s"] == mx["s"] and mn["r"] == mx["r"] and mnmx == mx and mxmn == mx and mx["l"] != "und")


KNOWN_CLASSES = {"c08_no_minimal_form": known_c08_no_minimal_form}

# ---- stream lists --------------------------------------------------------------------------------

# ---- source tie (checklib/srctie.py): functions whose model definition is PROVED equal to the definition the translator
# `srclean` derives from the current Rust source text, per property that rests on them ----
_SUBTAGS = ["Language.fromBytes", "Script.fromBytes", "Region.fromBytes", "Variant.fromBytes", "Language.asStr"]
_EXT = ["parseKey", "parseType", "parseAttribute", "isType", "isAttribute", "parseTKey", "parseTValue", "isLanguageSubtag", "parsePrivate",
        "ExtType.fromByte"]
_MATCH = ["Language.isMatch", "LangId.subtagMatches", "LangId.isOptionEmpty", "LangId.subtagsMatch", "LangId.isMatch"]
# the parsers: loops, mutation, the subtag iterator (srclean's imperative subset; theorems in SrcTie/*Parse*.lean)
_PARSE_LI = ["LangId.parseIter", "LangId.parse", "LangId.tryFromIter", "LangId.fromBytes"]
_PARSE_LOC = ["UExt.parseIter", "TExt.parseIter", "PExt.parseIter", "ExtMap.parseIter", "ExtMap.fromBytes", "Locale.parse", "Locale.fromBytes"]
# the `Display` impls (formatter = output buffer, `for` loops), `is_empty`, `canonicalize`
_FMT = ["Language.fmt", "Script.fmt", "Region.fmt", "Variant.fmt", "LangId.fmt", "UExt.isEmpty", "TExt.isEmpty", "PExt.isEmpty", "ExtMap.isEmpty",
        "UExt.fmt", "TExt.fmt", "PExt.fmt", "ExtMap.fmt", "Locale.fmt", "LangId.canonicalize", "Locale.canonicalize"]
# the mutators and getters (`&mut self`, Vec / BTreeMap mutation, binary_search, the collect idiom), from_parts / into_parts
_OPS = ["UExt.keyword", "UExt.keywordKeys", "UExt.setKeyword", "UExt.removeKeyword", "UExt.clearKeywords", "UExt.hasAttribute", "UExt.attributes",
        "UExt.setAttribute", "UExt.removeAttribute", "UExt.clearAttributes", "TExt.tlang", "TExt.setTLang", "TExt.clearTLang", "TExt.tfield",
        "TExt.tfieldKeys", "TExt.setTField", "TExt.removeTField", "TExt.clearTFields", "PExt.hasTag", "PExt.addTag", "PExt.removeTag", "PExt.clearTags",
        "LangId.fromParts", "LangId.intoParts", "LangId.variants", "LangId.setVariants", "LangId.hasVariant", "LangId.clearVariants",
        "Locale.fromParts", "Locale.intoParts", "Locale.isMatch"]
# the likely-subtags cascade, maximize / minimize, character_direction in both feature configurations (tables = the model's parameters)
_LIKELY = ["Language.isEmpty", "Likely.langFromParts", "Likely.maximize", "Likely.minimize", "LangId.maximize", "LangId.minimize",
           "LangId.direction", "LangId.directionNoLikely"]
# glue: FromStr / PartialEq<&str> / conversion impls
_GLUE = ["Language.fromStr", "Script.fromStr", "Region.fromStr", "Variant.fromStr", "Script.asStr", "Region.asStr", "Variant.asStr", "Language.eqStr",
         "Script.eqStr", "Region.eqStr", "Variant.eqStr", "Variant.eqStr2", "Language.clear", "Language.tryFromOption", "LangId.fromStr", "LangId.eqStr",
         "ExtMap.fromStr", "Locale.fromStr", "Locale.ofLangId", "Locale.toLangId"]
# the integer forms of the subtags (`From<subtag> for u32 / u64 / Option<u64>`, `from_raw_unchecked`, `from_raw_parts_unchecked`) from their own
# source text; the `.into()` / `from_raw_unchecked(..)` call sites of the cascade rest on these theorems (srctie.py demotes a caller otherwise)
_RAW = ["Language.toRaw", "Language.toRawRef", "Script.toRaw", "Region.toRaw", "Variant.toRaw", "Variant.toRawRef", "Language.fromRaw", "Script.fromRaw",
        "Region.fromRaw", "Variant.fromRaw", "LangId.fromRawParts", "Locale.fromRawParts"]
# the six proc macros (tr_macro.rs): parse at build time, `quote!` an expression of UL.MTok, evaluated by Model/MacroSem.lean
_SERDE = ["Serde.serialize", "Serde.deserialize"]
_MACROS = ["Macros.lang", "Macros.script", "Macros.region", "Macros.variant", "Macros.langid", "Macros.locale", "Macros.langids", "Macros.langidSlice",
           "Macros.locales"]
SRC_TIE = {"C01": _SUBTAGS + _EXT + _PARSE_LI + _PARSE_LOC + _OPS + _LIKELY + _GLUE + _RAW,
           "C06": _LIKELY + _RAW, "C07": _LIKELY + _RAW, "C08": _LIKELY + _RAW, "C14": _LIKELY + _RAW, "C20": _LIKELY + _RAW, "C18": _RAW,
           "C16": _SUBTAGS + _PARSE_LI + _PARSE_LOC + _FMT + _RAW + ["Language.fromStr", "Script.fromStr", "Region.fromStr", "Variant.fromStr", "LangId.fromStr", "Locale.fromStr", "ExtMap.fromStr", "LangId.intoParts", "Locale.intoParts"] + _MACROS, "C02": _SUBTAGS + _PARSE_LI, "C03": _SUBTAGS + _EXT + _PARSE_LI + _PARSE_LOC,
           "C04": _SUBTAGS + _EXT + _PARSE_LI + _PARSE_LOC + _FMT, "C05": _SUBTAGS + _EXT + _PARSE_LI + _PARSE_LOC + _FMT,
           "C09": _SUBTAGS + _EXT + _PARSE_LI + _PARSE_LOC, "C10": _SUBTAGS + _EXT + _OPS + _FMT + _PARSE_LOC + ["LangId.maximize", "LangId.minimize"], "C11": _MATCH + ["Locale.isMatch"], "C12": ["Language.asStr"] + _FMT + _OPS + _GLUE, "C19": _PARSE_LI + _FMT + _SERDE + ["LangId.fromStr"],
           "C13": _SUBTAGS + _PARSE_LI + _PARSE_LOC + ["Locale.ofLangId", "Locale.toLangId", "LangId.fromStr", "Locale.fromStr"],
           "C15": _SUBTAGS + [g for g in _GLUE if g.split(".")[0] in ("Language", "Script", "Region", "Variant")], "C17": _SUBTAGS + _PARSE_LI + _FMT + _OPS + _RAW}


PARSE_STREAMS = [("tokens", None), ("wf", None), ("near", None), ("raw", None)]


def S(names, ops):
    return [(n, ops) for n in names]


PROPS = {
    "C01": Prop("C01",
                [("aftermath", "li,loc,lican,loccan,listr,locstr")] + [("sweep", "li,loc,lican,loccan,ext,hist"), ("specials", "lang,script,region,variant,li,loc"), ("abb", "max,min,limax,limin,dir")] + S(["tokens"], "li,loc,ext") + S(["wf", "near", "raw"], "li,loc,ext,lican,loccan,listr,locstr,conv,idem,liparts,locparts")
                + S(["subtag"], "lang,script,region,variant") + [("hist", None), ("parts", None), ("match", None)]
                + S(["triples"], "max,min,dir,limax,limin") + [("glue_li", None), ("glue_misc", None), ("serde", None)],
                None, proj_outcome, orc_c01, design_ref="4/C01"),
    "C02": Prop("C02", [("aftermath", "li,lican,listr")] + [("sweep", "li,lican,listr"), ("specials", "li,lican,listr")] + S(["tokens", "wf", "near", "raw"], "li,lican,listr") + [("glue_li", None)],
                {"li", "lican", "listr", "liiter", "liiterp"}, proj_c02, orc_c02,
                design_ref="4/C02"),
    "C03": Prop("C03", [("aftermath", "loc,locstr")] + [("sweep", "loc,locstr,ext"), ("specials", "loc,locstr")] + S(["tokens", "wf", "near", "raw"], "loc,locstr,ext,substr ext") + [("glue_misc", None)],
                {"loc", "locstr", "ext", "exttype", "substr"}, proj_c03, orc_c03,
                design_ref="4/C03"),
    "C04": Prop("C04", [("cldrhist", None)] + [("sweep", "li,lican,loc,loccan,hist"), ("specials", "li,loc")] + S(["wf", "near"], "li,lican,loc,loccan") + S(["tokens"], "loc,loccan") + [("hist", None), ("parts", None)],
                {"li", "lican", "loc", "loccan", "hist", "fromparts"}, proj_str_only, orc_c04, design_ref="4/C04"),
    "C05": Prop("C05", [("cldrhist", None)] + [("sweep", "li,loc,idem,ext,hist"), ("specials", "lang,script,region,variant,li,loc")] + S(["wf", "near"], "li,loc,ext,idem") + S(["tokens"], "loc,ext") + S(["subtag"], "lang,script,region,variant")
                + [("hist", None)],
                {"li", "loc", "ext", "idem", "hist", "lang", "script", "region", "variant"}, proj_rt, orc_c05, design_ref="4/C05"),
    "C06": Prop("C06", [("abb", "max,limax")] + S(["triples"], "max,limax"), {"max", "limax"}, proj_full, orc_spec_equal, design_ref="4/C06"),
    "C07": Prop("C07", [("abb", "max,limax,locmax")] + S(["triples"], "max,limax,loc,locmax"), {"max", "limax", "loc", "locmax"}, proj_c07, orc_c07,
                design_ref="4/C07"),
    "C08": Prop("C08", [("abb", "min,limin,liminmax,locmin")] + S(["triples"], "min,limin,liminmax,locmin"), {"min", "limin", "liminmax", "locmin"}, proj_full, orc_c08,
                design_ref="4/C08"),
    "C09": Prop("C09", [("sweep", "pair")] + [("pairs", None)], {"pair", "extpair", "lipair"}, proj_pair, orc_c09, design_ref="4/C09"),
    "C10": Prop("C10", [("cldrhist", None)] + [("sweep", "hist")] + [("hist", None)], {"hist"}, proj_c10, orc_c10, design_ref="4/C10"),
    "C11": Prop("C11", [("sweep", "rel")] + [("match", None), ("macvals", None)], {"match", "locmatch", "langmatch", "matchx", "locmatchx", "matchr", "macrel"},
                proj_full, orc_c11, design_ref="4/C11"),
    "C12": Prop("C12", [("sweep", "eqstr,rel"), ("specials", "eqstr,rel")] + [("rel", None), ("glue_misc", None), ("macvals", None)], {"rel", "eqstr", "subeq", "route", "macrel"}, proj_full, orc_c12,
                design_ref="4/C12"),
    "C13": Prop("C13", [("aftermath", "conv")] + [("sweep", "conv"), ("specials", "conv")] + S(["tokens"], "conv") + S(["wf", "near", "raw"], "conv,convx") + [("macvals", None)], {"conv", "convx", "macrel"}, proj_c13, orc_c13,
                design_ref="4/C13"),
    "C14": Prop("C14", [("abb", "dir")] + [("layoutnames", None)] + S(["triples"], "dir,dirv"), {"dir", "locdir", "dirv"}, proj_full, orc_c14, design_ref="4/C14",
                configs=[("likely", ALL_FEATURES), ("nolikely", ("macros", "serde"))]),
    "C16": Prop("C16", [("macros", None)], {"mac"}, proj_c16, orc_c16, design_ref="4/C16"),
    "C18": Prop("C18", [("layoutnames", None), ("tablemisc", None)] + S(["triples"], "max,dir"), {"max", "dir", "cldrversion"}, proj_full, orc_c18,
                design_ref="4/C18"),
    "C19": Prop("C19", [("aftermath", "serfrom")] + [("sweep", "serto,serfrom")] + [("serde", None), ("hist", None)], {"serto", "serfrom", "hist", "sernhr"}, proj_c19, orc_c19, design_ref="4/C19"),
    "C20": Prop("C20", [("aftermath", "li,loc,lican,loccan,listr,locstr")] + [("sweep", "li,loc,listr,locstr,lican,loccan,eqstr,hist,pair"), ("specials", "lang,li,loc,eqstr")] + S(["tokens"], "loc") + S(["wf", "near"], "li,listr,loc,locstr,lican,loccan,conv,liparts,locparts") + S(["subtag"], "lang,script,region,variant")
                + [("hist", None), ("match", None), ("rel", None), ("parts", None), ("pairs", None), ("layoutnames", None)],
                None, proj_c20, orc_c20, design_ref="4/C20",
                gen_env={"GEN_LIKELY": "0"},     # histories without maximize/minimize: those calls exist only with the feature
                stream_tier="quick",             # thorough = all eight feature builds on the quick-size streams (8 x 3M requests)
                configs=[("none", ()), ("likely", ("likely",)), ("all", ALL_FEATURES)],
                thorough_configs=[("none", ()), ("likely", ("likely",)), ("serde", ("serde",)), ("macros", ("macros",)),
                                  ("likely-serde", ("likely", "serde")), ("likely-macros", ("likely", "macros")),
                                  ("macros-serde", ("macros", "serde")), ("all", ALL_FEATURES)]),
    "C15": Prop("C15", [("macvals", None)] + [("specials", "lang,script,region,variant,langstr")] + S(["subtag"], "lang,script,region,variant,langstr,substr script,substr region,substr variant")
                + [("langmisc", None), ("glue_misc", None)],
                {"lang", "script", "region", "variant", "langstr", "langopt", "langdefault", "rawref", "subeq", "substr", "macrel"}, proj_c15, orc_c15,
                design_ref="4/C15"),
    "C17": Prop("C17", [("cldrhist", None)] + [("sweep", "liparts,locparts,hist")] + [("parts", None), ("glue_misc", None), ("hist", None)], {"liparts", "locparts", "fromparts", "raw", "rawref", "hist"}, proj_c17, orc_c17,
                design_ref="4/C17"),
}


NOT_YET = {}

# a property is claimed once it is listed here (its theorem file must exist and build)
CLAIMED = ["C%02d" % i for i in range(1, 21)]
ALL_PROPS = PROPS
PROPS = {k: v for k, v in ALL_PROPS.items()
         if k in CLAIMED or (os.environ.get("VERIF_DEV") and os.path.exists(os.path.join(R.LEAN, "UnicLocale", "Props", k + ".lean")))}


def setup():
    t0 = time.time()
    with R.Lock():
        h, out = R.build_harness(ALL_FEATURES)
        if not h:
            print(out)
            return 1
        e = R.regen(h)
        if e:
            print(e)
            return 1
        ok, out = R.lake_build(["UnicLocale", "UnicLocale.Audit", "driver"] + ["UnicLocale.Props." + p for p in sorted(CLAIMED)])
        if not ok:
            print(out[-8000:])
            return 1
        import srctie
        st = srctie.run(R.REPO, R.ROOT)
        notp = [f for f, i in st.get("functions", {}).items() if i.get("status") != "proved"]
        log("source tie: translator built=%s, %d functions, not proved: %s" % (st.get("translator_built"), len(st.get("functions", {})), notp))
        import cfgtie
        ct = cfgtie.run(R.REPO, R.ROOT)
        p_, t_, rest_ = cfgtie.summary(ct)
        R.lake_build(["UnicLocale.SrcTie.TransferCfg", "UnicLocale.SrcTie.Transfer", "UnicLocale.SrcTie.TransferOps", "UnicLocale.SrcTie.TransferLikely",
                      "UnicLocale.SrcTie.TransferParse", "UnicLocale.SrcTie.TransferMacros", "UnicLocale.SrcTie.TransferSerde"])
        log("configuration tie: %d of %d definitions proved equal across the feature sets; not proved: %s" % (p_, t_, [(a, b) for a, b, _, _ in rest_]))
    log("setup done in %.0fs" % (time.time() - t0))
    return 0


DICT = {"tokens": [], "ints": []}     # source literals the baseline tree did not have (checklib/srcdict.py), set per run


def _variant_name(i, n):
    """the i-th of a family of distinct variants of length n (5..8), in increasing order"""
    a = "abcdefghijklmnopqrstuvwxyz"
    return (a[(i // 26) % 26] + a[i % 26] + "variantx"[: n - 2])[:n]


def sweep_identifiers():
    """well-formed, canonical language identifiers (text) for EVERY canonical length that a shape can have up to 140 bytes
    (shapes: language of 2 / 3 / 5 / 8 letters x script or none x alphabetic / numeric / no region; the rest is filled with
    distinct sorted variants), and for every COUNT 0..40 of variants: no internal buffer size, inline capacity or count bound
    of a rewrite falls between the sampled sizes"""
    out = []
    for lang in ("en", "fil", "abcde", "abcdefgh"):
        for script in ("", "Latn"):
            for region in ("", "US", "419"):
                base = "-".join(x for x in (lang, script, region) if x)
                for L in range(len(base), 141):
                    r = L - len(base)
                    if r == 0:
                        out.append(base)
                        continue
                    if r < 5:
                        continue
                    # r = sum of (1 + len) with len in 4..8; at most one 4-letter variant (digit first: sorts first)
                    parts = []
                    n9 = r // 9
                    rem = r - 9 * n9
                    lens = [8] * n9
                    if rem:
                        if rem >= 5:
                            lens.append(rem - 1)
                        else:
                            # take from one 9: 9 + rem = a + b with a, b in 5..9
                            if not lens:
                                continue
                            lens.pop()
                            t = 9 + rem
                            a_ = max(5, t - 9)
                            lens += [a_ - 1, t - a_ - 1]
                    four = [x for x in lens if x == 4]
                    if len(four) > 1:
                        continue
                    vs = []
                    if four:
                        vs.append("1abc")
                    for i, n in enumerate(sorted(x for x in lens if x != 4)):
                        vs.append(_variant_name(i, n))
                    vs_sorted = sorted(vs)
                    s_ = base + "-" + "-".join(vs_sorted)
                    if len(s_) == L:
                        out.append(s_)
    for k in range(0, 41):
        out.append("-".join(["sl"] + sorted(_variant_name(i, 5 + i % 4) for i in range(k))))
        out.append("-".join(["und", "Cyrl", "001"] + sorted(_variant_name(i, 8) for i in range(k))))
    return out


def sweep_extension_strings():
    """`-u-` / `-t-` / `-x-` bodies with every count 0..40 of attributes, keywords, tfields, tags (canonical, sorted)"""
    a = "abcdefghijklmnopqrstuvwxyz"
    out = []
    for k in range(1, 41):
        attrs = sorted("at%s%s" % (a[i // 26], a[i % 26]) for i in range(k))
        keys = sorted(a[i // 26] + a[i % 26] for i in range(k))
        tkeys = sorted(a[i % 26] + "0123456789"[i // 26] for i in range(k))
        tags = sorted("t%s%s" % (a[i // 26], a[i % 26]) for i in range(k))
        out.append("u-" + "-".join(attrs))
        out.append("u-" + "-".join(x + "-val" + x for x in keys))
        out.append("t-" + "-".join(x + "-val" + x for x in tkeys))
        out.append("x-" + "-".join(tags))
        if k % 5 == 0:
            out.append("t-" + "-".join(x + "-val" + x for x in tkeys) + "-u-" + "-".join(attrs) + "-" + "-".join(x + "-val" + x for x in keys) + "-x-" + "-".join(tags))
        # one key with k values (their order is kept), and a tlang with k variants
        vals = ["v%s%sx" % (a[(k - 1 - i) // 26], a[(k - 1 - i) % 26]) for i in range(k)]
        out.append("u-ca-" + "-".join(vals))
        out.append("t-h0-" + "-".join(vals))
        out.append("t-sl-" + "-".join(sorted(_variant_name(i, 5 + i % 4) for i in range(k))) + "-h0-hybrid")
    return out


def cldr_language_defaults():
    """[(language, script, region)] of the language-only keys of the bundled likelySubtags.json"""
    d = json.load(open(os.path.join(R.REPO, "unic-langid-impl", "data", "likelySubtags.json")))["supplemental"]["likelySubtags"]
    out = []
    for k, v in d.items():
        if "-" not in k and k != "und":
            p = v.split("-")
            if len(p) == 3:
                out.append((k, p[1], p[2]))
    return out


def extra_stream(name, tier, seed, ops=None):
    """streams produced by the checker itself"""
    dwords = list(DICT["tokens"])
    hx = lambda t: R.hexs(t.encode())
    if name == "sweep":
        # every length / every count (sweep_identifiers), as a language identifier and, with extensions of every count, as a locale
        ids = sweep_identifiers()
        exts = sweep_extension_strings()
        oplist = (ops or "li,loc").split(",")
        lines = []
        locs = list(ids[:-82:3]) + list(ids[-82:]) + ["en-" + e for e in exts] + ["sr-Cyrl-RS-" + e for e in exts[::4]] + [ids[i * 7 % len(ids)] + "-" + e for i, e in enumerate(exts[::3])]
        for op in oplist:
            if op in ("li", "lican", "listr", "liparts", "serto"):
                lines += ["%s %s" % (op, hx(t)) for t in ids]
            elif op in ("loc", "loccan", "locstr", "locparts", "idem", "conv"):
                lines += ["%s %s" % (op, hx(t)) for t in locs]
            elif op == "ext":
                lines += ["ext %s" % hx("-" + e) for e in exts] + ["ext %s" % hx(e) for e in exts]
            elif op == "serfrom":
                lines += ["serfrom %s" % hx('"%s"' % t) for t in ids]
            elif op == "eqstr":
                for t in ids:
                    lines.append("eqstr %s %s" % (hx(t), hx(t)))
                    lines.append("eqstr %s %s" % (hx(t.upper()), hx(t)))
                    lines.append("eqstr %s %s" % (hx(t), R.hexs(t.encode() + b"\x00")))
                    if len(t) > 3:
                        lines.append("eqstr %s %s" % (hx(t), hx(t[:-1])))
                        lines.append("eqstr %s %s" % (hx(t), hx(t[:64])))
                        lines.append("eqstr %s %s" % (hx(t), hx(t + "a")))
            elif op == "rel":
                for i in range(0, len(ids) - 1, 2):
                    lines.append("rel %s %s" % (hx(ids[i]), hx(ids[i + 1])))
                    lines.append("rel %s %s" % (hx(ids[i]), hx(ids[i].upper().replace("-", "_"))))
                # two identifiers that differ in exactly ONE letter / digit, for every position of the text (equality, order and hash
                # must see every byte of every subtag, also the 5th..8th of a long language or variant)
                for t in ("abcdefgh-Latn-US-aavarian-1abc", "fil-419-abvar-acvaria", "en-Cyrl-001-aavarian-abvarian-acvarian-advarian", "abcde-aavar"):
                    for i, ch in enumerate(t):
                        if ch == "-":
                            continue
                        alt = {"z": "y", "Z": "Y", "9": "8"}.get(ch, chr(ord(ch) + 1))
                        if (ch.isdigit() and not alt.isdigit()) or (ch.isalpha() and not alt.isalpha()):
                            continue
                        u = t[:i] + alt + t[i + 1:]
                        lines.append("rel %s %s" % (hx(t), hx(u)))
                        lines.append("rel %s %s" % (hx(u), hx(t)))
                        lines.append("eqstr %s %s" % (hx(t), hx(u)))
                        lines.append("match %s %s" % (hx(t), hx(u)))
            elif op == "pair":
                # unordered parts repeated: k subtags that are m distinct variants / attributes, against the plain spelling
                a = "abcdefghijklmnopqrstuvwxyz"
                for m in (1, 2, 3, 7):
                    vs = [_variant_name(i, 5 + i % 4) for i in range(m)]
                    ats = ["at%s%s" % (a[i // 26], a[i % 26]) for i in range(m)]
                    for k in range(m, 41):
                        rep = [vs[i % m] for i in range(k)]
                        lines.append("pair %s %s" % (hx("ca-ES-" + "-".join(rep)), hx("ca-ES-" + "-".join(sorted(vs)))))
                        lines.append("pair %s %s" % (hx("ca-" + "-".join(reversed(rep)) + "-u-ca-gregory"), hx("ca-" + "-".join(vs) + "-u-ca-gregory")))
                        lines.append("lipair %s %s" % (hx("ca-ES-" + "-".join(rep)), hx("ca-ES-" + "-".join(vs))))
                        repa = [ats[i % m] for i in range(k)]
                        lines.append("pair %s %s" % (hx("en-u-" + "-".join(repa) + "-nu-latn"), hx("en-u-" + "-".join(ats) + "-nu-latn")))
                        lines.append("extpair %s %s" % (hx("-u-" + "-".join(repa)), hx("-u-" + "-".join(reversed(ats)))))
                for k in range(2, 41):
                    vs = [_variant_name(i, 5 + i % 4) for i in range(k)]
                    lines.append("pair %s %s" % (hx("sl-" + "-".join(vs)), hx("sl-" + "-".join(reversed(vs)))))
                    lines.append("pair %s %s" % (hx("sl-" + "-".join(vs) + "-" + "-".join(vs)), hx("sl-" + "-".join(vs))))
            elif op == "hist":
                # a list of every size 0..24, then an operation on an element that IS in it (first / middle / last / each),
                # on one that is not, and the same through the other kinds of lists
                a = "abcdefghijklmnopqrstuvwxyz"
                hb = lambda t: R.hexs(t.encode())
                for k in range(0, 25):
                    ats = ["at%s%s" % (a[i // 26], a[i % 26]) for i in range(k)]
                    tags = ["t%s%s" % (a[i // 26], a[i % 26]) for i in range(k)]
                    keys = [a[i // 26] + a[i % 26] for i in range(k)]
                    tkeys = [a[i % 26] + "0123456789"[i // 26] for i in range(k)]
                    vs = [_variant_name(i, 5 + i % 4) for i in range(k)]
                    inits = {
                        "a": "en" + ("-u-" + "-".join(ats) if ats else ""),
                        "t": "en" + ("-x-" + "-".join(tags) if tags else ""),
                        "k": "en" + ("-u-" + "-".join(x + "-v" + x + "x" for x in keys) if keys else ""),
                        "f": "en" + ("-t-" + "-".join(x + "-v" + x + "x" for x in tkeys) if tkeys else ""),
                        "v": "en" + ("-" + "-".join(vs) if vs else ""),
                    }
                    idxs = sorted(set([0, k // 2, k - 1] + list(range(0, k, 3)))) if k else []
                    for i in idxs:
                        lines.append("hist %s sa:%s ha:%s ra:%s ha:%s ra:%s" % (hb(inits["a"]), hb(ats[i]), hb(ats[i]), hb(ats[i]), hb(ats[i]), hb(ats[i])))
                        lines.append("hist %s ra:%s sa:%s" % (hb(inits["a"]), hb(ats[i]), hb(ats[i])))
                        lines.append("hist %s at:%s ht:%s rt:%s ht:%s rt:%s" % (hb(inits["t"]), hb(tags[i]), hb(tags[i]), hb(tags[i]), hb(tags[i]), hb(tags[i])))
                        lines.append("hist %s rt:%s at:%s" % (hb(inits["t"]), hb(tags[i]), hb(tags[i])))
                        lines.append("hist %s kw:%s sk:%s:%s kw:%s rk:%s rk:%s" % (hb(inits["k"]), hb(keys[i]), hb(keys[i]), hb("newval"), hb(keys[i]), hb(keys[i]), hb(keys[i])))
                        lines.append("hist %s tf:%s stf:%s:%s tf:%s rtf:%s rtf:%s" % (hb(inits["f"]), hb(tkeys[i]), hb(tkeys[i]), hb("newval"), hb(tkeys[i]), hb(tkeys[i]), hb(tkeys[i])))
                        lines.append("hist %s hv:%s" % (hb(inits["v"]), hb(vs[i])))
                    lines.append("hist %s sa:%s ra:%s sa:%s sa:%s" % (hb(inits["a"]), hb("zzznew"), hb("zzznew"), hb("aaanew"), hb("aaanew")))
                    lines.append("hist %s at:%s rt:%s at:%s at:%s" % (hb(inits["t"]), hb("zzz"), hb("zzz"), hb("aaa"), hb("aaa")))
                    if k >= 2:
                        # the list replaced by one of the SAME length that repeats an element: adjacent, non-adjacent, in another order
                        for rep in (vs[:-1] + [vs[0]], [vs[-1]] + vs[:-1][::-1], vs[:-2] + [vs[-1], vs[-1]], [vs[k // 2]] + vs[1:]):
                            lines.append("hist %s sv:%s hv:%s" % (hb(inits["v"]), ",".join(hb(x) for x in rep), hb(vs[0])))
                            lines.append("hist %s sv:%s sv:%s" % (hb("en-US"), ",".join(hb(x) for x in vs), ",".join(hb(x) for x in rep)))
                    if vs:
                        lines.append("hist %s sv:%s sv:%s sv:%s cv" % (hb("en-US"), ",".join(hb(x) for x in vs), ",".join(hb(x) for x in reversed(vs + vs)), ",".join(hb(x) for x in [vs[0]] * k)))
                        lines.append("hist %s sv:%s" % (hb(inits["v"]), ",".join(hb(x) for x in [vs[-1]] * k)))
        return lines
    if name == "specials":
        # the words the code treats specially (`und`, `true`, `root`, the source's own new literals), in every case pattern, alone and
        # EXTENDED by 1..5 letters / digits on either side (a longer subtag that merely starts or ends like a special word is an
        # ordinary subtag), as a subtag of each kind and as the language / a variant / a value inside an identifier
        import itertools
        words = ["und", "true", "root", "mul", "zxx"] + [w.decode("latin-1") for w in dwords if 1 <= len(w) <= 8 and w.isalnum()]
        forms = []
        for w in words:
            cases = {w, w.upper(), w.title(), w[:-1] + w[-1].upper(), w[0].upper() + w[1:]}
            for c in sorted(cases):
                forms.append(c)
                for suf in ("e", "ef", "efi", "efin", "efine", "1", "12", "er9", "x"):
                    if len(c) + len(suf) <= 9:
                        forms.append(c + suf)
                        forms.append(suf + c)
            forms.append(w[:-1])
        forms = sorted(set(forms))
        oplist = (ops or "lang,script,region,variant").split(",")
        lines = []
        for f in forms:
            for op in oplist:
                if op in ("lang", "script", "region", "variant", "langstr"):
                    lines.append("%s %s" % (op, hx(f)))
                elif op in ("li", "lican", "listr", "loc", "loccan", "locstr", "conv", "idem", "liparts", "locparts"):
                    for t in (f, f + "-Latn-PL", "en-" + f, "en-Latn-US-" + f, f + "-" + f):
                        lines.append("%s %s" % (op, hx(t)))
                    if op in ("loc", "loccan", "locstr", "conv", "idem", "locparts"):
                        for t in ("en-u-" + f, "en-u-ca-" + f, "en-t-" + f, "en-t-h0-" + f, "en-x-" + f, f + "-u-ca-" + f + "-x-" + f):
                            lines.append("%s %s" % (op, hx(t)))
                elif op == "eqstr":
                    for t in (f, f + "-Latn-PL"):
                        lines.append("eqstr %s %s" % (hx(t), hx(t)))
                        lines.append("eqstr %s %s" % (hx(t), hx(t.lower())))
                        lines.append("eqstr %s %s" % (hx(t), hx("und" + t[3:])))
                elif op == "rel":
                    for g in ("und", "undef", "en"):
                        lines.append("rel %s %s" % (hx(f + "-Latn-PL"), hx(g + "-Latn-PL")))
                elif op == "match":
                    for g in ("und", "undef", f.lower()):
                        lines.append("match %s %s" % (hx(f + "-Latn-PL"), hx(g + "-Latn-PL")))
        return lines
    if name == "aftermath":
        # a well-formed text X, then IMMEDIATELY X with bytes appended / prepended / cut (NUL padding, white space, a separator, a
        # high byte, one more letter): an answer remembered for X (a memo whose key drops the length, trims, or compares a prefix)
        # must not be given for its neighbour.  Every neighbour is asked right after its own X.
        oplist = (ops or "li,loc").split(",")
        ids = sweep_identifiers()
        base = [t for t in ids if len(t) <= 30][::5] + ["en-US", "pl_latn_pl", "und", "sr-Cyrl-RS-u-ca-buddhist", "en-t-es-AR-h0-hybrid-x-priv", "de-CH-1996"]
        tails = [b"\x00", b"\x00\x00\x00", b" ", b"\n", b"-", b"_", b"\xff", b"a", b"-a", b"\x00x", b"-1996", b"-valencia", b"-US", b"-Latn",
                 b"-x-a", b"-u-ca-buddhist"]
        # longer texts too (a key that keeps only the first 16 / 24 / 32 / 48 / 64 bytes), and neighbours of the SAME length: one byte
        # changed, at the end and at every eighth position (to another letter / digit: mostly a different well-formed text; to `$`: an
        # ill-formed one)
        longs = [t for t in ids if 33 <= len(t) <= 75][::9] + ["en-Latn-US-u-ca-buddhist-hc-h12-nu-thai-x-private", "th-TH-u-ca-buddhist-co-phonebk-hc-h12-nu-thai",
                                                               "ca-Latn-ES-fonipa-valencia-1996-alalc97-t-en-h0-hybrid"]
        lines = []
        for op in [o for o in oplist if o != "serfrom"]:
            for t in longs + base[:40]:
                tb = t.encode()
                pos = sorted(set([len(tb) - 1, len(tb) - 2] + list(range(7, len(tb), 8))))
                for i in pos:
                    if i < 0 or tb[i:i + 1] == b"-":
                        continue
                    for repl in (b"$", b"z" if tb[i:i + 1] != b"z" else b"y", b"7" if tb[i:i + 1] != b"7" else b"8"):
                        lines.append("%s %s" % (op, R.hexs(tb)))
                        lines.append("%s %s" % (op, R.hexs(tb[:i] + repl + tb[i + 1:])))
        # a multi-byte character at every offset of short texts (a fast path that cuts a &str at a fixed byte offset)
        for op in [o for o in oplist if o in ("listr", "locstr", "li", "loc", "lican", "loccan", "conv")]:
            for t in ("en", "en-US", "en-Latn", "de-1996", "sr-Cyrl-RS", "und", "a-b-c-d-e-f"):
                for ch in ("\u00e9", "\u20ac", "\U0001f600"):
                    for i in range(len(t) + 1):
                        for cut in (0, 1, 2, 3):
                            u = t[:i] + ch + t[i + cut:]
                            lines.append("%s %s" % (op, R.hexs(u.encode("utf-8"))))
        if "serfrom" in oplist:
            # the same through JSON strings (`\u0000` for NUL)
            oplist = [o for o in oplist if o != "serfrom"]
            for t in base:
                for tl in (b"\x00", b"\x00\x00\x00", b" ", b"\n", b"-", b"a"):
                    lines.append("serfrom %s" % R.hexs(json.dumps(t).encode()))
                    lines.append("serfrom %s" % R.hexs(json.dumps(t + tl.decode()).encode()))
                lines.append("serfrom %s" % R.hexs(json.dumps(t).encode()))
                lines.append("serfrom %s" % R.hexs(json.dumps(t[:-1]).encode()))
        for op in oplist:
            for t in base:
                tb = t.encode()
                for tl in tails:
                    lines.append("%s %s" % (op, R.hexs(tb)))
                    lines.append("%s %s" % (op, R.hexs(tb + tl)))
                for hd in (b"\x00", b" ", b"-"):
                    lines.append("%s %s" % (op, R.hexs(tb)))
                    lines.append("%s %s" % (op, R.hexs(hd + tb)))
                lines.append("%s %s" % (op, R.hexs(tb)))
                lines.append("%s %s" % (op, R.hexs(tb[:-1])))
                lines.append("%s %s" % (op, R.hexs(tb)))
                lines.append("%s %s" % (op, R.hexs(tb.upper() + b"\x00")))
        return lines
    if name == "cldrhist":
        # every key of the bundled likelySubtags.json as a start value, then maximize / minimize: what the tables put INTO an
        # identifier must print canonically, re-parse to an equal value and survive the parts round trip like anything else
        d = json.load(open(os.path.join(R.REPO, "unic-langid-impl", "data", "likelySubtags.json")))["supplemental"]["likelySubtags"]
        lines = []
        for k in d:
            lines.append("hist %s mx" % hx(k))
            lines.append("hist %s mn" % hx(k))
        for k in list(d)[::7]:
            lines.append("hist %s mx mn mx" % hx(k + "-u-ca-buddhist"))
        return lines
    if name == "abb":
        # a question about a language the tables know (A), then the SAME question about a language they do not know, twice (B, B):
        # what was remembered about A (a memo keyed by the language, an index left behind by a look-up that failed) must not
        # answer for B, the first time or the second
        oplist = (ops or "max,min").split(",")
        defaults = cldr_language_defaults()
        step = 1 if tier == "thorough" else 9
        pick = defaults[::step] + [d for d in defaults if d[0] in ("en", "zh", "sr", "az", "uz", "pa", "he", "ar", "ur", "ms", "ku", "ks", "sd", "ug", "ha")]
        unknowns = ["tlh", "xzz", "qaa"]
        lines = []
        k = 0
        for (l, sc, rg) in pick:
            # an unknown language: a fixed one, or the known one extended to a (well-formed) 5-8 letter language
            u = (unknowns + [l + "xyz"[: max(2, 5 - len(l))], (l + "issabcd")[:8], l + "abc"])[k % (len(unknowns) + 3)]
            k += 1
            for op in oplist:
                if op in ("max", "min"):
                    for (s_, r_) in ((sc, rg), (None, rg), (sc, None), (None, None)):
                        f = lambda x: hx(x) if x else "~"
                        lines.append("%s %s %s %s" % (op, hx(l), f(s_), f(r_)))
                        lines.append("%s %s %s %s" % (op, hx(u), f(s_), f(r_)))
                        lines.append("%s %s %s %s" % (op, hx(u), f(s_), f(r_)))
                elif op in ("limax", "limin", "liminmax", "dir", "locmax", "locmin"):
                    for shape in ("%s-%s-%s" % ("%s", sc, rg), "%s-" + rg, "%s-" + sc, "%s"):
                        lines.append("%s %s" % (op, hx(shape % l)))
                        lines.append("%s %s" % (op, hx(shape % u)))
                        lines.append("%s %s" % (op, hx(shape % u)))
        return lines
    if name == "langmisc":
        lines = ["langdefault", "langopt ~"]
        for w in [b"en", b"UND", b"und", b"e", b"", b"abcd", b"EN", b"abcde", b"root"] + dwords:
            w = w.decode("latin-1")
            lines.append("langopt " + R.hexs(w.encode("latin-1")))
        return lines
    if name == "layoutnames":
        names, _ = layout_data()
        lines = []
        for n in names:
            lines.append("dir " + R.hexs(n.encode()))
            lines.append("dir " + R.hexs((n + "-1996").encode()))
        # every CLDR name again, asked right after another identifier of the same language (each CLDR sibling, and the
        # language with regions / scripts that send it elsewhere): the answer for a name must not depend on what the same
        # process was asked before
        bylang = collections.defaultdict(list)
        for n in names:
            bylang[n.split("-")[0]].append(n)
        for lang, sibs in sorted(bylang.items()):
            others = sibs[:12] + [lang + "-" + x for x in ("PK", "IR", "AF", "CN", "IN", "US", "Arab", "Latn", "Cyrl", "Mong", "Hebr")]
            k = 0
            for n in sibs:
                for m in others:
                    if m != n:
                        # an identifier of another language first (whatever was remembered about this one is displaced)
                        k += 1
                        lines.append("dir " + R.hexs(("he", "ur-IN", "en", "fa-AF", "ku")[k % 5].encode()))
                        lines.append("dir " + R.hexs(m.encode()))
                        lines.append("dir " + R.hexs(n.encode()))
        return lines
    if name == "tablemisc":
        return ["cldrversion"]
    if name == "glue_li":
        # the iterator-level entry points on arbitrary subtag lists (also the empty list and subtags containing separators)
        import itertools
        alpha = [b"", b"en", b"EN", b"und", b"Latn", b"US", b"419", b"macos", b"1996", b"u", b"x", b"a-b", b"en_US", b"abcd",
                 b"abcdefghi", b"e"] + dwords[:4]
        lines = []
        for n in range(0, 4):
            for toks in itertools.product(alpha, repeat=n):
                l = ",".join(R.hexs(t) for t in toks) if toks else "[]"
                for op in ("liiter", "liiterp"):
                    for fl in "01":
                        lines.append("%s %s %s" % (op, fl, l))
        return lines
    if name == "glue_misc":
        lines = ["errdisp"] + ["exttype %d" % i for i in range(256)]
        words = [b"en", b"EN", b"und", b"Und", b"fil", b"abcde", b"abcdefgh", b"abcd", b"e", b"", b"Latn", b"lATN", b"latn1", b"US",
                 b"us", b"419", b"41", b"4190", b"macos", b"MacOS", b"1996", b"1abc", b"abcdefghi", b"a.cde", b"valencia",
                 b"\xc3\xa9cole", b"12345678"] + dwords
        for kind in ("lang", "script", "region"):
            for w in words:
                lines.append("rawref %s %s" % (kind, R.hexs(w)))
        for w in words:
            for o in (w, w.lower(), w.upper(), b"other", b""):
                lines.append("rawref variant %s %s" % (R.hexs(w), R.hexs(o)))
        # a subtag compared with strings around its own text: other case, prefix, extension, neighbours
        for kind in ("lang", "script", "region", "variant"):
            for w in words:
                try:
                    w.decode("utf-8")
                except Exception:
                    continue
                others = {w, w.lower(), w.upper(), w.title(), w[:-1], w + b"a", w + b"-", b"-" + w, b"", b"und", b"UND", b"Und",
                          # the text padded with NUL bytes (to 4 / 8 bytes and beyond), before and after
                          w + b"\x00", w + b"\x00" * max(1, 4 - len(w)), w + b"\x00" * max(1, 8 - len(w)), b"\x00" + w, w + b"\x00" * 9}
                for o in sorted(others):
                    lines.append("subeq %s %s %s" % (kind, R.hexs(w), R.hexs(o)))
        return lines
    raise KeyError(name)


def corpus_lines(pid):
    out = []
    for name in ("all.txt", pid + ".txt"):
        p = os.path.join(R.ROOT, "corpus", name)
        if os.path.exists(p):
            for l in open(p):
                l = l.strip()
                if l and not l.startswith("#"):
                    out.append(l)
    return out


def gen_requests(harness, cfg, tier, seed, workdir):
    """writes the corpus and every stream of the property into request files; returns [(name, path)]"""
    files = []
    import srcdict
    dict_path = os.path.join(workdir, "dict.txt")
    toks, ints = srcdict.write_dict_file(R.REPO, dict_path)
    DICT["tokens"], DICT["ints"] = toks, ints
    if toks or ints:
        log("  source literals the baseline tree did not have (fed to the generators): %s %s" % ([repr(t)[1:] for t in toks], ints))
    cl = corpus_lines(cfg.pid)
    if cl:
        p = os.path.join(workdir, "req_corpus.txt")
        open(p, "w").write("\n".join(cl) + "\n")
        files.append(("corpus", p))
    for stream, ops in cfg.streams:
        p = os.path.join(workdir, "req_%s.txt" % stream)
        try:
            lines = extra_stream(stream, tier, seed, ops)
            open(p, "w").write("\n".join(lines) + "\n")
        except KeyError:
            env = dict(os.environ, GEN_DICT=dict_path)
            env.update(cfg.gen_env)
            if ops:
                env["GEN_OPS"] = ops
            with open(p, "w") as fo:
                r = subprocess.run([harness, "gen", stream, cfg.stream_tier or tier, str(seed)], stdout=fo, stderr=subprocess.PIPE, env=env)
            if r.returncode != 0:
                raise RuntimeError("generator %s failed: %s" % (stream, r.stderr.decode()))
        if stream != "macros":
            repeat_lines(p)
            inject_failing_calls(p)
        files.append((stream, p))
    return files


POISON = [b"ca-ES-valencia-macos-x!", b"de-1996-u-ca", b"en-u-ca-buddhist-h0-hybrid", b"en-u-attr-foo-a1", b"en-t-es-AR-h0-hybrid-$",
          b"en-x-foo-$", b"sl-rozaj-biske-1994-t-en", b"en-t-es-macos-valencia-$", b"pl-Latn-PL-nedis-u-nu-latn-zz"]


def inject_failing_calls(path, every=11):
    """before every 11th request a call that FAILS half-way through is made by the same process (a language identifier or
    locale text that is rejected after variants / attributes / keyword types / tfield values / private tags were already
    collected).  The inserted requests are not judged themselves (they belong to no property's ops unless the property
    lists `li` / `loc`); what they leave behind must not change the answer to the request that follows."""
    tmp = path + ".inj"
    k = 0
    with open(path) as fi, open(tmp, "w") as fo:
        for i, line in enumerate(fi):
            if i % every == 7:
                w = POISON[k % len(POISON)]
                fo.write("%s %s\n" % (("li", "loc")[(k // len(POISON)) % 2] if k % 3 else "li", R.hexs(w)))
                k += 1
            fo.write(line)
    os.replace(tmp, path)


def repeat_lines(path, every=6):
    """every 6th request is asked twice in a row (of the same process): an answer that changes when the same question is asked
    again (a memo keyed by the last input, a scratch buffer left behind by the first call) shows on the second one"""
    tmp = path + ".rep"
    with open(path) as fi, open(tmp, "w") as fo:
        for i, line in enumerate(fi):
            fo.write(line)
            if i % every == 3 and not line.startswith("mac "):
                fo.write(line)
    os.replace(tmp, path)


def judge(cfg, req, impl, mo, ctx):
    """returns (disagreement?, oracle message or None)"""
    op = req.split(" ", 1)[0]
    model, spec = split_model(mo)
    if op in ("dir", "locdir", "dirv") and spec is not None:
        # the model answers for both builds, then the clause oracle: `<with likelysubtags>\t<without>\t<must DIR | free>`
        cols = mo.split("\t")
        model = cols[0] if ctx.get("likely", True) else cols[1]
        spec = cols[2] if len(cols) > 2 else None
        ctx["dirref"] = cols[3][4:] if (len(cols) > 3 and cols[3].startswith("ref ")) else None
    if cfg.ops is not None and op not in cfg.ops:
        return False, None
    dis = False
    if impl is None or model is None:
        dis = True
    elif impl != "notutf8" and impl != "na" and model != "na":
        dis = cfg.project(op, impl) != cfg.project(op, model)
    msg = cfg.oracle(ctx, op, req, impl, model, spec) if cfg.oracle else None
    return dis, msg


def run_stream(harness, sname, path, workdir, timeout):
    """answers one request file on both sides; returns (shards, problems)"""
    if sname == "macros":
        import macros as M
        reqs = [l.rstrip("\n") for l in open(path)]
        impl, notes = M.run_macros(harness, reqs)
        model = R.answer_lines(R.DRIVER, reqs, timeout=600)
        probs = []
        if model is None:
            model = [None] * len(reqs)
            probs.append(("model", path, "driver died on the macros stream"))
        with open(path + ".impl", "w") as f:
            f.write("".join((a or "died") + "\n" for a in impl))
        with open(path + ".model", "w") as f:
            f.write("".join((m if m is not None else "died") + "\n" for m in model))
        for n in notes:
            log("  macros: " + n)
        return [path], probs
    return R.run_sharded(harness, path, workdir, timeout)


def check(pid, tier, seed):
    t0 = time.time()
    if pid not in PROPS:
        print("unknown or unclaimed property", pid)
        return 2
    cfg = PROPS[pid]
    workdir = os.path.join(R.BUILD, "run-" + pid)
    os.makedirs(workdir, exist_ok=True)
    for f in os.listdir(workdir):
        os.remove(os.path.join(workdir, f))
    configs = cfg.thorough_configs if tier == "thorough" else cfg.configs
    cfg_extent = None
    if pid == "C20":
        # the model has one configuration parameter because the source has one cfg(feature) inside a function body; when the
        # sources say otherwise every feature combination is compared, also in the quick tier
        import cfgscan
        occ, changed = cfgscan.extent(R.REPO)
        cfg_extent = {"occurrences": occ, "differs_from_modelled_extent": changed}
        if changed:
            configs = cfg.thorough_configs
            log("  cfg(feature) extent differs from the modelled one: comparing all %d feature builds" % len(configs))
        # configuration tie: every source-tied function translated once per feature set of the implementation crates and
        # proved equal to the default translation (checklib/cfgtie.py; UL.CfgTie.<cfg>.<f>_eq, SrcTie/TransferCfg.lean).
        # Like the source tie it is not an alarm by itself when it is lost: the property is then decided by all eight
        # feature builds (a rewrite that no property speaks about can break an equality).
        import cfgtie
        with R.Lock():
            ct = cfgtie.run(R.REPO, R.ROOT)
            ct_proved, ct_total, ct_rest = cfgtie.summary(ct)
            ct_transfer = None
            if ct.get("translator_built") and ct_total and ct_proved == ct_total:
                ok_tc, _ = R.lake_build(["UnicLocale.SrcTie.TransferCfg"])
                ct_transfer = ("UL.SrcTie.TransferCfg.* built (parsers, printers, canonicalize, matches, == &str, subtag constructors, mutators: one "
                               "function in all feature sets; character_direction differs between builds only as documented)"
                               if ok_tc else "UL.SrcTie.TransferCfg does not build")
        config_tie = {"translator_built": ct.get("translator_built"), "proved": ct_proved, "of": ct_total,
                      "configs": {ns: {"features": e.get("features"), "error": e.get("error"), "model_theorems": e.get("model_theorems"),
                                       "absent": sorted(n for n, f in e.get("functions", {}).items() if f["status"] == "absent"),
                                       "proved": sum(1 for f in e.get("functions", {}).values() if f["status"] == "proved"),
                                       "types_same_as_default": e.get("types_same_as_default"),
                                       "impls_same_as_default": e.get("impls_same_as_default")}
                                  for ns, e in ct.get("configs", {}).items()},
                      "not_proved": [{"config": a, "function": b, "status": c, "reason": (d or "")[:300]} for a, b, c, d in ct_rest],
                      "transfer_theorems": ct_transfer,
                      "rule": "UL.CfgTie.<config>.<f>_eq : @UL.Src<config>.<f> = @UL.Src.<f> for every translated definition (targets and their loops); "
                              "absent = the item exists only with a feature (extra API)"}
        cfg_extent["config_tie"] = config_tie
        if ct_total == 0 or ct_proved != ct_total:
            configs = cfg.thorough_configs
            for a, b, c, d in ct_rest[:8]:
                log("  configuration tie: %s / %s is %s (%s)" % (a, b, c, (d or "")[:160]))
            log("  configuration tie incomplete (%d of %d): comparing all %d feature builds" % (ct_proved, ct_total, len(configs)))
        else:
            log("  configuration tie: %d of %d definitions proved equal across the feature sets" % (ct_proved, ct_total))
    harnesses = {}
    macros_broken = False
    with R.Lock():
        tabh, out = R.build_harness(ALL_FEATURES)      # the translator needs the tables (feature likelysubtags)
        if not tabh:
            # a harness that uses the compile-time macros cannot be built when a macro no longer accepts what the harness
            # writes; that is C16's business (its generated program reports compile errors per invocation).  Every other
            # request is answered by a harness built without the macros feature.
            tabh, out2 = R.build_harness(tuple(f for f in ALL_FEATURES if f != "macros"))
            macros_broken = bool(tabh)
            if macros_broken:
                log("  the harness does not build with the macros feature; continuing without it:\n" + "\n".join(out.splitlines()[-12:]))
        if not tabh:
            print(out[-6000:])
            print("BUILD-FAILED: the harness does not compile against %s" % R.REPO)
            return 2
        for label, feats in configs:
            if macros_broken:
                feats = tuple(f for f in feats if f != "macros")
            h, out = R.build_harness(feats)
            if not h:
                print(out[-6000:])
                print("BUILD-FAILED: the harness does not compile against %s with features %s" % (R.REPO, feats))
                return 2
            harnesses[label] = h
        e = R.regen(tabh)
        if e:
            print(e)
            return 2
        ok_drv, out_drv = R.lake_build(["driver", "UnicLocale.Audit"])
        ok_thm, out_thm = R.lake_build(["UnicLocale.Props." + pid])
    if not ok_drv:
        print(out_drv[-6000:])
        print("BUILD-FAILED: the model driver does not build")
        return 2
    thms, audit_out, audit_rc = ([], "", 1)
    broken_theorems = []
    # the CLDR constants the theorems speak about are the output of gen/cldr2lean.py; an independent reader written in Lean
    # (Lean.Json, own classification and packing: lean/UnicLocale/CldrCheck.lean) must arrive at the same lists
    cc = subprocess.run([R.DRIVER, "cldrcheck", os.path.join(R.REPO, "unic-langid-impl")], stdout=subprocess.PIPE,
                        stderr=subprocess.STDOUT, text=True)
    cldr_crosscheck = cc.stdout.strip()
    if cc.returncode != 0 or not cldr_crosscheck.startswith("ok "):
        broken_theorems.append("translator cross-check: the Lean reader of the CLDR JSON disagrees with gen/cldr2lean.py: " + cldr_crosscheck[:400])
    if ok_thm:
        thms, audit_out, audit_rc = R.audit(pid)
        if audit_rc != 0 or not thms:
            broken_theorems.append("audit of UL.Props.%s failed" % pid)
        for name, ax in thms:
            bad = [a for a in ax if a not in R.ALLOWED_AXIOMS]
            if bad:
                broken_theorems.append("%s depends on %s" % (name, ",".join(bad)))
        hits = R.grep_forbidden()
        for h in hits:
            broken_theorems.append("forbidden construct: " + h)
        if tier == "thorough":
            r = R.sh(["lake", "env", "leanchecker", "UnicLocale.Props." + pid], cwd=R.LEAN)
            if r.returncode != 0:
                broken_theorems.append("leanchecker rejects UnicLocale.Props.%s: %s" % (pid, r.stdout[-300:]))
    else:
        errs = re.findall(r"error: (\S+\.lean:\d+:\d+): (.*)", out_thm)
        broken_theorems.append("lake build UnicLocale.Props.%s failed: %s" % (pid, "; ".join("%s %s" % e for e in errs[:5])))
        log(out_thm[-3000:])

    # ---- source tie: the loop-free functions this property rests on, translated from the current source text and proved equal
    # to the model.  A function the translator cannot read (`untranslated`) or whose equality no longer proves (`unproved`)
    # falls back to the differential tie alone; that by itself is not an alarm (DESIGN.md section 10).
    source_tie = None
    if pid in SRC_TIE:
        import srctie
        with R.Lock():
            st = srctie.run(R.REPO, R.ROOT)
        source_tie = {"translator_built": st.get("translator_built"), "functions": {}}
        for fn in SRC_TIE[pid]:
            info = st.get("functions", {}).get(fn, {"status": "untranslated", "reason": "not reported by the translator"})
            source_tie["functions"][fn] = {k: info.get(k) for k in ("status", "reason", "rust", "sha")}
            if info.get("status") != "proved":
                log("  source tie: %s is %s (%s); this function is tied to the code by the correspondence streams only" % (
                    fn, info.get("status"), (info.get("reason") or "")[:200]))
        source_tie["proved"] = sum(1 for f in source_tie["functions"].values() if f["status"] == "proved")
        source_tie["of"] = len(source_tie["functions"])
        if pid in ("C11", "C15") and source_tie["proved"] == source_tie["of"]:
            # the property theorems restated about the source-derived definitions (SrcTie/Transfer.lean)
            with R.Lock():
                ok_tr, _ = R.lake_build(["UnicLocale.SrcTie.Transfer"])
            source_tie["transfer_theorems"] = "UL.SrcTie.Transfer.* built" if ok_tr else "UL.SrcTie.Transfer does not build"
        if pid in ("C10", "C12", "C17") and source_tie["proved"] == source_tie["of"]:
            with R.Lock():
                ok_tr, _ = R.lake_build(["UnicLocale.SrcTie.TransferOps"])
            source_tie["transfer_theorems"] = ("UL.SrcTie.TransferOps.* built (UL.Src.step = step for every operation; the history theorems hold of "
                                               "histories run on the source-derived mutators, getters, printer and parser)"
                                               if ok_tr else "UL.SrcTie.TransferOps does not build")
        if pid == "C19" and source_tie["proved"] == source_tie["of"]:
            with R.Lock():
                ok_tr, _ = R.lake_build(["UnicLocale.SrcTie.TransferSerde"])
            source_tie["transfer_theorems"] = ("UL.SrcTie.TransferSerde.* built (serialised form = the canonical string the source-derived Display writes; a string "
                                               "deserialises exactly as the source-derived parser parses it; round trip; never a panic)"
                                               if ok_tr else "UL.SrcTie.TransferSerde does not build")
        if pid == "C16" and source_tie["proved"] == source_tie["of"]:
            with R.Lock():
                ok_tr, _ = R.lake_build(["UnicLocale.SrcTie.TransferMacros"])
            source_tie["transfer_theorems"] = ("UL.SrcTie.TransferMacros.* built (each source-derived proc macro = value of the source-derived run-time parse / compile "
                                               "error otherwise, for every literal; locale! never panics at run time)"
                                               if ok_tr else "UL.SrcTie.TransferMacros does not build")
        if pid in ("C06", "C07", "C08", "C14") and source_tie["proved"] == source_tie["of"]:
            with R.Lock():
                ok_tr, _ = R.lake_build(["UnicLocale.SrcTie.TransferLikely"])
            source_tie["transfer_theorems"] = ("UL.SrcTie.TransferLikely.* built (never panics on the compiled tables, = the CLDR dictionary, only adds "
                                               "and fills all three: about the cascade as the source text defines it)"
                                               if ok_tr else "UL.SrcTie.TransferLikely does not build")
        if pid in ("C01", "C02", "C03", "C04", "C05", "C09", "C13") and source_tie["proved"] == source_tie["of"]:
            # ... and about the source-derived parsers (loops, mutation, the subtag iterator): SrcTie/TransferParse.lean
            with R.Lock():
                ok_tr, _ = R.lake_build(["UnicLocale.SrcTie.TransferParse"])
            source_tie["transfer_theorems"] = ("UL.SrcTie.TransferParse.* built (the property's central theorems hold of the parsers as the "
                                               "source text defines them, incl. termination of the source's loops)"
                                               if ok_tr else "UL.SrcTie.TransferParse does not build")

    # ---- purity obligation.  The model treats every library function as a function of its arguments (DESIGN.md section 1: no global
    # state); on the baseline tree that is visible in the source: no `thread_local!`, no `static mut`, no `static` with interior
    # mutability.  When the sources hold such an item AND a function this property rests on is no longer proved equal to the (pure)
    # model, the property is no longer shown to hold of the code whatever the streams find: reported like a theorem that no longer
    # checks (with a concrete replay when the search finds one, `no-failing-input-found` otherwise).
    if source_tie is not None:
        import cfgscan as _cs
        state_items = _cs.state_scan(R.REPO)
        source_tie["global_state_items"] = state_items
        lost = [fn for fn, f in source_tie["functions"].items() if f["status"] != "proved"]
        if state_items and lost:
            broken_theorems.append("purity: the sources hold global mutable state (%s) and %d of the %d functions this property rests on are no longer "
                                   "proved equal to the model, which is a function of its arguments (%s)" % (
                                       "; ".join("%s:%d %s" % (x["file"], x["line"], x["what"]) for x in state_items[:4]), len(lost), source_tie["of"],
                                       ", ".join(lost[:6])))

    # the transfer theorems (the property's statements about the source-derived definitions) are audited like the property theorems:
    # every one of them with the axioms it rests on
    TRANSFER_OF = {"C11": "Transfer", "C15": "Transfer", "C10": "TransferOps", "C12": "TransferOps", "C17": "TransferOps", "C06": "TransferLikely",
                   "C07": "TransferLikely", "C08": "TransferLikely", "C14": "TransferLikely", "C01": "TransferParse", "C02": "TransferParse",
                   "C03": "TransferParse", "C04": "TransferParse", "C05": "TransferParse", "C09": "TransferParse", "C13": "TransferParse",
                   "C16": "TransferMacros", "C19": "TransferSerde", "C20": "TransferCfg"}
    transfer_ok = (source_tie or {}).get("transfer_theorems", "") if pid != "C20" else ((cfg_extent or {}).get("config_tie", {}).get("transfer_theorems") or "")
    if pid in TRANSFER_OF and " built" in (transfer_ok or "") and "does not build" not in transfer_ok:
        with R.Lock():
            tthms, trc = R.audit_module("UnicLocale.SrcTie." + TRANSFER_OF[pid], "UL.SrcTie." + TRANSFER_OF[pid])
        bad_ax = [(n, [a for a in ax if a not in R.ALLOWED_AXIOMS]) for n, ax in tthms]
        bad_ax = [x for x in bad_ax if x[1]]
        rec = {"module": "UnicLocale.SrcTie." + TRANSFER_OF[pid], "theorems": [{"name": n, "axioms": ax} for n, ax in tthms],
               "audit_rc": trc, "outside_allowed_axioms": bad_ax}
        if pid == "C20":
            cfg_extent["config_tie"]["transfer_audit"] = rec
        else:
            source_tie["transfer_audit"] = rec
        if bad_ax or trc != 0 or not tthms:
            log("  transfer theorems: audit problem %s" % (bad_ax or trc))
        if tier == "thorough":
            # the independent re-check of the compiled module, as for the property theorems
            rlc = R.sh(["lake", "env", "leanchecker", "UnicLocale.SrcTie." + TRANSFER_OF[pid]], cwd=R.LEAN)
            rec["leanchecker_rc"] = rlc.returncode
            if rlc.returncode != 0:
                log("  leanchecker rejects UnicLocale.SrcTie.%s: %s" % (TRANSFER_OF[pid], rlc.stdout[-300:]))

    # ---- correspondence + oracle
    known = [k for k in R.load_known() if k.get("property") == pid and k.get("status") == "known"]

    def is_known(req, impl):
        for k in known:
            if k.get("request") == req:
                return k
            cls = k.get("class")
            if cls and cls in KNOWN_CLASSES and KNOWN_CLASSES[cls](req, impl):
                return k
        return None
    seen_known = set()
    known_hits = 0
    genh = harnesses[configs[0][0]]
    files = gen_requests(genh, cfg, tier, seed, workdir)
    evaluations = 0
    nontrivial = set()
    dist = collections.Counter()
    samples = []
    disagreements = []
    oracle_failures = []
    n_kept_failures = 0
    problems = []
    ctx = {}
    timeout = 900 if tier == "quick" else 3600
    multi = len(configs) > 1
    for label, feats in configs:
        harness = harnesses[label]
        ctx["config"] = label
        ctx["likely"] = "likely" in feats
        ctx["first_config"] = (label == configs[0][0])
        for sname, path in files:
            shards, probs = run_stream(harness, sname, path, workdir, timeout)
            for kind, where, what in probs:
                if kind == "impl":
                    first = where           # the harness wrapper names the request itself
                else:
                    first = R.locate_hang_or_crash(R.DRIVER, where) if (sname != "macros" and where and os.path.exists(where)) else None
                problems.append({"side": kind, "what": what, "request": first, "shown": R.show_req(first) if first else None,
                                 "config": label})
            n_stream = 0
            tag = (label + ":" if multi else "") + sname
            window = collections.deque(maxlen=48)      # the requests answered just before, by the same process
            for req, impl, mo in R.iter_results(shards, window):
                evaluations += 1
                n_stream += 1
                op = req.split(" ", 1)[0]
                cls = "died" if impl is None else ("ok" if impl.startswith(("ok", "some", "value")) else impl.split(" ")[0])
                dist[tag + "/" + op + "/" + cls] += 1
                if cls == "ok":
                    nontrivial.add(hash(req))
                if n_stream in (1, 1000) and len(samples) < 16:
                    samples.append({"stream": tag, "request": R.show_req(req), "impl": impl, "model": mo})
                dis, msg = judge(cfg, req, impl, mo, ctx)
                if dis and len(disagreements) < 50:
                    disagreements.append((sname, req, impl, mo, label))
                elif dis:
                    disagreements.append(None)
                if msg:
                    k = is_known(req, impl)
                    if k:
                        known_hits += 1
                        if id(k) not in seen_known:
                            seen_known.add(id(k))
                            print("KNOWN-FINDING: property=%s %s" % (pid, k.get("line", k.get("what", R.show_req(req)))))
                        msg = None
                if msg and n_kept_failures < 50:
                    n_kept_failures += 1
                    oracle_failures.append((sname, req, impl, mo, msg, label, list(window)))
                elif msg:
                    oracle_failures.append(None)
            for sh_ in shards:
                for suffix in ("", ".impl", ".model"):
                    if sname == "macros" and suffix == "":
                        continue
                    try:
                        os.remove(sh_ + suffix)
                    except OSError:
                        pass

    # ---- observations that were made while the machine was overloaded: a request answered `timeout` / `died` / `skipped` is asked
    # again, alone, by a fresh process with a 30 s watchdog.  A request that really hangs or aborts does so again (and stays a
    # problem); one that is answered normally now was slow, not wrong, and is judged on the new answer.
    INFRA = ("timeout", "died", "skipped", None)
    flaky = 0

    def reask(req, label):
        if req.startswith("mac "):
            return None
        a = R.answer_lines_patient(harnesses[label], [req])
        return a[0] if a else None
    kept = []
    for pr in problems:
        if pr["side"] == "impl" and pr.get("request"):
            a = reask(pr["request"], pr.get("config") or configs[0][0])
            if a not in INFRA:
                flaky += 1
                log("  %s was not answered in time during the run but is answered by a fresh process (machine load): %s" % (pr["shown"], a[:80]))
                continue
        kept.append(pr)
    problems = kept

    def refresh(entries, is_oracle):
        out = []
        for e in entries:
            if e is None or e[2] not in INFRA:
                out.append(e)
                continue
            sname, req, impl, mo = e[0], e[1], e[2], e[3]
            label = e[5] if is_oracle else e[4]
            a = reask(req, label)
            if a in INFRA:
                out.append(e)
                continue
            c1 = dict(ctx)
            c1.update({"config": label, "likely": "likely" in dict(configs)[label]})
            dis, msg = judge(cfg, req, a, mo, c1)
            if is_oracle and msg and not is_known(req, a):
                out.append((sname, req, a, mo, msg, label, e[6]))
            elif (not is_oracle) and dis:
                out.append((sname, req, a, mo, label))
        return out
    n0 = len([x for x in oracle_failures if x]) + len([x for x in disagreements if x])
    oracle_failures = refresh(oracle_failures, True)
    disagreements = refresh(disagreements, False)
    flaky += n0 - (len([x for x in oracle_failures if x]) + len([x for x in disagreements if x]))

    # ---- verdict
    violations = []
    if pid == "C18":
        with R.Lock():
            gp = generators_check()
        for g in gp:
            g.update({"seed": seed, "tier": tier, "shown": g["what"], "why": "C18 quantifies over the generator programs as well: "
                      "their output on the bundled CLDR data must be the bundled tables"})
            violations.append(g)
        dist["generators/rerun/" + ("differs" if gp else "identical")] += 2

    def requery(lines, exe):
        if lines and lines[0].startswith("mac ") and exe != R.DRIVER:
            import macros as M
            return M.run_macros(exe, lines)[0]
        return R.answer_lines(exe, lines) or [None] * len(lines)

    # (a) the oracle found failing inputs on the implementation: concrete violations
    real_oracle = [x for x in oracle_failures if x]
    unreproducible = []
    budget = 5
    for sname, req, impl, mo, msg, label, before in real_oracle:
        if budget == 0:
            break
        harness = harnesses[label]
        budget -= 1
        c0 = {"likely": "likely" in dict(configs)[label], "config": label, "requery": True}

        def still_bad(cands, _h=harness, _c0=c0):
            ims = requery(cands, _h)
            mos = requery(cands, R.DRIVER)
            out = []
            for c, i, m in zip(cands, ims, mos):
                if i is None:
                    out.append(cfg.pid == "C01")
                    continue
                mm, sp = split_model(m)
                out.append(bool(judge(cfg, c, i, m, dict(_c0))[1]) and not is_known(c, i))
            return out
        stateless = judge(cfg, req, impl, mo, dict(c0))[1]
        small = R.shrink(req, still_bad) if (sname not in ("corpus", "macros") and stateless) else req
        i2 = requery([small], harness)[0]
        m2 = requery([small], R.DRIVER)[0]
        mm, sp = split_model(m2)
        msg2 = judge(cfg, small, i2, m2, dict(c0))[1]
        v = {"kind": "oracle", "stream": sname, "config": label, "request": small, "shown": R.show_req(small), "impl": i2,
             "model_and_spec": m2, "why": msg2 or msg, "original_request": req, "seed": seed, "tier": tier}
        if not msg2 and stateless and before and sname not in ("corpus", "macros"):
            # the request alone, answered by a fresh process, no longer fails: the answer depended on what the same process
            # had been asked before.  Find the shortest suffix of the preceding requests that brings the failure back.
            for k in (1, 2, 4, 8, 16, 32, 48):
                pre = before[-k:]
                ans = requery(pre + [req], harness)
                last = ans[-1] if ans else None
                if last is not None and judge(cfg, req, last, mo, dict(c0))[1]:
                    # drop preceding requests that are not needed
                    keep = list(pre)
                    j = 0
                    while j < len(keep) and len(keep) > 1:
                        trial = keep[:j] + keep[j + 1:]
                        a2 = requery(trial + [req], harness)
                        if a2 and a2[-1] is not None and judge(cfg, req, a2[-1], mo, dict(c0))[1]:
                            keep = trial
                        else:
                            j += 1
                    v.update({"kind": "oracle-history", "request": req, "shown": R.show_req(req), "impl": last, "model_and_spec": mo,
                              "why": msg + " (only after the preceding requests, answered by the same process)",
                              "preceding_requests": keep, "preceding_shown": [R.show_req(x) for x in keep]})
                    break
            else:
                # neither the request alone nor the request after what the same process had been asked before fails again:
                # nothing that can be replayed, nothing that is reported (it is counted in the evidence)
                unreproducible.append({"request": R.show_req(req), "impl_then": impl, "impl_now": i2, "why": msg, "config": label})
                log("  an observation could not be reproduced and is not reported: %s -> %s (now %s)" % (R.show_req(req), impl, i2))
                continue
        violations.append(v)
    for pr in problems:
        if pr["side"] == "impl":
            violations.append({"kind": "crash-or-hang", "request": pr["request"], "shown": pr["shown"], "why": pr["what"],
                               "config": pr.get("config"), "seed": seed, "tier": tier})
    # (b) something no longer checks but no failing input was found
    nofail = []
    real_dis = [x for x in disagreements if x]
    if not violations:
        for sname, req, impl, mo, label in real_dis[:3]:
            harness = harnesses[label]
            c0 = {"likely": "likely" in dict(configs)[label], "config": label, "requery": True}

            def still_dis(cands, _h=harness, _c0=c0):
                ims = requery(cands, _h)
                mos = requery(cands, R.DRIVER)
                return [judge(cfg, c, i, m, dict(_c0))[0] for c, i, m in zip(cands, ims, mos)]
            small = R.shrink(req, still_dis) if sname not in ("corpus", "macros") else req
            i2 = requery([small], harness)[0]
            m2 = requery([small], R.DRIVER)[0]
            nofail.append({"kind": "correspondence", "no_longer_checks": "corr:%s/%s" % (sname, small.split(" ", 1)[0]), "config": label,
                           "request": small, "shown": R.show_req(small), "impl": i2, "model_and_spec": m2, "seed": seed, "tier": tier})
        for b_ in broken_theorems:
            nofail.append({"kind": "purity" if b_.startswith("purity:") else "theorem",
                           "no_longer_checks": ("purity of the functions UL.SrcTie ties to the model" if b_.startswith("purity:") else "UL.Props.%s" % pid),
                           "detail": b_, "seed": seed, "tier": tier})
        for pr in problems:
            if pr["side"] == "model":
                nofail.append({"kind": "model-driver", "no_longer_checks": "driver", "detail": pr, "seed": seed, "tier": tier})

    rc = 0
    for v in violations[:5]:
        path = R.write_replay(pid, v)
        print("VIOLATION property=%s replay=%s" % (pid, path))
        log("  %s\n  impl:  %s\n  why:   %s" % (v.get("shown"), v.get("impl"), v.get("why")))
        rc = 1
    if not violations and nofail:
        path = R.write_replay(pid, {"not_shown_to_hold": nofail})
        print("VIOLATION property=%s replay=%s no-failing-input-found" % (pid, path))
        for n in nofail[:4]:
            log("  no longer checks: %s  %s" % (n["no_longer_checks"], n.get("shown") or n.get("detail")))
        rc = 1

    obligations = len(thms)
    ev = {
        "property_id": pid, "tier": tier, "seed": seed, "level": "proof",
        "coverage": {
            "obligations": obligations if ok_thm else max(1, obligations),
            "discharged": obligations if (ok_thm and not broken_theorems) else 0,
            "checker_cmd": "cd lean && lake build UnicLocale.Props.%s && lake env lean ../.build/audit_%s.lean  (#audit_ns: axioms per theorem)%s"
                           % (pid, pid, "; lake env leanchecker UnicLocale.Props.%s" % pid if tier == "thorough" else ""),
            "trusted_base": R.TRUSTED_BASE,
            "theorems": [{"name": n, "axioms": ax} for n, ax in thms],
            "evaluations": evaluations,
            "distinct_nontrivial": len(nontrivial),
            "rule": "every request line of the corpus and of the property's generator streams is answered by the real crates "
                    "(every listed feature configuration) and by the Lean model/spec; non-trivial = distinct request whose "
                    "implementation answer is a success (ok/some/value), counted by hashing the request lines",
            "samples": samples,
            "configs": [{"label": l, "features": list(f)} for l, f in configs],
            "distribution": dict(sorted(dist.items())),
            "model_disagreements": len(disagreements),
            "impl_vs_oracle_failures": len(oracle_failures),
            "known_findings_printed": len(seen_known),
            "known_finding_hits": known_hits,
            "answered_late_under_load": flaky,
            "unreproducible_observations": unreproducible[:10],
            "cfg_feature_extent": cfg_extent,
            "cldr_translator_crosscheck": cldr_crosscheck,
            "source_tie": source_tie,
            "source_literal_dictionary": {"tokens": [repr(t)[1:] for t in DICT["tokens"]], "integers": DICT["ints"],
                                          "rule": "literals of /repo's sources that the baseline tree did not have are added to every generator alphabet"},
            "exhaustive": False,
        },
        "assumptions": [cfg.note] if cfg.note else [],
        "wall_s": round(time.time() - t0, 1),
        "violations": len(violations) + (1 if (not violations and nofail) else 0),
    }
    R.write_evidence(pid, ev)
    log("%s %s: %d theorems, %d evaluations, %d disagreements, %d oracle failures, %.0fs" %
        (pid, tier, obligations, evaluations, len(disagreements), len(oracle_failures), time.time() - t0))
    return rc


def replay(path):
    d = json.load(open(path if os.path.isabs(path) else os.path.join(R.ROOT, path)))
    with R.Lock():
        harness, out = R.build_harness(ALL_FEATURES)
        e = R.regen(harness)
        R.lake_build(["driver"])
    items = d.get("not_shown_to_hold", [d])
    for it in items:
        req = it.get("request")
        if not req:
            print(json.dumps(it, indent=1))
            continue
        pre = it.get("preceding_requests") or []
        i = R.answer_lines(harness, pre + [req])
        i = i[-1:] if i else i
        m = R.answer_lines(R.DRIVER, [req])
        for x in pre:
            print("first:  ", R.show_req(x))
        print("request:", R.show_req(req))
        print("impl:   ", i[0] if i else None)
        print("model:  ", m[0] if m else None)
        if it.get("why"):
            print("why:    ", it["why"])
    return 0
